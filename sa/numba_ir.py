"""E8 (thorough tier) -- cross-check of the type premises of the AST rules against Numba's own typed IR.

Importing the working tree's modules IS the build (Numba compiles every @njit(signature) eagerly); no kernel is called.
A disagreement between an AST-derived premise and Numba's typing is an ANALYSIS-ERROR (the rule's premise is wrong),
never a property violation.

Premises checked:
  P1  the signature parsed from the decorator equals the signature Numba compiled (all kernels of the module);
  P2  every integer +,-,* in the kernels the range rules reason about is carried out in 64 bits (so the walker's
      "no intermediate wrap, only stores/returns/calls truncate" model is right);
  P3  (hashes) the left operand of every >> is an unsigned integer (logical shift).
"""
from __future__ import annotations

import importlib
import os
import sys
import time

from .model import REPO, Ty

TYPE_PREMISE_PROPS = {
    "C01": ["countmin"], "C05": ["countmin"], "C09": ["countmin"], "C18": ["countmin", "heavyhitters"], "C06": ["countmin"],
    "C03": ["heavyhitters"], "C04": ["heavyhitters"], "C02": ["hyperloglog", "hashes"], "C11": ["hashes"], "C14": ["countmin", "heavyhitters"],
}


def _ty_of(nbtype):
    s = str(nbtype)
    import re
    m = re.match(r"array\((u?int|float)(\d+), (\d)d", s)
    if m:
        return Ty("uint" if m.group(1) == "uint" else "int" if m.group(1) == "int" else "float", int(m.group(2)), int(m.group(3)))
    m = re.match(r"(u?int|float)(\d+)$", s)
    if m:
        return Ty("uint" if m.group(1) == "uint" else "int" if m.group(1) == "int" else "float", int(m.group(2)))
    if type(nbtype).__name__ == "Bytes" or "bytes(" in s:
        return Ty("bytes")
    if s == "none":
        return Ty("void")
    if s.startswith("Tuple") or s.startswith("UniTuple"):
        return Ty("tuple", items=[_ty_of(t) for t in nbtype.types])
    return Ty("other")


def crosscheck(prop, ctx):
    mods = TYPE_PREMISE_PROPS.get(prop)
    if not mods:
        return {}
    t0 = time.time()
    if REPO not in sys.path:
        sys.path.insert(0, REPO)
    for m in list(sys.modules):
        if m == "sketchnu" or m.startswith("sketchnu."):
            del sys.modules[m]
    errors = []
    stats = {"kernels": 0, "signatures_agree": 0, "int_binops": 0, "int_binops_64bit": 0, "rshift": 0, "rshift_unsigned": 0}
    import warnings
    warnings.simplefilter("ignore")
    from numba.core import ir, types
    for short in mods:
        try:
            mod = importlib.import_module("sketchnu." + short)
        except Exception as e:     # the build failed: not a property statement
            errors.append("cannot import sketchnu.%s from the working tree: %s" % (short, e))
            continue
        if not os.path.abspath(mod.__file__).startswith(os.path.abspath(REPO)):
            errors.append("sketchnu.%s was imported from %s, not from %s" % (short, mod.__file__, REPO))
            continue
        for f in ctx.model.kernels(short):
            disp = getattr(mod, f.name, None)
            if disp is None or not hasattr(disp, "overloads"):
                errors.append("%s: no Numba dispatcher found" % f.key)
                continue
            stats["kernels"] += 1
            sigs = disp.nopython_signatures
            if len(sigs) != 1:
                errors.append("%s: %d compiled signatures" % (f.key, len(sigs)))
                continue
            sig = sigs[0]
            got = [_ty_of(a) for a in sig.args]
            want = [f.ptypes.get(p) for p in f.params]
            rgot = _ty_of(sig.return_type)
            ok = got == want and (f.rtype is None or rgot == f.rtype)
            if ok:
                stats["signatures_agree"] += 1
            else:
                errors.append("%s: AST signature %s -> %r differs from Numba's %s -> %r" % (f.key, want, f.rtype, got, rgot))
            ov = disp.overloads[sig.args]
            ta = ov.type_annotation
            typemap, blocks = ta.typemap, ta.blocks
            for blk in blocks.values():
                for st in blk.body:
                    if isinstance(st, ir.Assign) and isinstance(st.value, ir.Expr) and st.value.op in ("binop", "inplace_binop"):
                        fn = getattr(st.value.fn, "__name__", str(st.value.fn))
                        lt, rt = typemap.get(st.value.lhs.name), typemap.get(st.value.rhs.name)
                        tt = typemap.get(st.target.name)
                        if isinstance(lt, types.Integer) and isinstance(rt, types.Integer) and fn in ("add", "sub", "mul", "iadd", "isub", "imul"):
                            stats["int_binops"] += 1
                            if isinstance(tt, types.Integer) and tt.bitwidth == 64:
                                stats["int_binops_64bit"] += 1
                            else:
                                errors.append("%s line %s: integer %s of %s and %s is typed %s (not 64-bit): intermediate wrap-around is possible, "
                                              "the flow walker's arithmetic model does not hold" % (f.key, st.loc.line, fn, lt, rt, tt))
                        if fn in ("rshift", "irshift") and short == "hashes":
                            stats["rshift"] += 1
                            if isinstance(lt, types.Integer) and not lt.signed:
                                stats["rshift_unsigned"] += 1
                            else:
                                errors.append("%s line %s: left operand of >> is typed %s (arithmetic, not logical shift)" % (f.key, st.loc.line, lt))
    stats["wall_s"] = round(time.time() - t0, 1)
    stats["errors"] = errors
    print("  typed-IR cross-check (%s): %d kernels, %d/%d signatures agree, %d/%d integer +,-,* in 64 bits, %d/%d >> on unsigned, %d disagreement(s), %.1fs"
          % (",".join(mods), stats["kernels"], stats["signatures_agree"], stats["kernels"], stats["int_binops_64bit"], stats["int_binops"],
             stats["rshift_unsigned"], stats["rshift"], len(errors), stats["wall_s"]))
    return {"numba_typed_ir": stats}
