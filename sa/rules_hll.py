"""HyperLogLog rules: join, indep, bits, nlz (E6-i), hll-range, ctor-range-p  (C02);
qtree, forms, alpha, tabidx, tables  (C17)."""
from __future__ import annotations

import ast

from .facts import const_int, facts_of, scalar_ctor
from .flow import Arr, ArrSlice, Bytes, Num, Opaque, Tup, Walker, c_not, conjuncts, show_cond
from .lin import Lin, show_lin
from .model import AnalysisError, call_name, dotted, resolve_temps, self_attr, unparse, walk_no_nested
from .rules_arith import SUMMARIES, agg, fact_strs, group_by_node, on_path, src

HLL = ("hyperloglog", "HyperLogLog")
P_MIN, P_MAX = 7, 16


def hll_kernels(F):
    cls = F.model.cls(*HLL)
    out = {}
    for role, meth in (("add", "add"), ("merge", "merge"), ("query", "query"), ("ngram", "add_ngram")):
        m = cls.methods.get(meth)
        if m is None:
            raise AnalysisError("HyperLogLog.%s not found" % meth)
        ks = [k.callee for k in F.calls_from(m) if k.callee.is_kernel]
        if len(ks) != 1:
            raise AnalysisError("HyperLogLog.%s calls %d kernels" % (meth, len(ks)))
        out[role] = ks[0]
    return out


# ---------------------------------------------------------------------------
# backward slices (E4)
# ---------------------------------------------------------------------------

def backward_slice(func, exprs):
    """Flow-insensitive def-use closure: names, calls and array loads a set of expressions depends on."""
    assigns = {}
    for n in walk_no_nested(func.node):
        if isinstance(n, ast.Assign):
            for t in n.targets:
                for e in (t.elts if isinstance(t, (ast.Tuple, ast.List)) else [t]):
                    if isinstance(e, ast.Name):
                        assigns.setdefault(e.id, []).append(n.value)
        elif isinstance(n, ast.AugAssign) and isinstance(n.target, ast.Name):
            assigns.setdefault(n.target.id, []).append(n.value)
        elif isinstance(n, ast.For):
            for e in ast.walk(n.target):
                if isinstance(e, ast.Name):
                    assigns.setdefault(e.id, []).append(n.iter)
    names, calls, loads = set(), set(), []
    todo = list(exprs)
    seen = set()
    while todo:
        e = todo.pop()
        funcnames = {id(n.func) for n in ast.walk(e) if isinstance(n, ast.Call)}
        for n in ast.walk(e):
            if id(n) in funcnames:
                continue
            if isinstance(n, ast.Call):
                d = dotted(n.func)
                if d:
                    calls.add(d)
            elif isinstance(n, ast.Subscript) and isinstance(n.ctx, ast.Load):
                loads.append(n)
            elif isinstance(n, ast.Name) and isinstance(n.ctx, ast.Load):
                if n.id in seen:
                    continue
                seen.add(n.id)
                names.add(n.id)
                todo.extend(assigns.get(n.id, []))
    return names, calls, loads


# ---------------------------------------------------------------------------
# ctor-range (p) and m == 1 << p
# ---------------------------------------------------------------------------

def rule_p_range(ctx):
    F = facts_of(ctx)
    cls = ctx.model.cls(*HLL)
    ctor = F.ctor(cls)
    w = F.walk(ctor)
    sts = [e for e in w.events if e.kind == "attrstore" and e.target == "self.m"]
    res = []
    for e in sts:
        pv = e.env.get("@self.p")
        if not isinstance(pv, Num):
            res.append((None, "self.p not understood"))
            continue
        p1 = w.P.prove_le0(pv.lin - P_MAX, e.facts)
        p2 = w.P.prove_le0(Lin.const(P_MIN) - pv.lin, e.facts)
        res.append((bool(p1 and p2), "precision validated before the register file is sized" if p1 and p2 else
                    "p is not validated to lie in [%d, %d] before m and the tables are derived" % (P_MIN, P_MAX), fact_strs(e)))
    agg(ctx, "ctor-range", ctor, sts[0].node if sts else ctor.node, "self.p in [7, 16]",
        "%d <= p <= %d whenever a HyperLogLog exists (one table row per accepted precision)" % (P_MIN, P_MAX), res)
    # m == 1 << p
    okk = False
    node = ctor.node
    for n in walk_no_nested(ctor.node):
        if isinstance(n, ast.Assign) and self_attr(n.targets[0]) == "m":
            node = n
            v = n.value
            if isinstance(v, ast.Call) and len(v.args) == 1 and scalar_ctor(v):
                v = v.args[0]
            if isinstance(v, ast.BinOp) and isinstance(v.op, ast.LShift) and const_int(v.left) == 1 and self_attr(v.right) == "p":
                okk = True
            if isinstance(v, ast.BinOp) and isinstance(v.op, ast.Pow) and const_int(v.left) == 2 and self_attr(v.right) == "p":
                okk = True
    ctx.ob("bits", ctor, node, "self.m = 1 << self.p", "the number of registers is 2**p", okk)


# ---------------------------------------------------------------------------
# nlz: exact abstract interpretation of _n_leading_zeros64 over the 65 msb classes
# ---------------------------------------------------------------------------

class Undecided(Exception):
    pass


class IntervalInterp:
    """Evaluates a straight-line/if function over integer intervals.  Exact on the constructs it accepts; anything else
    raises Undecided.  Nothing of the repository is executed: the function's AST is interpreted."""

    def __init__(self, func):
        self.func = func

    def run(self, env):
        return self.block(self.func.body(), dict(env))

    def block(self, stmts, env):
        for s in stmts:
            r = self.stmt(s, env)
            if r is not None:
                return r
        return None

    def stmt(self, s, env):
        if isinstance(s, ast.Assign) and len(s.targets) == 1 and isinstance(s.targets[0], ast.Name):
            env[s.targets[0].id] = self.ev(s.value, env)
            return None
        if isinstance(s, ast.AugAssign) and isinstance(s.target, ast.Name):
            env[s.target.id] = self.binop(s.op, env[s.target.id], self.ev(s.value, env))
            return None
        if isinstance(s, ast.If):
            t = self.test(s.test, env)
            if t is None:
                raise Undecided("condition `%s` not decided on %r" % (unparse(s.test), {k: v for k, v in env.items()}))
            return self.block(s.body if t else s.orelse, env)
        if isinstance(s, ast.Return):
            return ("ret", self.ev(s.value, env), s)
        if isinstance(s, (ast.Pass, ast.Assert)) or (isinstance(s, ast.Expr) and isinstance(s.value, ast.Constant)):
            return None
        raise Undecided("statement %s" % type(s).__name__)

    def ev(self, e, env):
        if isinstance(e, ast.Constant) and isinstance(e.value, int):
            return (e.value, e.value)
        if isinstance(e, ast.Name):
            if e.id in env:
                return env[e.id]
            raise Undecided("name %s" % e.id)
        if isinstance(e, ast.Call) and len(e.args) == 1 and not e.keywords:
            from .flow import cast_target
            ty = cast_target(e.func)
            if ty is not None and ty.kind in ("uint", "int"):
                lo, hi = self.ev(e.args[0], env)
                tlo, thi = ty.range()
                if tlo <= lo and hi <= thi:
                    return (lo, hi)
                if ty.kind == "uint" and lo == hi:
                    return (lo % (thi + 1), lo % (thi + 1))
                raise Undecided("cast %s of %r wraps" % (unparse(e), (lo, hi)))
        if isinstance(e, ast.BinOp):
            return self.binop(e.op, self.ev(e.left, env), self.ev(e.right, env))
        raise Undecided("expression `%s`" % unparse(e))

    def binop(self, op, a, b):
        (al, ah), (bl, bh) = a, b
        if isinstance(op, ast.RShift) and bl == bh and bl >= 0 and al >= 0:
            return (al >> bl, ah >> bl)
        if isinstance(op, ast.LShift) and bl == bh and bl >= 0 and al >= 0:
            return (al << bl, ah << bl)
        if isinstance(op, ast.Sub):
            return (al - bh, ah - bl)
        if isinstance(op, ast.Add):
            return (al + bl, ah + bh)
        if isinstance(op, ast.BitAnd) and al == ah and bl == bh:
            return (al & bl, al & bl)
        raise Undecided("operator %s on %r, %r" % (type(op).__name__, a, b))

    def test(self, t, env):
        if isinstance(t, ast.Compare) and len(t.ops) == 1:
            a = self.ev(t.left, env)
            b = self.ev(t.comparators[0], env)
            op = t.ops[0]
            (al, ah), (bl, bh) = a, b
            if isinstance(op, ast.NotEq):
                if ah < bl or bh < al:
                    return True
                if al == ah == bl == bh:
                    return False
                return None
            if isinstance(op, ast.Eq):
                r = self.test(ast.Compare(left=t.left, ops=[ast.NotEq()], comparators=t.comparators), env)
                return None if r is None else (not r)
            if isinstance(op, ast.Gt):
                return True if al > bh else False if ah <= bl else None
            if isinstance(op, ast.GtE):
                return True if al >= bh else False if ah < bl else None
            if isinstance(op, ast.Lt):
                return True if ah < bl else False if al >= bh else None
            if isinstance(op, ast.LtE):
                return True if ah <= bl else False if al > bh else None
        if isinstance(t, ast.UnaryOp) and isinstance(t.op, ast.Not):
            r = self.test(t.operand, env)
            return None if r is None else (not r)
        if isinstance(t, ast.Name):
            lo, hi = env.get(t.id, (None, None))
            if lo is None:
                return None
            if lo > 0 or hi < 0:
                return True
            if lo == hi == 0:
                return False
            return None
        return None


def nlz_function(F):
    k = hll_kernels(F)["add"]
    # kernels of the module reached from add() -- directly or through an extracted rank helper (`_rho(h, p)` calling the counter)
    cands, todo, seen = [], [k], set()
    while todo:
        g = todo.pop()
        for c in F.calls_from(g):
            cal = c.callee
            if cal.is_kernel and cal.name != "fasthash64" and cal.module.short == "hyperloglog" and cal.key not in seen:
                seen.add(cal.key)
                cands.append(cal)
                todo.append(cal)
    cands = [c for c in cands if len(c.params) == 1 and c.rtype is not None and c.rtype.kind == "uint" and c.rtype.bits == 8] or cands
    cands = list({c.key: c for c in cands}.values())
    if len(cands) != 1:
        raise AnalysisError("leading-zero helper of %s not identified (%d candidates)" % (k.key, len(cands)))
    F.extra_units.add(cands[0].name)
    return cands[0]


def rule_nlz(ctx):
    F = facts_of(ctx)
    f = nlz_function(F)
    ctx.analysed_funcs.add(f.key)
    if len(f.params) != 1:
        raise AnalysisError("%s: expected one parameter" % f.key)
    x = f.params[0]
    interp = IntervalInterp(f)
    bits = f.ptypes[x].bits if f.ptypes.get(x) else 64
    returns_hit = set()
    n_ok = 0
    for k in [None] + list(range(bits)):
        if k is None:
            env = {x: (0, 0)}
            want = bits
            label = "x == 0"
        else:
            env = {x: (1 << k, (1 << (k + 1)) - 1)}
            want = bits - 1 - k
            label = "msb(x) == %d  (x in [2^%d, 2^%d - 1])" % (k, k, k + 1)
        try:
            r = interp.run(env)
        except Undecided as u:
            ctx.ob("nlz", f, f.node, "%s: %s" % (f.name, label), "leading-zero count == %d" % want, None, str(u))
            continue
        if r is None:
            ctx.ob("nlz", f, f.node, "%s: %s" % (f.name, label), "leading-zero count == %d" % want, False, "no return reached")
            continue
        _, (lo, hi), node = r
        returns_hit.add(id(node))
        okk = lo == hi == want
        n_ok += okk
        ctx.ob("nlz", f, node, "%s: %s" % (f.name, label), "leading-zero count == %d for every x of this class" % want, okk,
               "" if okk else "abstract run returns %s at line %d" % ((lo if lo == hi else (lo, hi)), node.lineno))
    rets = [n for n in walk_no_nested(f.node) if isinstance(n, ast.Return)]
    ctx.ob("nlz", f, f.node, "%s: %d/%d return statements reached" % (f.name, len(returns_hit), len(rets)),
           "every return statement is reached by some class (no dead, unchecked exit)", len(returns_hit) == len(rets))
    ctx.assumptions.append("nlz: 65 abstract inputs (zero + 64 msb classes) cover all 2^64 concrete inputs because the function only "
                           "shifts by constants and compares with zero, both exact on msb classes")


def nlz_summary_for(p):
    """Summary of the leading-zero helper justified by rule `nlz`: result == 64 - bitlength(x)."""
    def sm(w, st, node, callee, args):
        if not args or not isinstance(args[0], Num):
            return None
        hi = w.P.hi(args[0].lin)
        lo = w.P.lo(args[0].lin)
        if hi is None or lo is None or lo < 0:
            return None
        rlo = 64 - hi.bit_length()
        rhi = 64 - lo.bit_length()
        t = w.fresh("call", callee.name, (rlo, rhi))
        return Num(Lin.term(t), ty=callee.rtype)
    return sm


# ---------------------------------------------------------------------------
# join / indep / bits / hll-range on _add and _merge
# ---------------------------------------------------------------------------

def rule_join(ctx):
    F = facts_of(ctx)
    ks = hll_kernels(F)
    nlzf = nlz_function(F)
    for role in ("add", "merge"):
        k = ks[role]
        reg = F.param_for(k, "registers")
        if reg is None:
            ctx.ob("join", k, k.node, k.name, "kernel receives the registers", None)
            continue
        w = F.walk(k, summaries=SUMMARIES)
        stores = [e for e in w.events if e.kind == "store" and e.arr.name == reg]
        if not stores:
            ctx.ob("join", k, k.node, "%s: no register store" % k.name, "the kernel updates the registers", False, "registers are never written")
        for g in group_by_node(stores):
            res = []
            for e in g:
                v = e.value
                if not isinstance(v, Num) or e.old is None:
                    res.append((None, "store not understood"))
                    continue
                old = Lin.term(e.old)
                t = v.lin.single_term()
                if t is not None and t in w.P.minmax and w.P.minmax[t][0] == "max":
                    _, a, b = w.P.minmax[t]
                    okk = a == old or b == old
                    res.append((okk, "R[i] = max(R[i], e)" if okk else "max() does not include the register's old value", fact_strs(e)))
                    continue
                # guarded form: if e > R[i]: R[i] = e
                p = w.P.prove_le0(old - v.lin, e.facts)
                if not p:
                    res.append((False, "the stored value %s can be below the old register %s" % (show_lin(v.lin), show_lin(old)), fact_strs(e)))
                    continue
                # on the complementary path the candidate must be <= old: negate the innermost decision
                if not e.path:
                    res.append((False, "unconditional overwrite of a register (not a join unless value >= old is provable: it is, but the other "
                                       "direction R[i] >= e on the skip path cannot hold without a guard)" , fact_strs(e)))
                    continue
                s_node, taken, cc = e.path[-1]
                br = [x for x in w.events if x.kind == "branch" and x.node is s_node and x.path == e.path[:-1]]
                if not br:
                    res.append((None, "guard not found"))
                    continue
                st = w.refine(br[0], [c_not(cc)])
                p2 = (not st.dead) and w.P.prove_le0(v.lin - old, st.facts)
                res.append((bool(p2) or st.dead, "guarded join: stored when e > R[i], skipped only when e <= R[i]" if (p2 or st.dead) else
                            "the register is left unchanged although the candidate may exceed it", fact_strs(e)))
            agg(ctx, "join", k, g[0].node, src(k, g[0].node), "register update is the join R[i] <- max(R[i], e)", res)
        if role == "add":
            # every path through _add performs the join exactly once (no key is silently skipped)
            res = []
            cand = idxl = None
            for e in stores:
                t = e.value.lin.single_term() if isinstance(e.value, Num) else None
                if t is not None and t in w.P.minmax and e.old is not None:
                    _, a, b = w.P.minmax[t]
                    cand = b if a == Lin.term(e.old) else a
                    idxl = e.idx[0].lin
                elif isinstance(e.value, Num):
                    cand, idxl = e.value.lin, e.idx[0].lin
            for r in [e for e in w.events if e.kind == "ret"]:
                pre = on_path(w.events, r)
                n = len([x for x in pre if x in stores])
                if n == 0 and cand is not None:
                    # a skipped join is harmless only if the candidate provably does not exceed the register
                    rd = [x for x in pre if x.kind == "read" and x.arr.name == reg and x.idx[0].lin == idxl]
                    if any(w.P.prove_le0(cand - Lin.term(x.term), r.facts) for x in rd):
                        res.append((True, "join skipped only when rank <= register", fact_strs(r)))
                        continue
                res.append((n == 1, "one register join per add" if n == 1 else "%d register updates on a path through _add" % n, fact_strs(r)))
            agg(ctx, "join", k, k.node, "%s: every path joins once" % k.name, "each add performs exactly one register join, whatever the key", res)
        # merge: e is the other operand's register at the same index
        if role == "merge":
            oreg = None
            for p_, s_ in F.param_attr().get(k.key, {}).items():
                if "other.registers" in s_:
                    oreg = p_
            res = []
            for e in stores:
                t = e.value.lin.single_term() if isinstance(e.value, Num) else None
                okk = False
                if isinstance(e.value, Num) and e.old is not None and e.value.lin == Lin.term(e.old):
                    res.append((True, "the register keeps its own value on this path", fact_strs(e)))
                    continue
                if t is not None and t in w.P.minmax:
                    _, a, b = w.P.minmax[t]
                    oth = b if a == Lin.term(e.old) else a
                    ot = oth.single_term()
                    okk = ot is not None and ot[0] == "cell" and ot[1] == oreg and ot[3] == tuple(i.lin.key() for i in e.idx)
                elif isinstance(e.value, Num):
                    ot = e.value.lin.single_term()
                    okk = ot is not None and ot[0] == "cell" and ot[1] == oreg and ot[3] == tuple(i.lin.key() for i in e.idx)
                res.append((okk, "joined with the other sketch's register of the same index" if okk else
                            "the joined value is not other_registers[i] for the same i", fact_strs(e)))
            agg(ctx, "join", k, stores[0].node if stores else k.node, "%s: operand of the join" % k.name,
                "registers[i] is joined with other_registers[i]", res)
            # every iteration joins its register, or leaves it alone only when the other register provably does not exceed it
            loops_ = {}
            for e in stores:
                if e.loops:
                    loops_[id(e.loops[-1])] = e.loops[-1]
            res = []
            for le in [x for x in w.events if x.kind == "loopend" and id(x.loop) in loops_]:
                evs = [x for x in on_path(w.events, le) if x.loops and x.loops[-1] is le.loop]
                if any(x in stores for x in evs):
                    res.append((True, "register joined in this iteration", fact_strs(le)))
                    continue
                i = Lin.term(le.loop.varterm) if le.loop.varterm else None
                own = [x for x in evs if x.kind == "read" and x.arr.name == reg and len(x.idx) == 1 and i is not None and x.idx[0].lin == i]
                oth = [x for x in evs if x.kind == "read" and x.arr.name == oreg and len(x.idx) == 1 and i is not None and x.idx[0].lin == i]
                okk = any(w.P.prove_le0(Lin.term(o.term) - Lin.term(m_.term), le.facts) for o in oth for m_ in own)
                res.append((bool(okk), "skipped only when other_registers[i] <= registers[i]" if okk else
                            "an iteration leaves registers[i] unmerged although other_registers[i] may exceed it", fact_strs(le)))
            if loops_:
                agg(ctx, "join", k, next(iter(loops_.values())).node, "%s: every register is merged" % k.name,
                    "each iteration of the merge loop joins its register (or skips it only when nothing would change)", res)


def rule_indep(ctx):
    """Index and candidate rank of _add depend on (key, seed, p, m) only (value-dependency closure over the walker's terms)."""
    from .deps import Deps, PURE_CALLS
    F = facts_of(ctx)
    k = hll_kernels(F)["add"]
    reg = F.param_for(k, "registers")
    nlzf = nlz_function(F)
    allowed_params = {p for p in k.params if p != reg}
    allowed_calls = {"fasthash64", nlzf.name} | PURE_CALLS
    w = F.walk(k, summaries=SUMMARIES)
    D = Deps(w)
    stores = [e for e in w.events if e.kind in ("store", "slicestore") and e.arr.name == reg]
    for g in group_by_node(stores):
        res = []
        for e in g:
            if e.kind != "store" or not isinstance(e.value, Num):
                res.append((None, "register update not understood"))
                continue
            cand = e.value.lin
            t = cand.single_term()
            oldt = e.old
            if oldt is not None and cand == Lin.term(oldt):
                res.append((True, "the register keeps its own value on this path (no update)", fact_strs(e)))
                continue
            if t is not None and t[0] == "max" and oldt is not None:
                mm = w.P.minmax.get(t)
                if mm and mm[1] == Lin.term(oldt):
                    cand = mm[2]
                elif mm and mm[2] == Lin.term(oldt):
                    cand = mm[1]
            deps = set()
            for i in e.idx:
                deps |= D.of_lin(i.lin)
            deps |= D.of_lin(cand)
            arrays = sorted(x[1] for x in deps if x[0] == "array")
            calls = sorted(x[1] for x in deps if x[0] == "call" and x[1] not in allowed_calls)
            unknown = sorted(x[1] for x in deps if x[0] in ("unknown", "attr"))
            params = sorted(x[1] for x in deps if x[0] == "param" and x[1] not in allowed_params)
            why = ""
            if arrays:
                why = "depends on array contents `%s` (state-dependent update)" % arrays[0]
            elif calls:
                why = "depends on call(s) %s" % calls
            elif unknown:
                why = "depends on %s" % unknown
            elif params:
                why = "depends on %s" % params
            res.append((not why, why or "index and candidate depend on %s only" % sorted(x[1] for x in deps if x[0] == "param"), fact_strs(e)))
        agg(ctx, "indep", k, g[0].node, src(k, g[0].node), "register index and candidate rank are functions of (key, seed, p, m) only: no sketch state, "
            "no global, no impure call", res)
    if not stores:
        ctx.ob("indep", k, k.node, k.name, "the add kernel updates the registers", False, "no register store")


def _assigned(func):
    out = set()
    for n in walk_no_nested(func.node):
        if isinstance(n, ast.Name) and isinstance(n.ctx, ast.Store):
            out.add(n.id)
    return out


def rule_bits(ctx):
    """For every accepted precision: index = low p bits of the hash (in bounds), rank = nlz(hash >> p) - p + 1, no wrap."""
    F = facts_of(ctx)
    k = hll_kernels(F)["add"]
    reg = F.param_for(k, "registers")
    pp, mp, sp = F.param_for(k, "p"), F.param_for(k, "m"), F.param_for(k, "seed")
    nlzf = nlz_function(F)
    if not (reg and pp and mp):
        ctx.ob("bits", k, k.node, k.name, "kernel receives registers, p and m", None)
        return
    for p in range(P_MIN, P_MAX + 1):
        sm = dict(SUMMARIES)
        sm[nlzf.name] = nlz_summary_for(p)
        w = Walker(F.model, k, consts={pp: p, mp: 1 << p}, effects=F.effects, summaries=sm, no_inline=frozenset(F.units()))
        w.run()
        ctx.analysed_funcs.add(k.key)
        stores = [e for e in w.events if e.kind == "store" and e.arr.name == reg
                  and not (isinstance(e.value, Num) and e.old is not None and e.value.lin == Lin.term(e.old))]      # identity stores are no updates
        hcalls = [e for e in w.events if e.kind == "call" and e.name == "fasthash64"]
        ncalls = [e for e in w.events if e.kind == "call" and e.name == nlzf.name]
        for e in stores:
            cons = "p=%d: %s" % (p, src(k, e.node, 70))
            # hash of (key, seed)
            okh = len(hcalls) == 1 and len(hcalls[0].args) == 2 and isinstance(hcalls[0].args[0], Bytes) and hcalls[0].args[0].stop is None \
                and hcalls[0].args[0].start == Lin.const(0) and isinstance(hcalls[0].args[1], Num) and hcalls[0].args[1].lin == Lin.term(("param", sp))
            ctx.ob("bits", k, e.node, cons, "the hash is fasthash64(whole key, seed)", bool(okh))
            if not okh:
                continue
            hk = hcalls[0].result.lin.key()
            idx = e.idx[0].lin.single_term() if len(e.idx) == 1 else None
            oki = idx is not None and idx[0] == "op" and (
                (idx[1] == "BitAnd" and {idx[2], idx[3]} == {hk, Lin.const((1 << p) - 1).key()}) or
                (idx[1] == "Mod" and idx[2] == hk and idx[3] == Lin.const(1 << p).key()))
            ctx.ob("bits", k, e.node, cons, "register index == low %d bits of the hash (hash & (m-1))" % p, bool(oki),
                   "" if oki else "index term is %s" % (idx,))
            pr = w.P.prove_le0(e.idx[0].lin - ((1 << p) - 1), e.facts) and w.P.prove_le0(-e.idx[0].lin, e.facts)
            ctx.ob("bits", k, e.node, cons, "register index is within [0, m-1] (Numba does not bounds-check)", bool(pr))
            # rank = nlz(hash >> p) - p + 1
            okr = False
            why = "no leading-zero call"
            if len(ncalls) == 1 and isinstance(ncalls[0].args[0], Num):
                bt = ncalls[0].args[0].lin.single_term()
                okb = bt is not None and bt[0] == "op" and bt[1] == "RShift" and bt[2] == hk and bt[3] == Lin.const(p).key()
                v = e.value
                t = v.lin.single_term() if isinstance(v, Num) else None
                cand = None
                if t is not None and t in w.P.minmax:
                    _, a, b = w.P.minmax[t]
                    cand = b if a == Lin.term(e.old) else a
                elif isinstance(v, Num):
                    cand = v.lin
                okf = cand is not None and cand == ncalls[0].result.lin - p + 1
                okr = okb and okf
                why = "" if okr else ("leading zeros are not counted on hash >> p" if not okb else
                                      "candidate rank %s is not nlz(hash >> p) - p + 1" % (show_lin(cand) if cand is not None else None))
            ctx.ob("bits", k, e.node, cons, "candidate rank == leading_zeros(hash >> p) - p + 1 (the remaining 64-p bits)", bool(okr), why)
            # no wrap: unsigned subtraction nlz - p >= 0 and stored value fits uint8
            subs = [s for s in w.events if s.kind == "sub" and any(t[0] == "call" and t[1] == nlzf.name for t in s.a.lin.terms())]
            for s in subs:
                pr = w.P.prove_le0(s.b.lin - s.a.lin, s.facts)
                ctx.ob("hll-range", k, s.node, "p=%d: %s" % (p, src(k, s.node, 60)), "unsigned subtraction does not wrap (leading zeros of a (64-p)-bit value >= p)", bool(pr),
                       "" if pr else "cannot prove %s >= %s" % (show_lin(s.a.lin), show_lin(s.b.lin)), proof=pr)
            if isinstance(e.value, Num):
                lo, hi = e.arr.ety.range()
                pr = w.P.prove_le0(e.value.lin - hi, e.facts) and w.P.prove_le0(Lin.const(lo) - e.value.lin, e.facts)
                ctx.ob("hll-range", k, e.node, cons, "stored rank fits the uint8 register", bool(pr))


def rule_hll_ignore_mult(ctx):
    F = facts_of(ctx)
    cls = ctx.model.cls(*HLL)
    upd = cls.methods.get("update")
    add = cls.methods.get("add")
    k = hll_kernels(F)["add"]
    for c in F.calls_from(add):
        if c.callee is k:
            used = {n.id for a in c.node.args for n in ast.walk(a) if isinstance(n, ast.Name)}
            ctx.ob("ignore-mult", add, c.node, "HyperLogLog.add -> %s" % k.name, "the multiplicity argument does not reach the kernel", "value" not in used)
    # update: every self.add call passes exactly one argument (the key)
    calls = [n for n in walk_no_nested(upd.node) if isinstance(n, ast.Call) and dotted(n.func) == "self.add"]
    okk = bool(calls) and all(len(c.args) == 1 and not c.keywords for c in calls)
    ctx.ob("ignore-mult", upd, calls[0] if calls else upd.node, "HyperLogLog.update -> self.add(key)", "update passes keys only (dict values unused)", okk)


# ---------------------------------------------------------------------------
# C17
# ---------------------------------------------------------------------------

def _strip(e):
    """Strip float casts."""
    while isinstance(e, ast.Call) and len(e.args) == 1 and not e.keywords and (dotted(e.func) or "").split(".")[-1] in ("float64", "float", "float32"):
        e = e.args[0]
    return e


def nf(e):
    """Normal form of an arithmetic expression tree: casts stripped, commutative operands sorted, constants as floats."""
    e = _strip(e)
    if isinstance(e, ast.Constant) and isinstance(e.value, (int, float)):
        return ("c", float(e.value))
    if isinstance(e, ast.Name):
        return ("n", e.id)
    if isinstance(e, ast.Attribute):
        return ("n", dotted(e))
    if isinstance(e, ast.UnaryOp) and isinstance(e.op, ast.USub):
        return ("neg", nf(e.operand))
    if isinstance(e, ast.BinOp):
        a, b = nf(e.left), nf(e.right)
        if isinstance(e.op, ast.Mult):
            fs = []
            for x in (a, b):
                fs.extend(x[1] if x[0] == "mul" else [x])
            return ("mul", tuple(sorted(fs, key=repr)))
        if isinstance(e.op, ast.Add):
            fs = []
            for x in (a, b):
                fs.extend(x[1] if x[0] == "add" else [x])
            return ("add", tuple(sorted(fs, key=repr)))
        if isinstance(e.op, ast.Pow) and b == ("c", 2.0):
            return ("mul", tuple(sorted([a, a], key=repr)))
        return (type(e.op).__name__, a, b)
    if isinstance(e, ast.Call):
        d = (dotted(e.func) or "?").split(".")[-1]
        return ("call", d, tuple(nf(a) for a in e.args))
    return ("?", unparse(e))


def parse_nf(s):
    return nf(ast.parse(s, mode="eval").body)


def _single_return(func):
    rets = [n for n in walk_no_nested(func.node) if isinstance(n, ast.Return)]
    return rets[0] if len(rets) == 1 else None


def hll_query_helpers(F):
    """(linear counting, raw estimate) helpers of the query kernel: LC takes scalars only, EST takes the uint8 registers.  Both are
    registered as units (their calls stay opaque); any other helper of the query kernel is walked inline."""
    q = hll_kernels(F)["query"]
    # every kernel the query kernel reaches (the estimator may be split into private helpers that are walked inline)
    callees, todo = {}, [q]
    while todo:
        cur = todo.pop()
        for c in F.calls_from(cur):
            if c.callee.is_kernel and c.callee.name not in callees and c.callee is not q:
                callees[c.callee.name] = c.callee
                todo.append(c.callee)
    takes_regs = lambda f: any(t is not None and t.is_array and t.kind == "uint" and t.bits == 8 for t in f.ptypes.values())
    lc = est = None
    for name, f in callees.items():
        tys = list(f.ptypes.values())
        if takes_regs(f):
            # the raw estimate is the one that reads the registers itself, not a helper that only hands them on
            if any(c.callee.is_kernel and takes_regs(c.callee) for c in F.calls_from(f)):
                continue
            est = f if est is None else est
        elif not any(t is not None and t.is_array for t in tys) and len(f.params) == 2 and \
                any(isinstance(n, ast.Call) and (dotted(n.func) or "").split(".")[-1] == "log" for n in ast.walk(f.node)):
            lc = f if lc is None else lc
    if lc is None or est is None:
        raise AnalysisError("%s: linear-counting / estimation helpers not identified" % q.key)
    # the harmonic sum may live in a helper of its own (`_estimation_function` = alpha * m^2 / _inverse_power_sum(registers)): the
    # estimator is then the three-parameter kernel that calls it, the sum helper is remembered on the side (rule forms)
    F.hll_sum_helper = est
    if len(est.params) == 1:
        tops = [f for f in callees.values() if len(f.params) >= 3 and any(cc.callee is est for cc in F.calls_from(f))]
        if len(tops) == 1:
            est = tops[0]
    F.extra_units.update([lc.name, est.name])
    return q, lc, est


def _hll_units(F):
    q, lc, est = hll_query_helpers(F)
    return {lc.name, est.name, nlz_function(F).name}


from .facts import UNIT_RESOLVERS
UNIT_RESOLVERS.append(_hll_units)


def rule_forms(ctx):
    F = facts_of(ctx)
    q, lc, est = hll_query_helpers(F)
    w = F.walk(q, summaries=SUMMARIES)
    ctx.analysed_funcs.update([lc.key, est.key])
    # LC: m * log(m / n_zero)
    r = _single_return(lc)
    if len(lc.params) < 2:
        raise AnalysisError("%s: linear counting does not take (m, n_zero): shape not understood" % lc.key)
    m_, z_ = lc.params[0], lc.params[1]
    want = parse_nf("%s * log(%s / %s)" % (m_, m_, z_))
    okk = r is not None and nf(resolve_temps(lc.node, r.value)) == want
    ctx.ob("forms", lc, r or lc.node, "%s: return %s" % (lc.name, unparse(r.value) if r else "?"), "linear counting is m * ln(m / V)", okk,
           "" if okk else "normal form differs from m*log(m/n_zero)")
    # call site passes (m, n_zero)
    for c in [e for e in w.events if e.kind == "call" and e.callee is lc]:
        mm = F.param_for(q, "m")
        a = c.args
        okk = len(a) == 2 and isinstance(a[0], Num) and a[0].lin == Lin.term(("param", mm)) and isinstance(a[1], Num) and _is_nzero(w, a[1], mm)
        ctx.ob("forms", q, c.node, "%s(m, n_zero)" % lc.name, "linear counting receives (m, number of zero registers)", bool(okk))
    # EST: alpha * m^2 / sum(2^-r)
    # `top` is the three-parameter kernel the query calls, `est` the kernel that owns the loop of the harmonic sum (the same one
    # unless the sum was extracted into a helper of its own)
    top = est
    est = getattr(F, "hll_sum_helper", est)
    if len(top.params) < 3 or (top is not est and len(est.params) != 1):
        raise AnalysisError("%s: the estimator helpers do not take (registers, m, alpha): shape not understood" % top.key)
    if len(lc.params) < 2:
        raise AnalysisError("%s: linear counting does not take (m, n_zero): shape not understood" % lc.key)
    regs = est.params[0]
    mpar, apar = (top.params[1], top.params[2])
    r = _single_return(est)
    acc = None
    okloop = False
    for n in walk_no_nested(est.node):
        if isinstance(n, ast.For):
            body = [s for s in n.body if not (isinstance(s, ast.Expr) and isinstance(s.value, ast.Constant))]
            if len(body) != 1 or not isinstance(n.target, ast.Name):
                continue
            b0 = body[0]
            # acc += term | acc = acc + term | acc = term + acc
            term = None
            if isinstance(b0, ast.AugAssign) and isinstance(b0.op, ast.Add) and isinstance(b0.target, ast.Name):
                acc, term = b0.target.id, b0.value
            elif isinstance(b0, ast.Assign) and len(b0.targets) == 1 and isinstance(b0.targets[0], ast.Name) and isinstance(b0.value, ast.BinOp) \
                    and isinstance(b0.value.op, ast.Add):
                a_ = b0.targets[0].id
                if isinstance(b0.value.left, ast.Name) and b0.value.left.id == a_:
                    acc, term = a_, b0.value.right
                elif isinstance(b0.value.right, ast.Name) and b0.value.right.id == a_:
                    acc, term = a_, b0.value.left
            if term is None:
                continue
            it = n.iter
            if isinstance(it, ast.Name) and it.id == regs:
                okloop = nf(term) == parse_nf("2.0 ** (-%s)" % n.target.id)
            elif isinstance(it, ast.Call) and dotted(it.func) == "range" and len(it.args) == 1 and \
                    unparse(it.args[0]) in ((mpar,) if top is est else ()) + ("len(%s)" % regs, "%s.shape[0]" % regs, "%s.size" % regs):
                # range(m): m is the number of registers (bind rule); range(len(registers)) is every register by construction
                okloop = nf(term) == parse_nf("2.0 ** (-%s[%s])" % (regs, n.target.id))
    if not okloop:
        # the same loop written with an explicit counter: `i = 0; while i < n: acc = acc + 2.0 ** (-float64(regs[i])); i += 1`
        for n in walk_no_nested(est.node):
            if not (isinstance(n, ast.While) and isinstance(n.test, ast.Compare) and len(n.test.ops) == 1 and isinstance(n.test.ops[0], ast.Lt)
                    and isinstance(n.test.left, ast.Name) and not n.orelse):
                continue
            iv = n.test.left.id
            body = [s_ for s_ in n.body if not (isinstance(s_, ast.Expr) and isinstance(s_.value, ast.Constant))]
            if len(body) != 2:
                continue
            upd, inc = body
            inc_ok = (isinstance(inc, ast.AugAssign) and isinstance(inc.op, ast.Add) and isinstance(inc.target, ast.Name) and inc.target.id == iv
                      and const_int(inc.value) == 1) or \
                     (isinstance(inc, ast.Assign) and isinstance(inc.targets[0], ast.Name) and inc.targets[0].id == iv and isinstance(inc.value, ast.BinOp)
                      and isinstance(inc.value.op, ast.Add) and {unparse(inc.value.left), unparse(inc.value.right)} & {iv}
                      and 1 in (const_int(inc.value.left), const_int(inc.value.right)))
            starts = [a_ for a_ in walk_no_nested(est.node) if isinstance(a_, ast.Assign) and isinstance(a_.targets[0], ast.Name) and a_.targets[0].id == iv
                      and a_ is not inc]
            start_ok = len(starts) == 1 and const_int(starts[0].value) == 0
            bound_ok = unparse(resolve_temps(est.node, n.test.comparators[0], allow_subscript=True, pure_only=False, in_loops=False, loose=True)) in \
                ((mpar,) if top is est else ()) + ("len(%s)" % regs, "%s.shape[0]" % regs, "%s.size" % regs)
            term = None
            if isinstance(upd, ast.AugAssign) and isinstance(upd.op, ast.Add) and isinstance(upd.target, ast.Name):
                acc, term = upd.target.id, upd.value
            elif isinstance(upd, ast.Assign) and isinstance(upd.targets[0], ast.Name) and isinstance(upd.value, ast.BinOp) and isinstance(upd.value.op, ast.Add):
                a_ = upd.targets[0].id
                if isinstance(upd.value.left, ast.Name) and upd.value.left.id == a_:
                    acc, term = a_, upd.value.right
                elif isinstance(upd.value.right, ast.Name) and upd.value.right.id == a_:
                    acc, term = a_, upd.value.left
            if term is not None and inc_ok and start_ok and bound_ok:
                okloop = nf(term) == parse_nf("2.0 ** (-%s[%s])" % (regs, iv))
    ctx.ob("forms", est, est.node, "%s: for r in registers: total += 2**-r" % est.name, "the harmonic sum runs over every register with terms 2^-r", okloop)
    init_ok = False
    for n in walk_no_nested(est.node):
        if isinstance(n, ast.Assign) and isinstance(n.targets[0], ast.Name) and n.targets[0].id == acc and not \
                (isinstance(n.value, ast.BinOp) and any(isinstance(x, ast.Name) and x.id == acc for x in ast.walk(n.value))):
            init_ok = nf(n.value) == ("c", 0.0)
    ctx.ob("forms", est, est.node, "%s: total = 0" % est.name, "the harmonic sum starts at zero", init_ok)
    want = parse_nf("%s * %s * %s / %s" % (apar, mpar, mpar, acc or "total"))
    if top is not est:
        # the sum helper returns its accumulator; the top kernel divides alpha * m^2 by that call on its own registers parameter
        ok_sum = r is not None and isinstance(r.value, ast.Name) and r.value.id == acc
        ctx.ob("forms", est, r or est.node, "%s: return %s" % (est.name, unparse(r.value) if r else "?"), "the sum helper returns the harmonic sum", bool(ok_sum))
        r = _single_return(top)
        ctx.analysed_funcs.add(top.key)
        got = None
        if r is not None:
            import copy as _copy
            e_ = resolve_temps(top.node, r.value)

            class _Hole(ast.NodeTransformer):
                def visit_Call(self, c):
                    self.generic_visit(c)
                    if isinstance(c.func, ast.Name) and c.func.id == est.name and len(c.args) == 1 and isinstance(c.args[0], ast.Name) \
                            and c.args[0].id == top.params[0] and not c.keywords:
                        return ast.copy_location(ast.Name(id=acc or "total", ctx=ast.Load()), c)
                    return c
            got = nf(_Hole().visit(_copy.deepcopy(e_)))
    else:
        got = nf(resolve_temps(est.node, r.value)) if r is not None else None
    # accept alpha*(m*m)/total with either association of the division
    alt = parse_nf("%s * (%s * %s) / %s" % (apar, mpar, mpar, acc or "total"))
    okk = got is not None and (got == want or got == alt or _div_nf(got) == _div_nf(want))
    ctx.ob("forms", top, r or top.node, "%s: return %s" % (top.name, unparse(r.value) if r else "?"), "raw estimate is alpha * m^2 / sum(2^-r)", bool(okk))
    for c in [e for e in w.events if e.kind == "call" and e.callee is top]:
        a = c.args
        okk = len(a) == 3 and isinstance(a[0], Arr) and a[0].name == F.param_for(q, "registers") and isinstance(a[1], Num) \
            and a[1].lin == Lin.term(("param", F.param_for(q, "m"))) and isinstance(a[2], Num) and a[2].lin == Lin.term(("param", F.param_for(q, "alpha")))
        ctx.ob("forms", q, c.node, "%s(registers, m, alpha)" % top.name, "the raw estimate receives (registers, m, alpha)", bool(okk))
    return lc, top


def _div_nf(t):
    """(numerator factors, denominator) for a product/division tree."""
    if t[0] == "Div":
        n, d = _div_nf(t[1])
        return (n, tuple(sorted(d + (t[2],), key=repr)))
    if t[0] == "mul":
        nums, dens = [], []
        for f in t[1]:
            n, d = _div_nf(f)
            nums.extend(n)
            dens.extend(d)
        return (tuple(sorted(nums, key=repr)), tuple(sorted(dens, key=repr)))
    return ((t,), ())


def _is_nzero(w, v, mm):
    """v == m - count_nonzero(registers)."""
    lin = v.lin
    rest = lin - Lin.term(("param", mm))
    ts = list(rest.c.items())
    return len(ts) == 1 and ts[0][1] == -1 and rest.k == 0 and ts[0][0][0] in ("icall", "cast")


def rule_qtree(ctx):
    F = facts_of(ctx)
    q = hll_kernels(F)["query"]
    lc, est = rule_forms(ctx)
    w = F.walk(q, summaries=SUMMARIES)
    mm, thr = F.param_for(q, "m"), F.param_for(q, "threshold")
    raw, bias = F.param_for(q, "raw_estimate"), F.param_for(q, "bias_data")
    if not all((mm, thr, raw, bias)):
        ctx.ob("qtree", q, q.node, q.name, "kernel receives m, threshold, raw_estimate, bias_data", None)
        return
    M, T = Lin.term(("param", mm)), Lin.term(("param", thr))
    rets = [e for e in w.events if e.kind == "ret" and not e.implicit]
    seen = set()
    for r in rets:
        pre = on_path(w.events, r)
        lcc = [c for c in pre if c.kind == "call" and c.callee is lc]
        esc = [c for c in pre if c.kind == "call" and c.callee is est]
        itp = [c for c in pre if c.kind == "call" and c.name in ("np.interp", "numpy.interp")]
        v = r.value
        if not isinstance(v, Num):
            ctx.ob("qtree", q, r.node, "return", "leaf value readable", None)
            continue
        LC = lcc[-1].result.lin if lcc else None
        EST = esc[-1].result.lin if esc else None
        # n_zero
        nz = lcc[-1].args[1].lin if lcc else None
        if nz is None:
            # find from the first branch condition
            for (s_node, taken, cc) in r.path:
                for c in conjuncts(cc):
                    if c[0] in ("le", "ne", "eq") and any(t[0] in ("icall", "cast") for t in c[1].terms()):
                        l = c[1]
                        nz = M - Lin.term([t for t in l.terms() if t[0] in ("icall", "cast")][0])
        conds = [cc for (_, _, cc) in r.path]
        leaf = None
        if LC is not None and v.lin == LC:
            leaf = "LC"
            okk = _has(conds, "pos", nz) and _has(conds, "le", LC - T)
            goal = "some register zero and LC <= threshold  =>  linear counting"
        elif EST is not None and itp and isinstance(itp[-1].result, Num) and v.lin == EST - itp[-1].result.lin:
            a = itp[-1].args
            argok = len(a) == 3 and isinstance(a[0], Num) and a[0].lin == EST and isinstance(a[1], Arr) and a[1].name == raw \
                and isinstance(a[2], Arr) and a[2].name == bias
            if _has(conds, "pos", nz):
                leaf = "EST-bias (zero registers, LC above threshold)"
                okk = argok and LC is not None and _has(conds, "lt", T - LC)
                goal = "some register zero and LC > threshold  =>  raw estimate minus interp(raw estimate; raw_estimate, bias_data)"
            else:
                leaf = "EST-bias (no zero register, estimate <= 5m)"
                okk = argok and _has(conds, "zero", nz) and _has(conds, "le", EST - M.scale(5))
                goal = "no register zero and raw estimate <= 5m  =>  raw estimate minus interpolated bias"
        elif EST is not None and v.lin == EST:
            leaf = "EST"
            okk = _has(conds, "zero", nz) and _has(conds, "lt", M.scale(5) - EST)
            goal = "no register zero and raw estimate > 5m  =>  raw estimate"
        else:
            ctx.ob("qtree", q, r.node, "return %s" % show_lin(v.lin), "leaf is LC, EST - bias or EST", False, "unrecognised estimator leaf")
            continue
        seen.add(leaf)
        ctx.ob("qtree", q, r.node, "leaf %s" % leaf, goal, bool(okk),
               "" if okk else "path condition is %s" % " and ".join(show_cond(c) for c in conds))
    want = {"LC", "EST-bias (zero registers, LC above threshold)", "EST-bias (no zero register, estimate <= 5m)", "EST"}
    ctx.ob("qtree", q, q.node, "%s: %d/4 regimes" % (q.name, len(seen & want)), "all four regimes of HyperLogLog++ are present", seen >= want,
           "" if seen >= want else "missing %s" % sorted(want - seen))
    # n_zero definition
    for c in [e for e in w.events if e.kind == "call" and e.name in ("np.count_nonzero", "numpy.count_nonzero")]:
        okk = len(c.args) == 1 and isinstance(c.args[0], Arr) and c.args[0].name == F.param_for(q, "registers")
        ctx.ob("qtree", q, c.node, "np.count_nonzero(registers)", "V = m - (number of non-zero registers)", okk)


def _has(conds, kind, lin):
    """Does the path contain a decision equivalent to: pos: lin>=1 | zero: lin<=0 | le: lin<=0 | lt: lin<0 ?"""
    if lin is None:
        return False
    # conjuncts of the path; a disjunction all but one of whose alternatives contradict another conjunct (`n == 0 and (n != 0 or E <= 5m)`,
    # the negation of a two-flag test) counts as its one remaining alternative
    flat = [c for cc in conds for c in conjuncts(cc)]
    atoms = [c for c in flat if c[0] in ("eq", "ne", "le")]

    def contradicted(d):
        if d[0] == "ne":
            return any(a[0] == "eq" and (a[1] == d[1] or a[1] == -d[1]) for a in atoms)
        if d[0] == "eq":
            return any(a[0] == "ne" and (a[1] == d[1] or a[1] == -d[1]) for a in atoms)
        if d[0] == "le":
            # L <= 0 and M <= 0 with L + M a positive constant cannot both hold (`n <= 0` against `1 - n <= 0`)
            for a in atoms:
                if a[0] == "le":
                    sm = a[1] + d[1]
                    if sm.is_const() and sm.k > 0:
                        return True
                if a[0] == "eq":
                    for sgn in (a[1], -a[1]):
                        sm = sgn + d[1]
                        if sm.is_const() and sm.k > 0:
                            return True
        return False
    extra = []
    for c in flat:
        if c[0] == "or":
            alive = [d for d in c[1] if not contradicted(d)]
            if len(alive) == 1:
                extra.extend(conjuncts(alive[0]))
    for cc in [flat + extra]:
        for c in cc:
            k, l = c[0], c[1] if len(c) > 1 else None
            if kind == "pos":
                if (k == "le" and l == -lin + 1) or (k == "ne" and (l == lin or l == -lin)) or (k == "flt" and l == -lin):
                    return True
            elif kind == "zero":
                if (k == "le" and l == lin) or (k == "eq" and (l == lin or l == -lin)):
                    return True
            elif kind == "le":
                if k == "le" and l == lin:
                    return True
            elif kind == "lt":
                if (k == "flt" and l == lin) or (k == "le" and l == lin + 1 and not c[2]):
                    return True
    return False


def rule_alpha(ctx):
    F = facts_of(ctx)
    cls = ctx.model.cls(*HLL)
    ctor = F.ctor(cls)
    found = False
    for n in walk_no_nested(ctor.node):
        if isinstance(n, ast.Assign) and self_attr(n.targets[0]) == "alpha":
            found = True
            want = parse_nf("0.7213 / (1.0 + 1.079 / self.m)")
            okk = nf(n.value) == want
            ctx.ob("alpha", ctor, n, "self.alpha = %s" % unparse(n.value, 70), "alpha_m = 0.7213 / (1 + 1.079 / m)", okk,
                   "" if okk else "constants or shape differ from the published formula")
    if not found:
        ctx.ob("alpha", ctor, ctor.node, "self.alpha", "alpha is set by the constructor", None)


def rule_tabidx(ctx):
    F = facts_of(ctx)
    cls = ctx.model.cls(*HLL)
    ctor = F.ctor(cls)
    imp = cls.module.imports
    want = {"threshold": "sub_algorithm_threshold", "bias_data": "bias_data", "raw_estimate": "raw_estimate"}
    for n in walk_no_nested(ctor.node):
        if isinstance(n, ast.Assign) and self_attr(n.targets[0]) in want:
            a = self_attr(n.targets[0])
            v = resolve_temps(ctor.node, n.value, allow_subscript=True, pure_only=False, in_loops=False, loose=True)
            okk = False
            why = "not a table subscript"
            if isinstance(v, ast.Subscript) and isinstance(v.value, ast.Name):
                tab = v.value.id
                src_tab = imp.get(tab, (None, tab))[1]
                sl = v.slice
                first = sl.elts[0] if isinstance(sl, ast.Tuple) else sl
                rest_ok = not isinstance(sl, ast.Tuple) or all(isinstance(x, ast.Slice) and x.lower is None and x.upper is None for x in sl.elts[1:])
                idx_ok = nf(first) == parse_nf("int(self.p) - 7") or nf(first) == parse_nf("self.p - 7") or _idx_p_minus(first, P_MIN)
                okk = src_tab == want[a] and idx_ok and rest_ok and imp.get(tab, ("",))[0].endswith("hll_constants")
                why = "" if okk else ("table is %s" % src_tab if src_tab != want[a] else "row index is `%s`, expected p - %d" % (unparse(first), P_MIN))
            ctx.ob("tabidx", ctor, n, "self.%s = %s" % (a, unparse(v)), "`%s` is row p-7 of %s" % (a, want[a]), okk, why)
    got = {self_attr(n.targets[0]) for n in walk_no_nested(ctor.node) if isinstance(n, ast.Assign)}
    for a in want:
        if a not in got:
            ctx.ob("tabidx", ctor, ctor.node, "self.%s" % a, "table row selected in the constructor", None, "not assigned")


_INT_CASTS = ("int", "uint8", "uint16", "uint32", "uint64", "int8", "int16", "int32", "int64")


def _uncast_int(e):
    # int(...) / np.uint64(...) around an integer-valued operand change its type, not its value (p and 7 fit every one of these types)
    while isinstance(e, ast.Call) and len(e.args) == 1 and not e.keywords and (dotted(e.func) or "").split(".")[-1] in _INT_CASTS \
            and (dotted(e.func) or "").split(".")[0] in ("np", "numpy") + _INT_CASTS:
        e = e.args[0]
    return e


def _idx_p_minus(node, c):
    t = nf(node)
    if t == ("Sub", ("call", "int", (("n", "self.p"),)), ("c", float(c))) or t == ("Sub", ("n", "self.p"), ("c", float(c))):
        return True
    if isinstance(node, ast.BinOp) and isinstance(node.op, ast.Sub):
        l, r = _uncast_int(node.left), _uncast_int(node.right)
        return dotted(l) == "self.p" and isinstance(r, ast.Constant) and isinstance(r.value, int) and not isinstance(r.value, bool) and r.value == c
    return False


def load_tables(ctx):
    mod = ctx.model.module("hll_constants")
    out = {}
    for name, v in mod.globals.items():
        if isinstance(v, ast.Call) and dotted(v.func) in ("np.array", "numpy.array") and v.args:
            try:
                out[name] = ast.literal_eval(v.args[0])
            except Exception as e:
                raise AnalysisError("hll_constants.%s is not a literal table: %s" % (name, e))
    return out


def rule_tables(ctx):
    tabs = ctx.shared("hll-tables", lambda: load_tables(ctx))
    f = ("sketchnu/hll_constants.py", "<module>")
    need = ("sub_algorithm_threshold", "raw_estimate", "bias_data")
    for n in need:
        if n not in tabs:
            raise AnalysisError("hll_constants.%s not found" % n)
    thr, raw, bias = (tabs[n] for n in need)
    nrows = P_MAX - P_MIN + 1
    ctx.ob("tables", f, 1, "sub_algorithm_threshold has %d entries" % len(thr), "one threshold per accepted precision (%d)" % nrows, len(thr) == nrows)
    ctx.ob("tables", f, 1, "raw_estimate has %d rows" % len(raw), "one raw-estimate row per accepted precision", len(raw) == nrows)
    ctx.ob("tables", f, 1, "bias_data has %d rows" % len(bias), "one bias row per accepted precision", len(bias) == nrows)
    # the numeric content equals the published tables (digests pinned in sa/hll_published.json; layout, comments and number spelling
    # are irrelevant, any changed value is a different estimator)
    import hashlib
    import json
    import os
    with open(os.path.join(os.path.dirname(os.path.abspath(__file__)), "hll_published.json")) as fh:
        pub = json.load(fh)

    def dig(row):
        return hashlib.sha256(",".join(repr(float(x)) for x in row).encode()).hexdigest()[:24]
    ctx.ob("tables", f, 1, "sub_algorithm_threshold values", "the linear-counting thresholds are the published ones", dig(thr) == pub["sub_algorithm_threshold"],
           "" if dig(thr) == pub["sub_algorithm_threshold"] else "the threshold table differs from the published values")
    for name, tab in (("raw_estimate", raw), ("bias_data", bias)):
        for i, row in enumerate(tab[:nrows]):
            okk = i < len(pub[name]) and dig(row) == pub[name][i]
            ctx.ob("tables", f, 1, "%s row p=%d values" % (name, P_MIN + i), "the %s row is the published one" % name, okk,
                   "" if okk else "%s[p=%d] differs from the published table: the bias correction interpolates other values" % (name, P_MIN + i))
    for i in range(min(len(raw), len(bias), len(thr), nrows)):
        p = P_MIN + i
        r, b = raw[i], bias[i]
        ctx.ob("tables", f, 1, "p=%d: len(raw)=%d len(bias)=%d" % (p, len(r), len(b)), "raw-estimate and bias rows have equal length", len(r) == len(b) and len(r) > 1)
        inc = all(r[j] < r[j + 1] for j in range(len(r) - 1))
        bad = next((j for j in range(len(r) - 1) if not r[j] < r[j + 1]), None)
        ctx.ob("tables", f, 1, "p=%d: raw_estimate row strictly increasing" % p, "np.interp needs strictly increasing sample points", inc,
               "" if inc else "entries %d, %d: %r >= %r" % (bad, bad + 1, r[bad], r[bad + 1]))
        if len(r) == len(b) and r:
            d0 = r[0] - b[0]
            ok0 = abs(d0 - thr[i]) <= 1e-6 * max(1.0, abs(thr[i]))
            ctx.ob("tables", f, 1, "p=%d: raw[0]-bias[0]=%.3f vs threshold %s" % (p, d0, thr[i]),
                   "the bias table begins where linear counting ends (first corrected value ~ threshold)", ok0)
            d1 = r[-1] - b[-1]
            ok1 = abs(d1 - 5 * 2 ** p) <= 1e-6 * 5 * 2 ** p
            ctx.ob("tables", f, 1, "p=%d: raw[-1]-bias[-1]=%.1f vs 5m=%d" % (p, d1, 5 * 2 ** p),
                   "the bias table ends at the correction limit 5m", ok1)
