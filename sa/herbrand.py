"""Herbrand-term (global value numbering) analysis of the hash kernels and comparison with the published
algorithms written in the same term language.  No solver, nothing executed: the kernels' ASTs are abstractly
interpreted over uninterpreted terms, every path separately, helpers inlined through their typed signatures
(a typed parameter/return truncates: `tr_W`), loops summarised as folds of their body's transfer term.

Normal form (all rewrites are identities of arithmetic modulo 2^W, so equal normal forms => equal functions):
  * ring part (+, -, *, << by a constant, constants) -> canonical polynomial over atoms with coefficients mod 2^W;
  * xor / and / or: flattened, sorted, x^x = 0, x^0 = x;
  * truncation pushed through ring/xor/and/or/shl, dropped where the operand is already narrow enough;
  * >> keeps the width at which its operand was truncated.
Unequal normal forms are reported as a difference from the published algorithm (laws outside this list, e.g. bit-level
identities between xor and +, are not applied: see DESIGN.md for the accepted-rewrites list).
"""
from __future__ import annotations

import ast

from .flow import cast_target
from .model import AnalysisError, dotted, unparse

# ---------------------------------------------------------------------------
# raw terms
# ---------------------------------------------------------------------------
# ('c', int) | ('leaf', name, width) | ('op', name, a, b) | ('tr', W, t) | ('shr', W, t, s)
# ('fold', step, init)  with placeholders ('acc',), ('elem', W)   | ('floordiv', t, c) | ('len',)

RING = {"Add": "add", "Sub": "sub", "Mult": "mul"}
BITS = {"BitXor": "xor", "BitAnd": "and", "BitOr": "or"}


def C(v):
    return ("c", int(v))


def leaf(name, w):
    return ("leaf", name, w)


def op(name, a, b):
    return ("op", name, a, b)


def tr(w, t):
    return ("tr", w, t)


def shr(w, t, s):
    return ("shr", w, t, s)


def width_of(t):
    """An upper bound on the bit width of the exact (untruncated, 64-bit arithmetic) value, or 64."""
    k = t[0]
    if k == "c":
        return max(1, t[1].bit_length()) if t[1] >= 0 else 64
    if k == "leaf":
        return t[2]
    if k == "tr":
        return min(t[1], width_of(t[2]))
    if k == "shr":
        return max(1, min(t[1] or 64, width_of(t[2])) - (t[3][1] if t[3][0] == "c" else 0))
    if k == "op" and t[1] in ("xor", "or"):
        return max(width_of(t[2]), width_of(t[3]))
    if k == "op" and t[1] == "and":
        return min(width_of(t[2]), width_of(t[3]))
    if k == "bit":
        ws = [width_of(x) for x in t[2]]
        return min(ws) if t[1] == "and" else max(ws)
    if k == "word":
        return 8 * (max(j for j, _ in t[1]) + 1)
    if k == "elem":
        return t[1]
    if k == "floordiv":
        c = t[2]
        return max(1, width_of(t[1]) - (c.bit_length() - 1)) if isinstance(c, int) and c > 0 else width_of(t[1])
    if k == "op" and t[1] == "mul":
        return min(64, width_of(t[2]) + width_of(t[3]))
    if k == "op" and t[1] == "add":
        return min(64, max(width_of(t[2]), width_of(t[3])) + 1)
    return 64


# ---------------------------------------------------------------------------
# normal form
# ---------------------------------------------------------------------------

def nf(t, W=64):
    """Canonical form of t modulo 2^W."""
    M = (1 << W) - 1
    k = t[0]
    if k == "c":
        return ("c", t[1] & M)
    if k == "leaf":
        return t if t[2] <= W else ("tr", W, t)
    if k in ("acc",):
        return t
    if k == "elem":
        return t if t[1] <= W else ("tr", W, t)
    if k == "tr":
        w = min(W, t[1])
        inner = nf(t[2], w)
        if w >= W or width_of(t[2]) <= w:
            # context is at least as narrow, or the value already fits: truncation is a no-op here
            return nf(t[2], W) if width_of(t[2]) <= w else inner
        return ("tr", w, inner) if not _is_narrow(inner, w) else inner
    if k == "shr":
        w, x, s = t[1], t[2], t[3]
        s = nf(s, 64)
        inner = nf(x, w)
        if s == ("c", 0):
            return nf(tr(w, x), W)
        wi = width_of(inner)
        if s[0] == "c" and s[1] >= min(w, wi):
            return ("c", 0)
        # canonical annotation: 0 when the operand already fits (no truncation happens before the shift)
        r = ("shr", 0 if wi <= w else w, inner, s)
        return r
    if k == "fold":
        return ("fold", nf(t[1], W), nf(t[2], W))
    if k == "floordiv":
        return ("floordiv", nf(t[1], 64), t[2])
    if k == "op":
        name = t[1]
        if name in ("add", "sub", "mul", "shl"):
            return poly_to_term(poly(t, W), W)
        if name in ("xor", "and", "or"):
            items = []
            _flat(name, t, items, W)
            return _bitop(name, items, W)
    raise AnalysisError("herbrand: term kind %r" % (k,))


def _is_narrow(t, w):
    return width_of(t) <= w


def _flat(name, t, out, W):
    if t[0] == "op" and t[1] == name:
        _flat(name, t[2], out, W)
        _flat(name, t[3], out, W)
    elif t[0] == "tr" and t[1] >= W:
        _flat(name, t[2], out, W)
    elif t[0] == "tr" and t[2][0] == "op" and t[2][1] == name:
        # tr distributes over bitwise ops
        items = []
        _flat(name, t[2], items, min(W, t[1]))
        for i in items:
            out.append(i)
    else:
        n = nf(t, W)
        if n[0] == "bit" and n[1] == name:
            out.extend(n[2])
        else:
            out.append(n)


def _bitop(name, items, W):
    M = (1 << W) - 1
    const = 0 if name in ("xor", "or") else M
    rest = []
    for i in items:
        if i[0] == "c":
            const = (const ^ i[1]) if name == "xor" else (const | i[1]) if name == "or" else (const & i[1])
        else:
            rest.append(i)
    rest.sort(key=repr)
    if name == "xor":
        # x ^ x = 0
        out = []
        for r in rest:
            if out and out[-1] == r:
                out.pop()
            else:
                out.append(r)
        rest = out
    else:
        ded = []
        for r in rest:
            if not ded or ded[-1] != r:
                ded.append(r)
        rest = ded
    if name in ("xor", "or"):
        rest = _merge_bytes(rest)
    const &= M
    ident = 0 if name in ("xor", "or") else M
    if name == "and" and const == 0:
        return ("c", 0)
    if const != ident:
        rest = [("c", const)] + rest
    if not rest:
        return ("c", ident & M)
    if len(rest) == 1:
        return rest[0]
    return ("bit", name, tuple(rest))


def _byte_placement(t):
    """(j, leaf) if t is an 8-bit leaf placed at byte j (leaf, or leaf * 2**(8j)); ('word', ...) atoms expand."""
    if t[0] == "leaf" and t[2] == 8:
        return [(0, t)]
    if t[0] == "poly" and len(t[1]) == 1:
        (m, c), = t[1]
        if len(m) == 1 and m[0][0] == "leaf" and m[0][2] == 8 and c > 0 and c & (c - 1) == 0 and (c.bit_length() - 1) % 8 == 0:
            return [((c.bit_length() - 1) // 8, m[0])]
    if t[0] == "word":
        return list(t[1])
    return None


def _merge_bytes(items):
    """xor/or of 8-bit leaves placed at distinct byte positions is a little-endian word: one canonical atom."""
    placed, other = [], []
    for i in items:
        bp = _byte_placement(i)
        if bp is None:
            other.append(i)
        else:
            placed.extend(bp)
    js = [j for j, _ in placed]
    if len(placed) >= 2 and len(set(js)) == len(js):
        other.append(("word", tuple(sorted(placed))))
        other.sort(key=repr)
        return other
    return items


def poly(t, W):
    """{monomial (sorted tuple of atoms): coefficient mod 2^W}"""
    M = (1 << W) - 1
    k = t[0]
    if k == "c":
        return {(): t[1] & M} if t[1] & M else {}
    if k == "tr" and (t[1] >= W):
        return poly(t[2], W)
    if k == "op" and t[1] in ("add", "sub"):
        a, b = poly(t[2], W), poly(t[3], W)
        out = dict(a)
        sg = 1 if t[1] == "add" else -1
        for m, c in b.items():
            out[m] = (out.get(m, 0) + sg * c) & M
        return {m: c for m, c in out.items() if c}
    if k == "op" and t[1] == "mul":
        a, b = poly(t[2], W), poly(t[3], W)
        out = {}
        for m1, c1 in a.items():
            for m2, c2 in b.items():
                m = tuple(sorted(m1 + m2, key=repr))
                out[m] = (out.get(m, 0) + c1 * c2) & M
        return {m: c for m, c in out.items() if c}
    if k == "op" and t[1] == "shl":
        s = nf(t[3], 64)
        if s[0] == "c" and 0 <= s[1] < 64:
            a = poly(t[2], W)
            return {m: (c << s[1]) & M for m, c in a.items() if (c << s[1]) & M}
    n = nf(t, W) if not (k == "op" and t[1] in ("add", "sub", "mul", "shl")) else ("opaque", repr(t))
    if n[0] == "c":
        return {(): n[1]} if n[1] else {}
    return {(n,): 1}


def poly_to_term(p, W):
    if not p:
        return ("c", 0)
    if list(p) == [()]:
        return ("c", p[()])
    if len(p) == 1:
        (m, c), = p.items()
        if c == 1 and len(m) == 1:
            return m[0]
    return ("poly", tuple(sorted(((m, c) for m, c in p.items()), key=repr)))


def to_raw(t, zeros=()):
    """Normal form -> raw term (so that it can be normalised again), replacing the atoms listed in `zeros` by 0."""
    if t in zeros:
        return C(0)
    k = t[0]
    if k in ("c", "leaf", "acc", "elem", "idx"):
        return t
    if k == "tr":
        return ("tr", t[1], to_raw(t[2], zeros))
    if k == "shr":
        w = t[1] or 64
        return ("shr", w, to_raw(t[2], zeros), to_raw(t[3], zeros))
    if k == "bit":
        items = [to_raw(x, zeros) for x in t[2]]
        out = items[0]
        for x in items[1:]:
            out = ("op", t[1], out, x)
        return out
    if k == "poly":
        out = None
        for m, c in t[1]:
            term = C(c)
            for f in m:
                term = ("op", "mul", term, to_raw(f, zeros))
            out = term if out is None else ("op", "add", out, term)
        return out if out is not None else C(0)
    if k == "fold":
        return ("fold", to_raw(t[1], zeros), to_raw(t[2], zeros))
    if k == "word":
        items = [("op", "shl", l, C(8 * j)) if j else l for j, l in t[1]]
        out = items[0]
        for x in items[1:]:
            out = ("op", "xor", out, x)
        return out
    if k == "sx":
        return ("sx", t[1], to_raw(t[2], zeros))
    if k == "floordiv":
        return ("floordiv", to_raw(t[1], zeros), t[2])
    return t


def subst_zero(t, zeros, W):
    """Normal form of t under the assumption that every term in `zeros` (normal forms) equals 0."""
    if not zeros:
        return t
    return nf(to_raw(t, tuple(zeros)), W)


def show(t, depth=0):
    k = t[0]
    if k == "c":
        return hex(t[1]) if t[1] > 9 else str(t[1])
    if k == "leaf":
        return t[1]
    if k == "acc":
        return "h"
    if k == "elem":
        return "block"
    if k == "tr":
        return "u%d(%s)" % (t[1], show(t[2]))
    if k == "shr":
        return "(%s >>%d %s)" % (show(t[2]), t[1], show(t[3]))
    if k == "bit":
        sym = {"xor": " ^ ", "and": " & ", "or": " | "}[t[1]]
        return "(" + sym.join(show(x) for x in t[2]) + ")"
    if k == "poly":
        parts = []
        for m, c in t[1]:
            f = "*".join(show(x) for x in m)
            parts.append(f if c == 1 and f else ("%s*%s" % (show(("c", c)), f) if f else show(("c", c))))
        return "(" + " + ".join(parts) + ")"
    if k == "fold":
        return "fold[h -> %s](%s)" % (show(t[1]), show(t[2]))
    if k == "floordiv":
        return "(%s // %d)" % (show(t[1]), t[2])
    if k == "op":
        return "%s(%s, %s)" % (t[1], show(t[2]), show(t[3]))
    if k == "sx":
        return "int%d(%s)" % (t[1], show(t[2]))
    if k == "word":
        return "le_word(%s)" % ", ".join("%s@%d" % (show(l), j) for j, l in t[1])
    return repr(t)


def diff(a, b, path="result"):
    """First structural difference between two normal forms."""
    if a == b:
        return None
    if a[0] != b[0]:
        return "%s: %s  vs published  %s" % (path, show(a)[:120], show(b)[:120])
    k = a[0]
    if k == "c":
        return "%s: constant %s vs published %s" % (path, show(a), show(b))
    if k == "bit":
        if a[1] != b[1]:
            return "%s: operator %s vs published %s" % (path, a[1], b[1])
        sa, sb = list(a[2]), list(b[2])
        only_a = [x for x in sa if x not in sb]
        only_b = [x for x in sb if x not in sa]
        if len(only_a) == 1 and len(only_b) == 1:
            return diff(only_a[0], only_b[0], path + "/" + a[1])
        return "%s: %s-operands differ: extra %s, missing %s" % (path, a[1], [show(x)[:60] for x in only_a], [show(x)[:60] for x in only_b])
    if k == "shr":
        if a[1] != b[1]:
            return "%s: >> on a %d-bit operand vs published %d-bit" % (path, a[1], b[1])
        if a[3] != b[3]:
            return "%s: shift amount %s vs published %s" % (path, show(a[3]), show(b[3]))
        return diff(a[2], b[2], path + "/>>")
    if k == "tr":
        if a[1] != b[1]:
            return "%s: truncation to %d bits vs published %d" % (path, a[1], b[1])
        return diff(a[2], b[2], path + "/u%d" % a[1])
    if k == "poly":
        da, db = dict(a[1]), dict(b[1])
        only_a = {m: c for m, c in da.items() if db.get(m) != c}
        only_b = {m: c for m, c in db.items() if da.get(m) != c}
        if len(only_a) == 1 and len(only_b) == 1:
            (ma, ca), = only_a.items()
            (mb, cb), = only_b.items()
            if ma == mb:
                return "%s: multiplier %s vs published %s" % (path, show(("c", ca)), show(("c", cb)))
            if len(ma) == len(mb) == 1 and ca == cb:
                return diff(ma[0], mb[0], path + "/*")
            if len(ma) == len(mb) and ca == cb:
                xa = [x for x in ma if x not in mb]
                xb = [x for x in mb if x not in ma]
                if len(xa) == 1 and len(xb) == 1:
                    return diff(xa[0], xb[0], path + "/*")
        return "%s: arithmetic differs: %s vs published %s" % (path, show(a)[:120], show(b)[:120])
    if k == "fold":
        return diff(a[1], b[1], path + "/block-step") or diff(a[2], b[2], path + "/before-blocks")
    return "%s: %s vs published %s" % (path, show(a)[:120], show(b)[:120])


# ---------------------------------------------------------------------------
# abstract interpretation of the hash kernels
# ---------------------------------------------------------------------------

class HUndecided(Exception):
    pass


class HNeedSplit(Exception):
    """A test compares the block count with a constant that `at least one block` does not decide: the caller re-runs the case
    split further into `exactly one block` / `two or more`."""


class BytesV:
    def __init__(self, kind):
        self.kind = kind      # 'key' | 'head' (key[:nblocks*B]) | 'tail' (key[nblocks*B:])


class BlocksV:
    def __init__(self, w):
        self.w = w


class HPath:
    def __init__(self):
        self.env = {}
        self.assume = []      # list of (tag, bool)
        self.loop = False     # a loop over the blocks was executed on this path

    def copy(self):
        p = HPath()
        p.env = dict(self.env)
        p.assume = list(self.assume)
        p.loop = self.loop
        return p


class HInterp:
    def __init__(self, model, func, B, case=None):
        self.model = model
        self.func = func
        self.B = B
        self.depth = 0
        self.depth_glob = 0
        # case = (r, hasblocks): interpret under  len % B == r  and  (len // B > 0) == hasblocks.  The 2B cases partition the
        # inputs; inside a case every test on the residue / block count is decided and residue-bounded loops are unrolled.
        self.case = case

    def conc(self, t):
        """Integer value of a scalar term under the case assumptions, or None."""
        if self.case is None or isinstance(t, (BytesV, BlocksV)) or t is None:
            return None
        try:
            x = nf(t)
        except (AnalysisError, TypeError, IndexError, KeyError):
            return None
        r, hb = self.case[0], self.case[1]
        x = self._subst_case(x)
        try:
            x = nf(to_raw(x))
        except (AnalysisError, TypeError, IndexError, KeyError):
            return None
        if x[0] == "c":
            return x[1]
        return None

    def _subst_case(self, x):
        r, hb = self.case[0], self.case[1]
        if not isinstance(x, tuple) or not x:
            return x
        if _is_residue(x, self.B):
            return ("c", r)
        if x[0] == "floordiv" and _is_nblocks(x, self.B) and not hb:
            return ("c", 0)
        if x[0] == "leaf" and x[1] == "len" and not hb:
            return ("c", r)            # no whole block: the length is the residue
        if x[0] in ("c", "leaf"):
            return x
        return tuple(self._subst_case(y) if isinstance(y, tuple) else y for y in x)

    # ---- entry for a public function: returns [(assumptions, loop?, term)]
    def run_public(self):
        f = self.func
        p = HPath()
        for name in f.params:
            ty = f.ptypes.get(name)
            if ty.kind == "bytes":
                p.env[name] = BytesV("key")
            else:
                p.env[name] = leaf(name, ty.bits)
        outs = self.block(f.body(), p)
        res = []
        for kind, path, val in outs:
            if kind != "ret":
                raise HUndecided("%s: a path falls off the end" % f.name)
            res.append((path.assume, path.loop, tr(f.rtype.bits, val)))
        return res

    # ---- helper call: inline through the typed signature
    def call_helper(self, callee, args):
        if self.depth > 6:
            raise HUndecided("recursion")
        p = HPath()
        for name, a in zip(callee.params, args):
            ty = callee.ptypes.get(name)
            if isinstance(a, (BytesV, BlocksV)):
                p.env[name] = a
            elif ty is not None and ty.kind in ("uint", "int"):
                if ty.kind != "uint":
                    # a signed 64-bit parameter holds every value below 2**63 unchanged: positions into the key and small counts
                    try:
                        narrow = ty.bits == 64 and width_of(a) <= 63
                    except (AnalysisError, TypeError, IndexError, KeyError):
                        narrow = False
                    if not narrow and not (ty.bits == 64 and self.conc(a) is not None and 0 <= self.conc(a) < 2 ** 63):
                        raise HUndecided("signed parameter %s of %s" % (name, callee.name))
                    p.env[name] = a
                    continue
                p.env[name] = tr(ty.bits, a)
            else:
                raise HUndecided("parameter type of %s.%s" % (callee.name, name))
        sub = HInterp(self.model, callee, self.B, self.case)
        sub.depth = self.depth + 1
        outs = sub.block(callee.body(), p)
        if len(outs) != 1 or outs[0][0] != "ret":
            # public hash called from another (fasthash32 -> fasthash64): keep as a leaf of its return width
            raise HUndecided("helper %s has %d paths" % (callee.name, len(outs)))
        rt = callee.rtype
        if rt is None or rt.kind != "uint":
            raise HUndecided("return type of %s" % callee.name)
        return tr(rt.bits, outs[0][2])

    # ---- statements
    def block(self, stmts, p):
        live = [p]
        outs = []
        for s in stmts:
            nxt = []
            for cur in live:
                for r in self.stmt(s, cur):
                    if r[0] == "fall":
                        nxt.append(r[1])
                    else:
                        outs.append(r)
            live = nxt
        outs.extend(("fall", q, None) for q in live)
        return outs

    def stmt(self, s, p):
        if isinstance(s, ast.Expr) and isinstance(s.value, ast.Constant):
            return [("fall", p, None)]
        if isinstance(s, ast.Assign) and len(s.targets) == 1 and isinstance(s.targets[0], ast.Name):
            p.env[s.targets[0].id] = self.ev(s.value, p)
            return [("fall", p, None)]
        if isinstance(s, ast.AugAssign) and isinstance(s.target, ast.Name):
            cur = p.env.get(s.target.id)
            p.env[s.target.id] = self.binop(s.op, cur, self.ev(s.value, p))
            return [("fall", p, None)]
        if isinstance(s, ast.Return):
            return [("ret", p, self.ev(s.value, p))]
        if isinstance(s, ast.If):
            tag = self.cond(s.test, p)
            if tag[0] == "const":
                body = s.body if tag[1] else s.orelse
                return self.block(body, p) if body else [("fall", p, None)]
            outs = []
            for pol, body in ((True, s.body), (False, s.orelse)):
                q = p.copy()
                # prune contradictory residue assumptions
                if tag[0] == "res" and pol and any(a[0][0] == "res" and a[1] and a[0] != tag for a in q.assume):
                    continue
                if tag[0] == "res" and pol and any(a[0] == tag and not a[1] for a in q.assume):
                    continue
                q.assume.append((tag, pol))
                outs.extend(self.block(body, q) if body else [("fall", q, None)])
            return outs
        if isinstance(s, ast.For):
            return self.loop(s, p)
        if isinstance(s, ast.While):
            # counter loops:  `while i < n: body; i += 1`  is  `for i in range(<i now>, n): body`;
            #                 `while j > 0: body; j -= 1`  is  `for j in range(<j now>, 0, -1): body`
            t = s.test
            if isinstance(t, ast.Compare) and len(t.ops) == 1 and s.body and not s.orelse:
                l_, r_, o_ = t.left, t.comparators[0], type(t.ops[0])
                flip = {ast.Lt: ast.Gt, ast.Gt: ast.Lt, ast.LtE: ast.GtE, ast.GtE: ast.LtE, ast.NotEq: ast.NotEq}
                iv = bound = None
                last = s.body[-1]
                def _step(last, name):
                    """+1 / -1 when `last` is `name += 1`, `name = name + 1`, `name = 1 + name`, `name -= 1`, `name = name - 1`"""
                    try:
                        if isinstance(last, ast.AugAssign) and isinstance(last.target, ast.Name) and last.target.id == name \
                                and isinstance(last.op, (ast.Add, ast.Sub)) and nf(self.ev(last.value, p)) == ("c", 1):
                            return 1 if isinstance(last.op, ast.Add) else -1
                        if isinstance(last, ast.Assign) and len(last.targets) == 1 and isinstance(last.targets[0], ast.Name) and last.targets[0].id == name \
                                and isinstance(last.value, ast.BinOp) and isinstance(last.value.op, (ast.Add, ast.Sub)):
                            a_, b_ = last.value.left, last.value.right
                            if isinstance(a_, ast.Name) and a_.id == name and nf(self.ev(b_, p)) == ("c", 1):
                                return 1 if isinstance(last.value.op, ast.Add) else -1
                            if isinstance(last.value.op, ast.Add) and isinstance(b_, ast.Name) and b_.id == name and nf(self.ev(a_, p)) == ("c", 1):
                                return 1
                    except (AnalysisError, HUndecided, TypeError):
                        return None
                    return None
                # count-down with the decrement FIRST: `while j > 0: j -= 1; BODY(j)` visits j = start-1, ..., 0
                for cand, other, oo in ((l_, r_, o_), (r_, l_, flip.get(o_))):
                    if isinstance(cand, ast.Name) and oo in (ast.Gt, ast.NotEq) and len(s.body) >= 2 and _step(s.body[0], cand.id) == -1:
                        try:
                            bzero = nf(self.ev(other, p)) == ("c", 0)
                        except (AnalysisError, HUndecided, TypeError):
                            bzero = False
                        others0 = [x for b in s.body[1:] for x in ast.walk(b) if isinstance(x, ast.Name) and x.id == cand.id and isinstance(x.ctx, ast.Store)]
                        esc0 = [x for x in ast.walk(s) if isinstance(x, (ast.Break, ast.Continue))]
                        start0 = p.env.get(cand.id)
                        if bzero and not others0 and not esc0 and start0 is not None and not isinstance(start0, (BytesV, BlocksV)):
                            sname = "while__start%d" % id(s)
                            p.env[sname] = start0
                            sn = ast.Name(id=sname, ctx=ast.Load())
                            rng = [ast.BinOp(left=sn, op=ast.Sub(), right=ast.Constant(value=1)), ast.Constant(value=-1), ast.Constant(value=-1)]
                            f = ast.copy_location(ast.For(target=ast.Name(id=cand.id, ctx=ast.Store()),
                                                          iter=ast.Call(func=ast.Name(id="range", ctx=ast.Load()), args=rng, keywords=[]),
                                                          body=s.body[1:], orelse=[]), s)
                            ast.fix_missing_locations(f)
                            return self.loop(f, p)
                for cand, other, oo in ((l_, r_, o_), (r_, l_, flip.get(o_))):
                    if isinstance(cand, ast.Name) and oo is not None and _step(last, cand.id) is not None:
                        iv, bound, o_ = cand.id, other, oo
                        break
                if iv is not None:
                    st = _step(last, iv)
                    others = [x for b in s.body[:-1] for x in ast.walk(b) if isinstance(x, ast.Name) and x.id == iv and isinstance(x.ctx, ast.Store)]
                    esc = [x for x in ast.walk(s) if isinstance(x, (ast.Break, ast.Continue))]
                    start = p.env.get(iv)
                    okstart = start is not None and not isinstance(start, (BytesV, BlocksV))
                    rng_args = None
                    if okstart and not others and not esc:
                        sname = "while__start%d" % id(s)
                        p.env[sname] = start
                        sn = ast.Name(id=sname, ctx=ast.Load())
                        try:
                            zero = nf(start) == ("c", 0)
                        except (AnalysisError, TypeError):
                            zero = False
                        if st == 1 and o_ is ast.Lt:
                            rng_args = [bound] if zero else [sn, bound]
                        elif st == 1 and o_ is ast.LtE:
                            rng_args = [sn, ast.BinOp(left=bound, op=ast.Add(), right=ast.Constant(value=1))]
                        elif st == -1 and o_ is ast.Gt:
                            rng_args = [sn, bound, ast.Constant(value=-1)]
                        elif st == -1 and o_ is ast.GtE:
                            rng_args = [sn, ast.BinOp(left=bound, op=ast.Sub(), right=ast.Constant(value=1)), ast.Constant(value=-1)]
                    if rng_args is not None:
                        f = ast.copy_location(ast.For(target=ast.Name(id=iv, ctx=ast.Store()),
                                                      iter=ast.Call(func=ast.Name(id="range", ctx=ast.Load()), args=rng_args, keywords=[]),
                                                      body=s.body[:-1] or [ast.Pass()], orelse=[]), s)
                        ast.fix_missing_locations(f)
                        outs = self.loop(f, p)
                        # after the loop the counter holds the bound it stopped at; nothing in these functions reads it again
                        return outs
            raise HUndecided("statement `%s`" % unparse(s, 50))
        if isinstance(s, (ast.Pass, ast.Assert)):
            return [("fall", p, None)]
        raise HUndecided("statement `%s`" % unparse(s, 50))

    def cond(self, t, p):
        if self.case is not None:
            c = self.cond_case(t, p)
            if c is not None:
                return ("const", c)
        if isinstance(t, ast.Compare) and len(t.ops) == 1:
            a = self.ev(t.left, p)
            b = self.ev(t.comparators[0], p)
            na, nb = nf(a), nf(b)
            # residue test:  (len & (B-1)) == r
            res = nf(op("and", ("len",) if False else leaf("len", 64), C(self.B - 1)))
            for x, y in ((na, nb), (nb, na)):
                if isinstance(t.ops[0], ast.Eq) and y[0] == "c" and _is_residue(x, self.B):
                    return ("res", y[1])
            for x, y in ((na, nb), (nb, na)):
                if _is_nblocks(x, self.B) and y == ("c", 0) and isinstance(t.ops[0], (ast.Gt, ast.NotEq)) and x is na:
                    return ("hasblocks",)
                if _is_nblocks(x, self.B) and y == ("c", 0) and isinstance(t.ops[0], (ast.Lt, ast.NotEq)) and x is nb:
                    return ("hasblocks",)
        # data-dependent test on a scalar term:  if x / if x != 0 / if x == 0
        neg = False
        x = None
        if isinstance(t, ast.Compare) and len(t.ops) == 1 and isinstance(t.ops[0], (ast.Eq, ast.NotEq)):
            a = self.ev(t.left, p)
            b = self.ev(t.comparators[0], p)
            try:
                if nf(b) == ("c", 0):
                    x = a
                elif nf(a) == ("c", 0):
                    x = b
            except AnalysisError:
                x = None
            neg = isinstance(t.ops[0], ast.Eq)
        elif isinstance(t, ast.UnaryOp) and isinstance(t.op, ast.Not):
            x = self.ev(t.operand, p)
            neg = True
        elif isinstance(t, (ast.Name, ast.Call)):
            x = self.ev(t, p)
        if x is not None and not isinstance(x, (BytesV, BlocksV)):
            # tag: ("nonzero", normal form of x, negated?)  -- the false branch of `if x` knows x == 0
            return ("nonzero", nf(x), neg)
        raise HUndecided("condition `%s`" % unparse(t, 60))

    def cond_case(self, t, p):
        """Truth value of a test that the case assumptions decide, else None."""
        if isinstance(t, ast.BoolOp):
            vals = [self.cond_case(v, p) for v in t.values]
            if isinstance(t.op, ast.And):
                if any(v is False for v in vals):
                    return False
                return True if all(v is True for v in vals) else None
            if any(v is True for v in vals):
                return True
            return False if all(v is False for v in vals) else None
        if isinstance(t, ast.UnaryOp) and isinstance(t.op, ast.Not):
            v = self.cond_case(t.operand, p)
            return None if v is None else (not v)
        if isinstance(t, ast.Compare) and len(t.ops) == 1:
            try:
                a = self.ev(t.left, p)
                b = self.ev(t.comparators[0], p)
            except HUndecided:
                return None
            va, vb = self.conc(a), self.conc(b)
            o = t.ops[0]
            if va is not None and vb is not None:
                return {ast.Eq: va == vb, ast.NotEq: va != vb, ast.Lt: va < vb, ast.LtE: va <= vb, ast.Gt: va > vb, ast.GtE: va >= vb}.get(type(o))
            # block count against a constant, knowing only that it is >= 1
            r, hb = self.case[0], self.case[1]
            sub = self.case[2] if len(self.case) > 2 else None
            for x, vx, vy, flip in ((a, va, vb, False), (b, vb, va, True)):
                try:
                    isnb = not isinstance(x, (BytesV, BlocksV)) and _is_nblocks(nf(x), self.B)
                except (AnalysisError, TypeError, IndexError, KeyError):
                    isnb = False
                if isnb and hb and vy is not None:
                    # x >= 1
                    ot = type(o)
                    if flip:
                        ot = {ast.Lt: ast.Gt, ast.Gt: ast.Lt, ast.LtE: ast.GtE, ast.GtE: ast.LtE}.get(ot, ot)
                    if vy <= 0:
                        return {ast.Gt: True, ast.GtE: True, ast.NotEq: True, ast.Eq: False, ast.Lt: False, ast.LtE: False}.get(ot)
                    if vy == 1 and ot in (ast.GtE, ast.Lt):
                        return ot is ast.GtE
                    table = {ast.Eq: lambda n: n == vy, ast.NotEq: lambda n: n != vy, ast.Lt: lambda n: n < vy, ast.LtE: lambda n: n <= vy,
                             ast.Gt: lambda n: n > vy, ast.GtE: lambda n: n >= vy}
                    if ot not in table:
                        return None
                    if sub is None:
                        raise HNeedSplit(unparse(t, 60))
                    if sub == "one":
                        return table[ot](1)
                    # two or more blocks: decided when the answer is the same for 2 and for every larger count
                    vals = {table[ot](n) for n in range(2, max(vy, 2) + 3)}
                    return vals.pop() if len(vals) == 1 else None
            return None
        if isinstance(t, (ast.Name, ast.Call, ast.BinOp, ast.Subscript)):
            try:
                v = self.conc(self.ev(t, p))
            except HUndecided:
                return None
            if v is not None:
                return v != 0
            try:
                x = self.ev(t, p)
                if not isinstance(x, (BytesV, BlocksV)) and _is_nblocks(nf(x), self.B) and self.case[1]:
                    return True
            except (HUndecided, AnalysisError, TypeError, IndexError, KeyError):
                return None
        return None

    def unroll(self, s, p, values):
        live = [p]
        outs = []
        for v in values:
            nxt = []
            for cur in live:
                cur.env[s.target.id] = C(v)
                for r in self.block(s.body, cur):
                    if r[0] == "fall":
                        nxt.append(r[1])
                    else:
                        outs.append(r)
            live = nxt
        outs.extend(("fall", q, None) for q in live)
        return outs

    def loop(self, s, p):
        it = s.iter
        if self.case is not None and isinstance(s.target, ast.Name) and not s.orelse:
            # a loop whose bounds the case decides is unrolled; a loop over the blocks of a block-less key does not run
            if isinstance(it, ast.Call) and dotted(it.func) == "range" and 1 <= len(it.args) <= 3 and not it.keywords:
                def _cv(a):
                    if isinstance(a, ast.Constant) and isinstance(a.value, int) and not isinstance(a.value, bool):
                        return a.value
                    if isinstance(a, ast.UnaryOp) and isinstance(a.op, ast.USub) and isinstance(a.operand, ast.Constant) and isinstance(a.operand.value, int):
                        return -a.operand.value
                    return self.conc(self.ev(a, p))
                try:
                    vals = [_cv(a) for a in it.args]
                except HUndecided:
                    vals = [None]
                if all(v is not None and abs(v) < 2 ** 31 for v in vals) and (len(vals) < 3 or vals[2] != 0):
                    rng = range(*vals)
                    if len(rng) <= 64:
                        return self.unroll(s, p, list(rng))
            if isinstance(it, ast.Name) and isinstance(p.env.get(it.id), BlocksV) and not self.case[1]:
                return [("fall", p, None)]
        elem_w = None
        body_env_elem = None
        idxvar = None
        if not isinstance(it, ast.Name) and not (isinstance(it, ast.Call) and dotted(it.func) == "range") and isinstance(s.target, ast.Name):
            # `for v in np.frombuffer(key[:n], np.uintW):` -- the block array need not be bound to a name first
            try:
                itv = self.ev(it, p)
            except HUndecided:
                itv = None
            if isinstance(itv, BlocksV):
                tmpn = "blocks__%d" % id(s)
                p.env[tmpn] = itv
                it = ast.copy_location(ast.Name(id=tmpn, ctx=ast.Load()), it)
                if self.case is not None and not self.case[1]:
                    return [("fall", p, None)]
        if isinstance(it, ast.Name) and isinstance(p.env.get(it.id), BlocksV) and isinstance(s.target, ast.Name):
            elem_w = p.env[it.id].w
            body_env_elem = s.target.id
        elif isinstance(it, ast.Call) and dotted(it.func) == "range" and len(it.args) == 1 and isinstance(s.target, ast.Name):
            n = nf(self.ev(it.args[0], p))
            if not _is_nblocks(n, self.B):
                raise HUndecided("loop bound `%s` is not the block count" % unparse(it.args[0]))
            idxvar = s.target.id
        else:
            raise HUndecided("loop `%s`" % unparse(it, 40))
        assigned = set()
        for n in ast.walk(s):
            if isinstance(n, ast.Name) and isinstance(n.ctx, ast.Store):
                assigned.add(n.id)
        q = p.copy()
        init = {}
        for v in assigned:
            if v in q.env and not isinstance(q.env[v], (BytesV, BlocksV)):
                init[v] = q.env[v]
            q.env[v] = ("in", v)
        if body_env_elem:
            q.env[body_env_elem] = ("elem", elem_w)
        if idxvar:
            q.env[idxvar] = ("idx",)
        outs = self.block(s.body, q)
        if len(outs) != 1 or outs[0][0] != "fall":
            raise HUndecided("loop body with branches/returns")
        after = outs[0][1]
        res = p.copy()
        res.loop = True
        for v in assigned:
            if v in (body_env_elem, idxvar):
                res.env.pop(v, None)
                continue
            step = after.env.get(v)
            if step is None or isinstance(step, (BytesV, BlocksV)):
                continue
            deps = _placeholders(step)
            if deps <= {v} or not deps:
                if v in init:
                    res.env[v] = ("fold", _subst_in(step, v), init[v]) if deps else step
                else:
                    res.env[v] = ("undef", v)
            else:
                res.env[v] = ("undef", v)
        return [("fall", res, None)]

    # ---- expressions
    def ev(self, e, p):
        if isinstance(e, ast.Constant) and isinstance(e.value, int):
            return C(e.value)
        if isinstance(e, ast.Name):
            if e.id in p.env:
                v = p.env[e.id]
                if isinstance(v, tuple) and v and v[0] == "undef":
                    raise HUndecided("use of loop variable `%s` after the loop" % e.id)
                return v
            # a module-level constant (`_M = np.uint64(0x88...)`), bound once and never rebound
            g = self.func.module.globals.get(e.id)
            if g is not None and self.depth_glob < 4:
                stores = [n for n in ast.walk(self.func.module.tree) if isinstance(n, ast.Name) and n.id == e.id and isinstance(n.ctx, (ast.Store, ast.Del))]
                if len(stores) == 1:
                    self.depth_glob += 1
                    try:
                        return self.ev(g, HPath())
                    finally:
                        self.depth_glob -= 1
            raise HUndecided("name `%s`" % e.id)
        if isinstance(e, ast.Tuple) and e.elts and all(isinstance(x, ast.Constant) and isinstance(x.value, int) and not isinstance(x.value, bool) for x in e.elts):
            return ("consttuple", tuple(x.value for x in e.elts))
        if isinstance(e, ast.Subscript) and not isinstance(e.slice, ast.Slice):
            try:
                b_ = self.ev(e.value, p)
            except HUndecided:
                b_ = None
            if isinstance(b_, tuple) and b_ and b_[0] == "consttuple":
                i_ = self.conc(self.ev(e.slice, p))
                if i_ is not None and 0 <= i_ < len(b_[1]):
                    return C(b_[1][i_])
                raise HUndecided("index into a constant table `%s`" % unparse(e, 40))
        if isinstance(e, ast.BinOp):
            return self.binop(e.op, self.ev(e.left, p), self.ev(e.right, p))
        if isinstance(e, ast.Call):
            d = dotted(e.func)
            ct = cast_target(e.func)
            if ct is not None and len(e.args) == 1:
                a = self.ev(e.args[0], p)
                if ct.kind == "uint":
                    return tr(ct.bits, a)
                if ct.kind == "int":
                    if width_of(a) < ct.bits:
                        return a          # value preserved
                    return ("sx", ct.bits, a)     # sign extension: a different value for inputs with the top bit set
                raise HUndecided("cast `%s`" % unparse(e))
            if d == "len" and len(e.args) == 1 and isinstance(self.ev(e.args[0], p), BytesV) and self.ev(e.args[0], p).kind == "key":
                return leaf("len", 63)
            if d == "len" and len(e.args) == 1 and isinstance(self.ev(e.args[0], p), BytesV) and self.ev(e.args[0], p).kind == "tail" \
                    and self.case is not None:
                return C(self.case[0])          # the tail holds len mod B bytes: the residue of the case under analysis
            if d == "len" and len(e.args) == 1 and isinstance(self.ev(e.args[0], p), BlocksV):
                return self.binop(ast.FloorDiv(), leaf("len", 63), C(self.B))      # the array of whole blocks has len // B elements
            if d in ("np.frombuffer", "numpy.frombuffer") and len(e.args) == 2:
                src = self.ev(e.args[0], p)
                dt = cast_target(e.args[1])
                if isinstance(src, BytesV) and src.kind == "head" and dt is not None and dt.kind == "uint" and dt.bits == 8 * self.B:
                    return BlocksV(dt.bits)
                if isinstance(src, BytesV) and src.kind == "tail" and dt is not None and dt.kind in ("uint", "int") and dt.bits in (8, 16, 32, 64):
                    return ("tailwords", dt.kind, dt.bits)
                raise HUndecided("frombuffer `%s`" % unparse(e))
            callee = self.model.lookup_func(self.func.module, d) if d and "." not in d else None
            if callee is not None and callee.is_kernel:
                args = [self.ev(a, p) for a in e.args]
                if any(isinstance(a, BytesV) for a in args) and callee.name in ("fasthash64",):
                    # fasthash32 -> fasthash64(key, seed): uninterpreted 64-bit value of the other public function
                    seed = [a for a in args if not isinstance(a, BytesV)]
                    return ("leaf", "fasthash64(key, %s)" % show(nf(seed[0])) if seed else "fasthash64(key)", 64)
                return self.call_helper(callee, args)
            raise HUndecided("call `%s`" % unparse(e, 50))
        if isinstance(e, ast.Subscript) and isinstance(e.value, ast.Attribute) and e.value.attr == "shape" \
                and isinstance(e.slice, ast.Constant) and e.slice.value == 0 and isinstance(self.ev(e.value.value, p), BlocksV):
            return self.binop(ast.FloorDiv(), leaf("len", 63), C(self.B))
        if isinstance(e, ast.Subscript):
            base = self.ev(e.value, p)
            if isinstance(base, BytesV):
                if isinstance(e.slice, ast.Slice):
                    lo, hi = e.slice.lower, e.slice.upper
                    if base.kind == "key" and lo is None and hi is not None and _is_nblocks_times_B(nf(self.ev(hi, p)), self.B):
                        return BytesV("head")
                    if base.kind == "key" and hi is None and lo is not None and _is_nblocks_times_B(nf(self.ev(lo, p)), self.B):
                        return BytesV("tail")
                    raise HUndecided("slice `%s`" % unparse(e))
                it = self.ev(e.slice, p)
                i = nf(it)
                if base.kind == "tail" and i[0] == "c":
                    return leaf("tail[%d]" % i[1], 8)
                if base.kind == "key" and not isinstance(it, (BytesV, BlocksV)):
                    # key[nblocks*B + j] is tail[j]; with no whole block the tail starts at 0
                    if self.case is not None and not self.case[1]:
                        c = self.conc(it)
                        if c is not None and 0 <= c < self.B:
                            return leaf("tail[%d]" % c, 8)
                    for ln_ in (leaf("len", 63), tr(32, leaf("len", 63))):      # the length as such, or held in a 32-bit local
                        nbB = op("mul", ("floordiv", ln_, self.B), C(self.B))
                        try:
                            d = nf(op("sub", it, nbB))
                        except (AnalysisError, TypeError, IndexError, KeyError):
                            d = None
                        if d is not None and d[0] == "c" and 0 <= d[1] < self.B:
                            return leaf("tail[%d]" % d[1], 8)
                    # any other offset: an uninterpreted byte of the key named by its offset term (differs from every tail[j])
                    return leaf("key[%s]" % show(i)[:90], 8)
                raise HUndecided("byte access `%s`" % unparse(e))
            if isinstance(base, tuple) and base and base[0] == "tailwords":
                i = nf(self.ev(e.slice, p))
                if i[0] == "c":
                    nb = base[2] // 8
                    wd = ("word", tuple((j, leaf("tail[%d]" % (i[1] * nb + j), 8)) for j in range(nb))) if nb > 1 else leaf("tail[%d]" % i[1], 8)
                    return wd if base[1] == "uint" else ("sx", base[2], wd)
                raise HUndecided("tail word access `%s`" % unparse(e))
            if isinstance(base, BlocksV):
                i = self.ev(e.slice, p)
                if i == ("idx",):
                    return ("elem", base.w)
                raise HUndecided("block access `%s`" % unparse(e))
        if isinstance(e, ast.Attribute) and e.attr == "size" and isinstance(self.ev(e.value, p), BlocksV):
            return self.binop(ast.FloorDiv(), leaf("len", 63), C(self.B))
        raise HUndecided("expression `%s`" % unparse(e, 50))

    def binop(self, o, a, b):
        if isinstance(a, (BytesV, BlocksV)) or isinstance(b, (BytesV, BlocksV)) or a is None or b is None \
                or (isinstance(a, tuple) and a and a[0] == "tailwords") or (isinstance(b, tuple) and b and b[0] == "tailwords"):
            raise HUndecided("operator on a non-scalar")
        n = type(o).__name__
        if n == "Sub":
            # len - (len & (B-1))  ==  (len // B) * B   (B a power of two): the bytes covered by whole blocks
            try:
                na_, nb_ = nf(a), nf(b)
            except (AnalysisError, TypeError, IndexError, KeyError):
                na_ = nb_ = None
            if nb_ is not None and _is_residue(nb_, self.B) and na_ in (("leaf", "len", 63), ("tr", 32, ("leaf", "len", 63))):
                inner = leaf("len", 63) if na_[0] == "leaf" else tr(32, leaf("len", 63))
                return op("mul", ("floordiv", inner, self.B), C(self.B))
        if n in RING:
            return op(RING[n], a, b)
        if n in BITS:
            return op(BITS[n], a, b)
        if n == "LShift":
            return op("shl", a, b)
        if n == "RShift":
            # operand width: the exact value as Numba holds it (64-bit arithmetic, narrower only if provably so)
            return shr(min(64, width_of(a)) if width_of(a) < 64 else 64, a, b)
        if n == "FloorDiv":
            c = nf(b)
            if c[0] == "c":
                return ("floordiv", a, c[1])
        raise HUndecided("operator %s" % n)


def _placeholders(t):
    out = set()
    if isinstance(t, tuple):
        if t and t[0] == "in":
            out.add(t[1])
        else:
            for x in t:
                out |= _placeholders(x)
    return out


def _subst_in(t, v):
    if isinstance(t, tuple):
        if t and t[0] == "in" and t[1] == v:
            return ("acc",)
        return tuple(_subst_in(x, v) for x in t)
    return t


def _is_residue(t, B):
    return t == ("bit", "and", (("c", B - 1), ("leaf", "len", 63))) or t == ("bit", "and", (("c", B - 1), ("tr", 32, ("leaf", "len", 63))))


def _is_nblocks(t, B):
    return t[0] == "floordiv" and t[2] == B and t[1] in (("leaf", "len", 63), ("tr", 32, ("leaf", "len", 63)))


def _is_nblocks_times_B(t, B):
    if t[0] == "poly" and len(t[1]) == 1:
        (m, c), = t[1]
        return c == B and len(m) == 1 and _is_nblocks(m[0], B)
    return False


# nf extensions for the extra raw kinds
_nf_core = nf


def nf(t, W=64):     # noqa: F811
    k = t[0]
    if k in ("acc", "idx", "in", "undef"):
        return t
    if k == "sx":
        return ("sx", t[1], nf(t[2], t[1]) if t[2][0] not in ("acc", "idx", "in") else t[2])
    if k == "word":
        return t
    if k == "len":
        return ("leaf", "len", 63)
    return _nf_core(t, W)


# ---------------------------------------------------------------------------
# the published algorithms, in the same term language
# ---------------------------------------------------------------------------

def XOR(*xs):
    t = xs[0]
    for x in xs[1:]:
        t = op("xor", t, x)
    return t


def MUL(a, b):
    return op("mul", a, b)


def ADD(a, b):
    return op("add", a, b)


def SHL(a, k):
    return op("shl", a, C(k))


LEN = leaf("len", 63)


def ref_fasthash64(assume_res, has_loop):
    m = C(0x880355F21E6D1965)

    def mix(h):
        h = tr(64, h)
        h1 = XOR(h, shr(64, h, C(23)))
        h2 = tr(64, MUL(h1, C(0x2127599BF4325C37)))
        return XOR(h2, shr(64, h2, C(47)))
    seed = leaf("seed", 64)
    h = XOR(seed, MUL(LEN, m))
    if has_loop:
        h = ("fold", MUL(XOR(("acc",), mix(("elem", 64))), m), h)
    r = assume_res
    if r:
        v = leaf("tail[0]", 8)
        for i in range(1, r):
            v = XOR(v, SHL(leaf("tail[%d]" % i, 8), 8 * i))
        h = MUL(XOR(h, mix(v)), m)
    return tr(64, mix(h))


def ref_fasthash32():
    h = leaf("fasthash64(key, seed)", 64)
    return tr(32, op("sub", h, shr(64, h, C(32))))


def ref_murmur3(assume_res, has_loop):
    c1, c2, c3 = C(0xCC9E2D51), C(0x1B873593), C(0xE6546B64)

    def rotl(x, r):
        x = tr(32, x)
        return op("or", tr(32, SHL(x, r)), shr(32, x, C(32 - r)))

    def k(x):
        return MUL(rotl(MUL(x, c1), 15), c2)

    def fmix(h):
        h = tr(32, h)
        h = XOR(h, shr(32, h, C(16)))
        h = tr(32, MUL(h, C(0x85EBCA6B)))
        h = XOR(h, shr(32, h, C(13)))
        h = tr(32, MUL(h, C(0xC2B2AE35)))
        return XOR(h, shr(32, h, C(16)))
    h = leaf("seed", 32)
    if has_loop:
        h = ("fold", ADD(MUL(rotl(XOR(("acc",), k(("elem", 32))), 13), C(5)), c3), h)
    r = assume_res
    if r:
        v = leaf("tail[0]", 8)
        for i in range(1, r):
            v = XOR(v, SHL(leaf("tail[%d]" % i, 8), 8 * i))
        h = XOR(h, k(v))
    h = XOR(h, tr(32, LEN))
    return tr(32, fmix(h))
