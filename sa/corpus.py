"""T2 corpus: breaking (B) and behaviour-preserving (E) in-memory edits, per rule family."""
from .mutants import M

CORPUS = []


def add(*a, **k):
    CORPUS.append(M(*a, **k))


# ---------------------------------------------------------------------------
# range / cap / mono / ceil  (C18, also seen by C01/C05/C03 where shared)
# ---------------------------------------------------------------------------
add("range-01-drop-linear-cap", ["C18", "C01"], "countmin",
    "    value = min(value, uint_maxval - min_count)\n", "", rules=["range", "newcount"])
add("cap-01-drop-wrapper-cap-linear", ["C18", "C01"], "countmin",
    "        value = min(value, self.uint_maxval)\n\n        _add_linear(", "        _add_linear(", rules=["cap"])
add("cap-02-drop-wrapper-cap-hh", ["C18", "C03"], "heavyhitters",
    "        value = min(value, self.uint_maxval)\n        _add(", "        _add(", rules=["cap"])
add("range-02-merge-linear-never-saturates", ["C18", "C01", "C09"], "countmin",
    "if other_cms[row, col] > uint_maxval - cms[row, col]:", "if False:", rules=["range", "msum"])
add("range-03-log-counter-no-ceiling-stop", ["C18", "C05"], "countmin",
    "        if counter >= uint_maxval:\n            return counter, rand_ptr\n", "", rules=["logstep", "range"])
add("range-04-hh-replace-guard-weak", ["C18", "C03"], "heavyhitters",
    "if value > lhh_count[row, col]:", "if value >= 0:", rules=["range", "bm-table"])
add("range-05-hh-add-guard-off-by-type", ["C18", "C03"], "heavyhitters",
    "if value < uint_maxval - lhh_count[row, col]:", "if value <= uint_maxval:", rules=["range"])
add("range-06-hh-merge-wrong-sub-order", ["C18", "C03"], "heavyhitters",
    "                    lhh_count[row, col] = (\n                        other_lhh_count[row, col] - lhh_count[row, col]\n                    )",
    "                    lhh_count[row, col] = (\n                        lhh_count[row, col] - other_lhh_count[row, col]\n                    )",
    rules=["range", "bm-table"])
add("range-07-merge-log8-ceiling-plus1", ["C18"], "countmin",
    "            elif v >= max_count:\n                cms[row, col] = uint_maxval\n            else:\n                cprime = np.log((v - num_reserved) * (base - 1.0) + 1.0) / np.log(base)\n                cprime = uint8(cprime)",
    "            elif v >= max_count:\n                cms[row, col] = uint_maxval + 1\n            else:\n                cprime = np.log((v - num_reserved) * (base - 1.0) + 1.0) / np.log(base)\n                cprime = uint8(cprime)",
    rules=["range"])
add("range-08-merge-log16-reserved-guard-wrong", ["C18"], "countmin",
    "            if v <= num_reserved:\n                cms[row, col] = uint16(v)", "            if v <= max_count:\n                cms[row, col] = uint16(v)",
    rules=["range"])
add("ceil-01-linear-ceiling-31-bits", ["C18", "C01"], "countmin",
    "self.uint_maxval = np.uint32(2**32 - 1)", "self.uint_maxval = np.uint32(2**31 - 1)", rules=["ceil"])
add("ceil-02-log8-table-uint16", ["C18"], "countmin",
    "            self.cms = np.zeros((depth, width), np.uint8)", "            self.cms = np.zeros((depth, width), np.uint16)", rules=["ceil"])
add("mono-01-linear-guard-inverted", ["C18", "C01", "C05"], "countmin",
    "        if count < new_count:\n            cms[row, buckets[row]] = new_count\n\n\n@njit(\n    types.void(\n        uint32[:, :],\n        uint64[:],\n        uint64[:],\n        uint64,\n        uint64,\n        uint32,\n        types.Bytes(types.uint8, 1, \"C\"),\n        uint64,",
    "        if count > new_count:\n            cms[row, buckets[row]] = new_count\n\n\n@njit(\n    types.void(\n        uint32[:, :],\n        uint64[:],\n        uint64[:],\n        uint64,\n        uint64,\n        uint32,\n        types.Bytes(types.uint8, 1, \"C\"),\n        uint64,",
    rules=["mono"])
add("mono-02-log16-unguarded-store", ["C18", "C05"], "countmin",
    "    for row in range(depth):\n        count = cms[row, buckets[row]]\n        if count < new_count:\n            cms[row, buckets[row]] = new_count\n\n    return rand_ptr\n\n\n@njit(\n    uint64(\n        uint16[:, :],",
    "    for row in range(depth):\n        cms[row, buckets[row]] = new_count\n\n    return rand_ptr\n\n\n@njit(\n    uint64(\n        uint16[:, :],",
    rules=["mono"])
# equivalent rewrites
add("E-range-01-rearranged-guard", ["C18", "C03"], "heavyhitters",
    "if value < uint_maxval - lhh_count[row, col]:", "if lhh_count[row, col] + value < uint_maxval:", kind="E")
add("E-range-02-swapped-arms", ["C18", "C01", "C09"], "countmin",
    "            if other_cms[row, col] > uint_maxval - cms[row, col]:\n                cms[row, col] = uint_maxval\n            else:\n                cms[row, col] += other_cms[row, col]",
    "            if not (other_cms[row, col] > uint_maxval - cms[row, col]):\n                cms[row, col] += other_cms[row, col]\n            else:\n                cms[row, col] = uint_maxval",
    kind="E")
add("E-range-03-renamed-locals", ["C18", "C01", "C05"], "countmin",
    "    value = min(value, uint_maxval - min_count)\n    new_count = min_count + value\n\n    # Track total number of elements added to the sketch\n    n_added_records[0] += uint64(value)",
    "    amount = min(value, uint_maxval - min_count)\n    new_count = amount + min_count\n\n    # Track total number of elements added to the sketch\n    n_added_records[0] += uint64(amount)",
    kind="E")
add("E-range-04-explicit-assign-form", ["C18", "C01", "C09"], "countmin",
    "                cms[row, col] += other_cms[row, col]\n    # Merge the special counters",
    "                cms[row, col] = cms[row, col] + other_cms[row, col]\n    # Merge the special counters", kind="E")
add("E-cap-01-cap-spelled-with-if", ["C18", "C01"], "countmin",
    "        value = min(value, self.uint_maxval)\n\n        _add_linear(",
    "        if value > self.uint_maxval:\n            value = self.uint_maxval\n\n        _add_linear(", kind="E")

# ---------------------------------------------------------------------------
# qmin / addr / cons / newcount / nadd-once / logstep  (C01, C05, C14)
# ---------------------------------------------------------------------------
QL = "    min_count = uint_maxval\n    for row in range(depth):\n        buckets[row] = fasthash64(key, row) % width\n        count = cms[row, buckets[row]]\n        if count < min_count:\n            min_count = count\n    return min_count\n\n\n@njit(\n    types.void(\n        uint32[:, :],"
add("qmin-01-linear-first-row-only", ["C01", "C05"], "countmin", QL, QL.replace("range(depth)", "range(1)"), rules=["qmin"])
add("qmin-02-linear-max-instead-of-min", ["C01", "C05"], "countmin", QL, QL.replace("if count < min_count", "if count > min_count"), rules=["qmin"])
add("qmin-03-linear-init-zero", ["C01", "C05"], "countmin", QL, QL.replace("min_count = uint_maxval\n", "min_count = uint32(0)\n"), rules=["qmin"])
add("qmin-04-linear-skip-last-row", ["C01", "C05"], "countmin", QL, QL.replace("range(depth)", "range(depth - 1)"), rules=["qmin"])
add("addr-01-linear-constant-seed", ["C01", "C05", "C14"], "countmin", QL, QL.replace("fasthash64(key, row)", "fasthash64(key, 0)"), rules=["qmin", "seedrow"])
add("addr-02-linear-mod-depth", ["C01", "C05", "C14"], "countmin", QL, QL.replace("% width", "% depth"), rules=["qmin", "seedrow"])
add("addr-03-linear-reads-other-column", ["C01", "C05"], "countmin", QL, QL.replace("count = cms[row, buckets[row]]", "count = cms[row, buckets[0]]"), rules=["qmin"])
add("E-qmin-01-seed-cast", ["C01", "C05", "C14"], "countmin", QL, QL.replace("fasthash64(key, row)", "fasthash64(key, uint64(row))"), kind="E")
add("E-qmin-02-le-for-lt", ["C01", "C05"], "countmin", QL, QL.replace("if count < min_count", "if count <= min_count"), kind="E")
add("E-qmin-03-min-builtin", ["C01", "C05"], "countmin", QL,
    QL.replace("        if count < min_count:\n            min_count = count\n", "        min_count = min(min_count, count)\n"), kind="E")

AL = "    for row in range(depth):\n        count = cms[row, buckets[row]]\n        if count < new_count:\n            cms[row, buckets[row]] = new_count\n\n\n@njit(\n    types.void(\n        uint32[:, :],\n        uint64[:],\n        uint64[:],\n        uint64,\n        uint64,\n        uint32,\n        types.Bytes(types.uint8, 1, \"C\"),\n        uint64,"
add("cons-01-linear-plain-increment", ["C05", "C01"], "countmin", AL,
    AL.replace("        count = cms[row, buckets[row]]\n        if count < new_count:\n            cms[row, buckets[row]] = new_count\n",
               "        cms[row, buckets[row]] += value\n"), rules=["cons", "range", "mono", "newcount"])
add("cons-02-linear-plain-increment-capped", ["C05", "C01"], "countmin", AL,
    AL.replace("        count = cms[row, buckets[row]]\n        if count < new_count:\n            cms[row, buckets[row]] = new_count\n",
               "        count = cms[row, buckets[row]]\n        cms[row, buckets[row]] = count + min(value, uint_maxval - count)\n"), rules=["cons", "newcount"])
add("cons-03-linear-no-query", ["C05", "C01"], "countmin",
    "    min_count = _query_linear(cms, buckets, width, depth, uint_maxval, key)\n\n    # Counter is maxed out",
    "    min_count = cms[0, buckets[0]]\n\n    # Counter is maxed out", rules=["addr", "newcount", "cons"])
add("cons-04-log8-query-other-key", ["C05"], "countmin",
    "    min_count = _query_log8(cms, buckets, width, depth, uint_maxval, key)", "    min_count = _query_log8(cms, buckets, width, depth, uint_maxval, key[:1])", rules=["addr"])
add("cons-05-log16-writes-two-rows", ["C05"], "countmin",
    "        if count < new_count:\n            cms[row, buckets[row]] = new_count\n\n    return rand_ptr\n\n\n@njit(\n    uint64(\n        uint16[:, :],",
    "        if count < new_count:\n            cms[row, buckets[row]] = new_count\n            cms[0, buckets[row]] = new_count\n\n    return rand_ptr\n\n\n@njit(\n    uint64(\n        uint16[:, :],",
    rules=["cons"])
add("newcount-01-log16-step-from-zero", ["C05"], "countmin",
    "    new_count, rand_ptr = _log_counter(\n        min_count, num_reserved, uint_maxval, base, rand_nums, rand_ptr, value\n    )\n    # Nothing to do",
    "    new_count, rand_ptr = _log_counter(\n        uint16(0), num_reserved, uint_maxval, base, rand_nums, rand_ptr, value\n    )\n    # Nothing to do",
    rules=["newcount"])
add("newcount-02-log8-unit-step", ["C05"], "countmin",
    "    new_count, rand_ptr = _log_counter(\n        min_count, num_reserved, uint_maxval, base, rand_nums, rand_ptr, value\n    )\n    # Reminder",
    "    new_count, rand_ptr = _log_counter(\n        min_count, num_reserved, uint_maxval, base, rand_nums, rand_ptr, uint64(1)\n    )\n    # Reminder",
    rules=["newcount"])
add("nadd-01-linear-counts-uncapped", ["C05"], "countmin",
    "    value = min(value, uint_maxval - min_count)\n    new_count = min_count + value\n\n    # Track total number of elements added to the sketch\n    n_added_records[0] += uint64(value)",
    "    n_added_records[0] += uint64(value)\n    value = min(value, uint_maxval - min_count)\n    new_count = min_count + value\n", rules=["nadd-once"])
add("nadd-02-log16-counts-per-row", ["C05"], "countmin",
    "    # Track total number of elements added to the sketch\n    n_added_records[0] += uint64(value)\n\n    # This gets min_count AND updates buckets\n    min_count = _query_log16(cms, buckets, width, depth, uint_maxval, key)",
    "    # This gets min_count AND updates buckets\n    min_count = _query_log16(cms, buckets, width, depth, uint_maxval, key)\n    for r in range(depth):\n        n_added_records[0] += uint64(value)",
    rules=["nadd-once"])
add("nadd-03-log8-never-counts", ["C05"], "countmin",
    "    # Track total number of elements added to the sketch\n    n_added_records[0] += uint64(value)\n\n    # This gets min_count AND updates buckets\n    min_count = _query_log8(",
    "    # This gets min_count AND updates buckets\n    min_count = _query_log8(", rules=["nadd-once"])
add("logstep-01-step-two", ["C05", "C18"], "countmin",
    "        if cprime < 0:\n            counter += one", "        if cprime < 0:\n            counter += one + one", rules=["logstep"])
add("logstep-02-deterministic-boundary-le", ["C05"], "countmin",
    "        if cprime < 0:\n            counter += one", "        if cprime <= 0:\n            counter += one", rules=["logstep"])
add("logstep-03-loop-value-plus-one", ["C05"], "countmin",
    "    one = uint16(1)\n    for i in range(value):", "    one = uint16(1)\n    for i in range(value + 1):", rules=["logstep"])
add("E-logstep-01-int-compare", ["C05", "C18"], "countmin",
    "        if cprime < 0:\n            counter += one", "        if counter < num_reserved:\n            counter += one", kind="E")

# ---------------------------------------------------------------------------
# heavy hitters: keyid / bm-table / keynorm / scan-all / maxcount / report  (C03, C04, C13)
# ---------------------------------------------------------------------------
add("keyid-01-add-bytes-only (F1 pre-fix)", ["C03", "C04", "C13"], "heavyhitters",
    "        if np.all(key_array == lhh[row, col]) and key_lens[row, col] == key_len:", "        if np.all(key_array == lhh[row, col]):",
    rules=["keyid"])
add("keyid-02-maxcount-bytes-only (F1 pre-fix)", ["C03", "C04", "C13"], "heavyhitters",
    "            np.all(key_array == lhh[row, col])\n            and key_lens[row, col] == key_len\n            and lhh_count[row, col] > max_count",
    "            np.all(key_array == lhh[row, col])\n            and lhh_count[row, col] > max_count", rules=["keyid"])
add("keyid-03-merge-bytes-only", ["C03", "C04"], "heavyhitters",
    "            keys_match = (np.all(lhh[row, col] == other_lhh[row, col])) and (\n                key_lens[row, col] == other_key_lens[row, col]\n            )",
    "            keys_match = np.all(lhh[row, col] == other_lhh[row, col])", rules=["keyid"])
add("keyid-04-merge-length-of-wrong-cell", ["C03", "C04"], "heavyhitters",
    "                key_lens[row, col] == other_key_lens[row, col]\n            )", "                key_lens[row, col] == other_key_lens[row, 0]\n            )", rules=["keyid"])
add("keynorm-01-getitem-no-truncation (F3 pre-fix)", ["C04"], "heavyhitters",
    "        key = key[: int(self.max_key_len)]\n        key_len = len(key)", "        key_len = len(key)", rules=["keynorm"])
add("keynorm-02-add-hashes-untruncated-key", ["C04"], "heavyhitters",
    "        key = key[:max_key_len]\n        key_len = max_key_len\n        key_array = np.frombuffer(key, uint8)",
    "        key_len = max_key_len\n        key_array = np.frombuffer(key[:max_key_len], uint8)", rules=["addr", "keynorm"])
add("bm-01-replacement-takes-full-value", ["C03", "C04"], "heavyhitters",
    "                lhh_count[row, col] = value - lhh_count[row, col]\n", "                lhh_count[row, col] = value\n", rules=["bm-table"])
add("bm-02-replacement-forgets-length", ["C03", "C04"], "heavyhitters",
    "                key_lens[row, col] = uint8(key_len)\n", "", rules=["bm-table"])
add("bm-03-merge-arms-swapped", ["C03", "C04"], "heavyhitters",
    "                if lhh_count[row, col] >= other_lhh_count[row, col]:", "                if lhh_count[row, col] < other_lhh_count[row, col]:",
    rules=["bm-table", "range"])
add("bm-04-match-increments-by-one", ["C03", "C04"], "heavyhitters",
    "                lhh_count[row, col] += value\n", "                lhh_count[row, col] += uint32(1)\n", rules=["bm-table"])
add("bm-05-merge-match-takes-max", ["C03", "C04"], "heavyhitters",
    "                    lhh_count[row, col] += other_lhh_count[row, col]", "                    lhh_count[row, col] = max(lhh_count[row, col], other_lhh_count[row, col])",
    rules=["bm-table"])
add("bm-06-merge-replacement-keeps-old-length", ["C03", "C04"], "heavyhitters",
    "                    key_lens[row, col] = other_key_lens[row, col]\n", "", rules=["bm-table"])
add("bm-07-no-decrement", ["C04"], "heavyhitters",
    "            else:\n                lhh_count[row, col] -= value\n", "", rules=["bm-table"])
add("E-bm-01-tie-goes-to-newcomer", ["C03", "C04", "C18"], "heavyhitters",
    "            if value > lhh_count[row, col]:", "            if value >= lhh_count[row, col]:", kind="E")
add("E-bm-02-merge-arms-swapped-consistently", ["C03", "C04", "C18"], "heavyhitters",
    "                if lhh_count[row, col] >= other_lhh_count[row, col]:\n                    lhh_count[row, col] -= other_lhh_count[row, col]\n                else:\n                    lhh[row, col] = other_lhh[row, col]\n                    key_lens[row, col] = other_key_lens[row, col]\n                    lhh_count[row, col] = (\n                        other_lhh_count[row, col] - lhh_count[row, col]\n                    )",
    "                if lhh_count[row, col] < other_lhh_count[row, col]:\n                    lhh[row, col] = other_lhh[row, col]\n                    key_lens[row, col] = other_key_lens[row, col]\n                    lhh_count[row, col] = (\n                        other_lhh_count[row, col] - lhh_count[row, col]\n                    )\n                else:\n                    lhh_count[row, col] -= other_lhh_count[row, col]",
    kind="E")
add("scan-01-maxcount-first-row-only", ["C04", "C13"], "heavyhitters",
    "    max_count = uint32(0)\n    for row in range(depth):", "    max_count = uint32(0)\n    for row in range(1):", rules=["scan-all"])
add("scan-02-candidates-first-row-only", ["C04", "C13"], "heavyhitters",
    "        for row in range(self.depth):\n            for column in range(self.width):", "        for row in range(1):\n            for column in range(self.width):",
    rules=["scan-all"])
add("scan-03-skip-small-counts", ["C04", "C13"], "heavyhitters",
    "                if self.lhh_count[row, column] == 0:\n                    continue", "                if self.lhh_count[row, column] <= 1:\n                    continue",
    rules=["scan-all"])
add("maxcount-01-running-min", ["C03", "C04"], "heavyhitters",
    "            and lhh_count[row, col] > max_count\n", "            and lhh_count[row, col] < max_count\n", rules=["maxcount", "scan-all"])
add("maxcount-02-counts-non-matching-cells", ["C03"], "heavyhitters",
    "        if (\n            np.all(key_array == lhh[row, col])\n            and key_lens[row, col] == key_len\n            and lhh_count[row, col] > max_count\n        ):",
    "        if lhh_count[row, col] > max_count:", rules=["maxcount", "keyid"])
add("report-01-key-not-cut-to-length", ["C03", "C13"], "heavyhitters",
    "                key = bytes(self.lhh[row, column, :key_len])", "                key = bytes(self.lhh[row, column, :])", rules=["report", "same-kernel", "keynorm"])
add("report-02-count-from-cell", ["C13"], "heavyhitters",
    "                        self.candidate_set[key] = max_count", "                        self.candidate_set[key] = self.lhh_count[row, column]", rules=["same-kernel"])
add("cachekey-01-threshold-ignored", ["C13", "C04"], "heavyhitters",
    "        if (self.n_added_sort < self.n_added()) or (self.threshold_sort != threshold):", "        if self.n_added_sort < self.n_added():", rules=["cachekey"])
add("cachekey-02-threshold-not-recorded", ["C13", "C04"], "heavyhitters",
    "        self.threshold_sort = threshold\n", "", rules=["cachekey"])
add("cachekey-03-counter-reused", ["C13", "C04"], "heavyhitters",
    "        self.threshold_sort = threshold\n        self.candidate_set = Counter()\n", "        self.threshold_sort = threshold\n", rules=["cachekey"])
add("cachekey-04-nadded-ignored", ["C13", "C04"], "heavyhitters",
    "        if (self.n_added_sort < self.n_added()) or (self.threshold_sort != threshold):", "        if self.threshold_sort != threshold:", rules=["cachekey"])
add("cachekey-05-regenerate-with-default", ["C13"], "heavyhitters",
    "            self.generate_candidate_set(threshold)\n", "            self.generate_candidate_set()\n", rules=["cachekey"])
add("cachekey-06-and-for-or", ["C13", "C04"], "heavyhitters",
    "        if (self.n_added_sort < self.n_added()) or (self.threshold_sort != threshold):", "        if (self.n_added_sort < self.n_added()) and (self.threshold_sort != threshold):", rules=["cachekey"])
add("filter-01-strict", ["C13", "C04"], "heavyhitters",
    "                    if max_count >= threshold:", "                    if max_count > threshold:", rules=["filter"])
add("filter-02-default-threshold-differs", ["C13"], "heavyhitters",
    "        if threshold is None:\n            threshold = np.uint32(self.phi * self.n_added())\n        else:\n            threshold = np.uint32(threshold)\n\n        self.n_added_sort",
    "        if threshold is None:\n            threshold = np.uint32(self.phi * self.width)\n        else:\n            threshold = np.uint32(threshold)\n\n        self.n_added_sort", rules=["filter"])
add("topk-01-k-plus-one", ["C13", "C04"], "heavyhitters",
    "        return self.candidate_set.most_common(k)", "        return self.candidate_set.most_common(k + 1)", rules=["topk"])
add("mutators-01-merge-forgets-nadded", ["C13"], "heavyhitters",
    "    # Merge the special counters\n    n_added_records[0] += other_n_added_records[0]\n    n_added_records[1] += other_n_added_records[1]\n\n\n@njit(\n    uint32(",
    "    # Merge the special counters\n    n_added_records[1] += other_n_added_records[1]\n\n\n@njit(\n    uint32(", rules=["sumcounters", "mutators"])
add("E-cachekey-01-demorgan", ["C13"], "heavyhitters",
    "        if (self.n_added_sort < self.n_added()) or (self.threshold_sort != threshold):", "        if not (self.n_added_sort >= self.n_added() and self.threshold_sort == threshold):", kind="E")
add("E-cachekey-02-ne-for-lt", ["C13"], "heavyhitters",
    "        if (self.n_added_sort < self.n_added()) or (self.threshold_sort != threshold):", "        if (self.n_added_sort != self.n_added()) or (self.threshold_sort != threshold):", kind="E")
add("E-filter-01-flipped", ["C13"], "heavyhitters",
    "                    if max_count >= threshold:", "                    if threshold <= max_count:", kind="E")

# ---------------------------------------------------------------------------
# merge guards (C15)
# ---------------------------------------------------------------------------
G_LIN = "        if (\n            self.width != other.width\n            or self.depth != other.depth\n            or self.uint_maxval != other.uint_maxval\n        ):\n            raise TypeError(\"self and other have different width | depth | type\")"
G_LOG16 = "        if (\n            self.width != other.width\n            or self.depth != other.depth\n            or self.uint_maxval != other.uint_maxval\n            or self.max_count != other.max_count\n            or self.num_reserved != other.num_reserved\n        ):\n            raise TypeError(\n                \"self and other have different width|depth|type|max_count|num_reserved\"\n            )\n\n        _merge_log16("
G_LOG8 = G_LOG16.replace("_merge_log16(", "_merge_log8(")
G_HLL = "        if self.p != other.p or self.seed != other.seed:"
G_HH = "        if (\n            self.width != other.width\n            or self.depth != other.depth\n            or self.max_key_len != other.max_key_len\n        ):"
for i, (attr, line) in enumerate([("width", "            self.width != other.width\n            or "), ("depth", "            or self.depth != other.depth\n"),
                                  ("uint_maxval", "            or self.uint_maxval != other.uint_maxval\n")]):
    add("guard-lin-%s" % attr, ["C15"], "countmin", G_LIN, G_LIN.replace(line, "            " if i == 0 else ""), rules=["guard-set"])
for attr in ("width", "depth", "uint_maxval", "max_count", "num_reserved"):
    line = "            self.width != other.width\n            or " if attr == "width" else "            or self.%s != other.%s\n" % (attr, attr)
    add("guard-log16-%s" % attr, ["C15"], "countmin", G_LOG16, G_LOG16.replace(line, "            " if attr == "width" else ""), rules=["guard-set"])
    add("guard-log8-%s" % attr, ["C15"], "countmin", G_LOG8, G_LOG8.replace(line, "            " if attr == "width" else ""), rules=["guard-set"])
add("guard-hll-seed", ["C15"], "hyperloglog", G_HLL, "        if self.p != other.p:", rules=["guard-set"])
add("guard-hll-p", ["C15"], "hyperloglog", G_HLL, "        if self.seed != other.seed:", rules=["guard-set"])
add("guard-hh-maxkeylen", ["C15"], "heavyhitters", G_HH, G_HH.replace("            or self.max_key_len != other.max_key_len\n", ""), rules=["guard-set"])
add("guard-hh-width", ["C15"], "heavyhitters", G_HH, G_HH.replace("            self.width != other.width\n            or ", "            "), rules=["guard-set"])
add("guard-hh-depth", ["C15"], "heavyhitters", G_HH, G_HH.replace("            or self.depth != other.depth\n", ""), rules=["guard-set"])
add("guard-hh-extra-phi", ["C15"], "heavyhitters", G_HH, G_HH.replace("            or self.max_key_len != other.max_key_len\n", "            or self.max_key_len != other.max_key_len\n            or self.phi != other.phi\n"), rules=["guard-set"])
add("guard-log8-order", ["C15"], "countmin", G_LOG8,
    G_LOG8.replace("            or self.uint_maxval != other.uint_maxval\n            or self.max_count != other.max_count\n", "            or self.max_count != other.max_count\n            or self.uint_maxval != other.uint_maxval\n"), rules=["guard-order"])
add("guard-hll-statement-before", ["C15"], "hyperloglog", G_HLL, "        self.registers[0] = max(self.registers[0], other.registers[0])\n" + G_HLL, rules=["guard-first"])
add("guard-lin-valueerror", ["C15"], "countmin", G_LIN, G_LIN.replace("raise TypeError(", "raise ValueError("), rules=["guard-first"])
add("guard-hh-and-for-or", ["C15"], "heavyhitters", G_HH, G_HH.replace("            or self.depth", "            and self.depth"), rules=["guard-set"])
add("guard-hll-seed-truncated-attr", ["C15", "C02", "C10"], "hyperloglog", "        self.seed = np.uint64(seed)", "        self.seed = np.uint32(seed)", rules=["attr-type", "ctor-attr", "lossless-args"])
add("E-guard-lin-reordered", ["C15"], "countmin", G_LIN,
    G_LIN.replace("            self.width != other.width\n            or self.depth != other.depth\n", "            self.depth != other.depth\n            or self.width != other.width\n"), kind="E")
add("E-guard-hll-demorgan", ["C15"], "hyperloglog", G_HLL, "        if not (self.p == other.p and self.seed == other.seed):", kind="E")
add("E-guard-hh-flipped-operands", ["C15"], "heavyhitters", G_HH, G_HH.replace("self.depth != other.depth", "other.depth != self.depth"), kind="E")

# ---------------------------------------------------------------------------
# save / load (C10, C20)
# ---------------------------------------------------------------------------
add("persist-01-linear-load-drops-counters", ["C10"], "countmin",
    "            cms = CountMinLinear(*args, shared_memory=shared_memory)\n            np.copyto(cms.cms, npzfile[\"cms\"])\n            np.copyto(cms.n_added_records, npzfile[\"n_added_records\"])\n",
    "            cms = CountMinLinear(*args, shared_memory=shared_memory)\n            np.copyto(cms.cms, npzfile[\"cms\"])\n", rules=["persist-table"])
add("persist-02-log16-save-drops-counters", ["C10"], "countmin",
    "            args=np.array([self.width, self.depth, self.max_count, self.num_reserved]),\n            n_added_records=self.n_added_records,\n",
    "            args=np.array([self.width, self.depth, self.max_count, self.num_reserved]),\n", rules=["persist-table"])
add("persist-03-hh-member-renamed-on-one-side", ["C10"], "heavyhitters",
    "            key_lens=self.key_lens,\n", "            keylens=self.key_lens,\n", rules=["persist-table"])
add("persist-04-hh-load-swaps-members", ["C10"], "heavyhitters",
    "            np.copyto(hh.key_lens, npzfile[\"key_lens\"])", "            np.copyto(hh.key_lens, npzfile[\"lhh\"])", rules=["persist-table"])
add("persist-05-hll-load-no-copy", ["C10"], "hyperloglog",
    "            np.copyto(hll.registers, npzfile[\"hll\"])\n", "", rules=["persist-table"])
add("args-01-log16-swapped", ["C10"], "countmin",
    "            args=np.array([self.width, self.depth, self.max_count, self.num_reserved]),", "            args=np.array([self.width, self.depth, self.num_reserved, self.max_count]),", rules=["ctor-args"])
add("args-02-hll-swapped", ["C10"], "hyperloglog",
    "args=np.array([self.p, self.seed], np.uint64)", "args=np.array([self.seed, self.p], np.uint64)", rules=["ctor-args"])
add("args-03-hh-loader-wrong-index", ["C10"], "heavyhitters",
    "            max_key_len = np.uint64(args[2])", "            max_key_len = np.uint64(args[1])", rules=["ctor-args"])
add("args-04-hll-float-args", ["C10"], "hyperloglog",
    "args=np.array([self.p, self.seed], np.uint64)", "args=np.array([self.p, self.seed], np.float64)", rules=["lossless-args"])
add("args-05-log16-uint32-args", ["C10"], "countmin",
    "            args=np.array([self.width, self.depth, self.max_count, self.num_reserved]),", "            args=np.array([self.width, self.depth, self.max_count, self.num_reserved], np.uint32),", rules=["lossless-args"])
add("dispatch-01-uint16-to-log8", ["C10"], "countmin",
    "    elif cms_dtype == np.uint16:\n        return CountMinLog16.load(filename, shared_memory)", "    elif cms_dtype == np.uint16:\n        return CountMinLog8.load(filename, shared_memory)", rules=["dispatch"])
add("dispatch-02-log8-accepts-uint16", ["C10"], "countmin",
    "            if cms_dtype != np.uint8:", "            if cms_dtype != np.uint16:", rules=["dispatch"])
add("dispatch-03-log16-loader-no-check", ["C10"], "countmin",
    "            if cms_dtype != np.uint16:\n                raise TypeError(\"Saved sketch is not a CountMinLog16\")\n", "", rules=["dispatch"])
add("fwdshm-01-module-load-drops-flag", ["C10"], "countmin",
    "        return CountMinLinear.load(filename, shared_memory)", "        return CountMinLinear.load(filename)", rules=["fwd-shm"])
add("fwdshm-02-hh-load-ignores-flag", ["C10"], "heavyhitters",
    "                width, depth, max_key_len, phi, shared_memory=shared_memory\n", "                width, depth, max_key_len, phi\n", rules=["fwd-shm"])
add("postload-01-hh-no-regenerate", ["C10", "C13"], "heavyhitters",
    "        hh.generate_candidate_set()\n\n        return hh", "        return hh", rules=["post-load", "mutators"])
add("E-persist-01-savez-kwargs-reordered", ["C10"], "countmin",
    "            n_added_records=self.n_added_records,\n            cms=self.cms,\n            dtype=self.cms[0, 0],\n        )\n\n    @staticmethod\n    def load(filename: Union[str, Path], shared_memory: bool = False):\n        \"\"\"\n        Load a saved CountMinLinear",
    "            cms=self.cms,\n            dtype=self.cms[0, 0],\n            n_added_records=self.n_added_records,\n        )\n\n    @staticmethod\n    def load(filename: Union[str, Path], shared_memory: bool = False):\n        \"\"\"\n        Load a saved CountMinLinear", kind="E")
add("E-persist-02-npz-var-renamed", ["C10", "C20"], "hyperloglog",
    "        with np.load(filename) as npzfile:\n            args = npzfile[\"args\"]\n            hll = HyperLogLog(*args, shared_memory=shared_memory)\n            np.copyto(hll.registers, npzfile[\"hll\"])",
    "        with np.load(filename) as archive:\n            args = archive[\"args\"]\n            hll = HyperLogLog(*args, shared_memory=shared_memory)\n            np.copyto(hll.registers, archive[\"hll\"])", kind="E")
add("reader-01-hll-swallow", ["C20"], "hyperloglog",
    "        with np.load(filename) as npzfile:\n            args = npzfile[\"args\"]\n            hll = HyperLogLog(*args, shared_memory=shared_memory)\n            np.copyto(hll.registers, npzfile[\"hll\"])\n\n        return hll",
    "        try:\n            with np.load(filename) as npzfile:\n                args = npzfile[\"args\"]\n                hll = HyperLogLog(*args, shared_memory=shared_memory)\n                np.copyto(hll.registers, npzfile[\"hll\"])\n        except Exception:\n            return HyperLogLog(shared_memory=shared_memory)\n\n        return hll",
    rules=["no-swallow"])
add("reader-02-hll-fromfile", ["C20"], "hyperloglog",
    "            np.copyto(hll.registers, npzfile[\"hll\"])", "            np.copyto(hll.registers, np.fromfile(filename, np.uint8)[-int(hll.m):])", rules=["reader-api"])
add("reader-03-linear-allow-pickle", ["C20"], "countmin",
    "        with np.load(filename) as npzfile:\n            args = npzfile[\"args\"]\n            cms_dtype = npzfile[\"dtype\"].dtype\n            if cms_dtype != np.uint32:",
    "        with np.load(filename, allow_pickle=True) as npzfile:\n            args = npzfile[\"args\"]\n            cms_dtype = npzfile[\"dtype\"].dtype\n            if cms_dtype != np.uint32:", rules=["reader-api"])
add("reader-04-module-load-mmap", ["C20"], "countmin",
    "    with np.load(filename) as npzfile:\n        cms_dtype = npzfile[\"dtype\"].dtype\n\n    if", "    with np.load(filename, mmap_mode=\"r\") as npzfile:\n        cms_dtype = npzfile[\"dtype\"].dtype\n\n    if", rules=["reader-api"])
add("reader-05-hh-partial-on-error", ["C20"], "heavyhitters",
    "            np.copyto(hh.key_lens, npzfile[\"key_lens\"])\n            np.copyto(hh.n_added_records, npzfile[\"n_added_records\"])\n",
    "            try:\n                np.copyto(hh.key_lens, npzfile[\"key_lens\"])\n                np.copyto(hh.n_added_records, npzfile[\"n_added_records\"])\n            except Exception:\n                pass\n",
    rules=["no-swallow"])

# ---------------------------------------------------------------------------
# shared memory (C16)
# ---------------------------------------------------------------------------
add("layout-01-hh-attacher-swaps-segments", ["C16"], "heavyhitters",
    "        start = end\n        end += self.lhh_count.nbytes\n        self.lhh_count = np.frombuffer(\n            existing_shm.buf[start:end],\n            np.uint32,\n        ).reshape(self.depth, self.width)\n        start = end\n        end += self.key_lens.nbytes\n        self.key_lens = np.frombuffer(\n            existing_shm.buf[start:end],\n            np.uint8,\n        ).reshape(self.depth, self.width)",
    "        start = end\n        end += self.key_lens.nbytes\n        self.key_lens = np.frombuffer(\n            existing_shm.buf[start:end],\n            np.uint8,\n        ).reshape(self.depth, self.width)\n        start = end\n        end += self.lhh_count.nbytes\n        self.lhh_count = np.frombuffer(\n            existing_shm.buf[start:end],\n            np.uint32,\n        ).reshape(self.depth, self.width)",
    rules=["layout"])
add("layout-02-linear-size-2wd", ["C16"], "countmin",
    "            cms_size = int(4 * width * depth)", "            cms_size = int(2 * width * depth)", rules=["layout"])
add("layout-03-log16-size-4wd", ["C16"], "countmin",
    "            cms_size = int(2 * width * depth)", "            cms_size = int(4 * width * depth)", rules=["layout"])
add("layout-04-hh-creator-keylens-4bytes", ["C16"], "heavyhitters",
    "        key_lens_nbytes = int(1 * width * depth)", "        key_lens_nbytes = int(4 * width * depth)", rules=["layout"])
add("layout-05-hh-block-too-small", ["C16"], "heavyhitters",
    "                size=(lhh_nbytes + lhh_count_nbytes + key_lens_nbytes + n_added_nbytes),", "                size=(lhh_nbytes + lhh_count_nbytes + n_added_nbytes),", rules=["layout"])
add("layout-06-linear-attacher-counters-offset", ["C16"], "countmin",
    "            existing_shm.buf[self.cms.nbytes :], np.uint64", "            existing_shm.buf[self.cms.nbytes + 8 :], np.uint64", rules=["layout"])
add("layout-07-linear-attacher-transposed", ["C16"], "countmin",
    "        ).reshape(int(self.depth), int(self.width))", "        ).reshape(int(self.width), int(self.depth))", rules=["layout"])
add("layout-08-hh-attacher-count-uint16", ["C16"], "heavyhitters",
    "            existing_shm.buf[start:end],\n            np.uint32,\n        ).reshape(self.depth, self.width)\n        start = end\n        end += self.key_lens.nbytes",
    "            existing_shm.buf[start:end],\n            np.uint16,\n        ).reshape(self.depth, self.width)\n        start = end\n        end += self.key_lens.nbytes", rules=["layout"])
add("layout-09-hll-size-2m", ["C16"], "hyperloglog",
    "            self.shm = SharedMemory(create=True, size=int(self.m))", "            self.shm = SharedMemory(create=True, size=int(2 * self.m))", rules=["layout"])
add("alloc-01-log8-inmem-uint16", ["C16"], "countmin",
    "            self.cms = np.zeros((depth, width), np.uint8)", "            self.cms = np.zeros((depth, width), np.uint16)", rules=["alloc-agree", "ceil"])
add("alloc-02-hh-inmem-keylens-transposed", ["C16"], "heavyhitters",
    "            self.key_lens = np.zeros((self.depth, self.width), np.uint8)", "            self.key_lens = np.zeros((self.width, self.depth), np.uint8)", rules=["alloc-agree"])
add("owner-01-view-unlinks", ["C16"], "countmin",
    "                    self.existing_shm.close()\n", "                    self.existing_shm.close()\n                    self.existing_shm.unlink()\n", rules=["owner"])
add("owner-02-owner-never-unlinks", ["C16"], "hyperloglog",
    "                    self.shm.close()\n                    self.shm.unlink()\n", "                    self.shm.close()\n", rules=["owner"])
add("owner-03-attacher-assigns-shm", ["C16"], "heavyhitters",
    "        self.existing_shm = existing_shm\n", "        self.shm = existing_shm\n", rules=["owner"])
add("owner-04-hh-forgets-del-keylens", ["C16"], "heavyhitters",
    "                    del self.lhh_count\n                    del self.key_lens\n                    del self.n_added_records\n                    gc.collect()\n                    sleep(0.25)\n                    self.shm.close()",
    "                    del self.lhh_count\n                    del self.n_added_records\n                    gc.collect()\n                    sleep(0.25)\n                    self.shm.close()", rules=["owner"])
add("argsdict-01-log16-drops-num-reserved", ["C16"], "countmin",
    "            \"cms_type\": \"log16\",\n            \"width\": width,\n            \"depth\": depth,\n            \"max_count\": max_count,\n            \"num_reserved\": num_reserved,\n",
    "            \"cms_type\": \"log16\",\n            \"width\": width,\n            \"depth\": depth,\n            \"max_count\": max_count,\n", rules=["argsdict"])
add("argsdict-02-log8-says-log16", ["C16"], "countmin",
    "            \"cms_type\": \"log8\",", "            \"cms_type\": \"log16\",", rules=["argsdict"])
add("argsdict-03-hh-depth-is-width", ["C16"], "heavyhitters",
    "            \"depth\": depth,\n            \"max_key_len\": max_key_len,", "            \"depth\": width,\n            \"max_key_len\": max_key_len,", rules=["argsdict"])
add("argsdict-04-factory-swaps-args", ["C16"], "countmin",
    "            cms = CountMinLog8(width, depth, max_count, num_reserved, shared_memory)", "            cms = CountMinLog8(width, depth, num_reserved, max_count, shared_memory)", rules=["argsdict"])
add("attach-01-tag-table-cross", ["C16"], "helpers",
    "    elif sketch_type == \"hh\":\n        local_sketch = HeavyHitters(**sketch_args)\n    elif sketch_type == \"hll\":\n        local_sketch = HyperLogLog(**sketch_args)",
    "    elif sketch_type == \"hll\":\n        local_sketch = HeavyHitters(**sketch_args)\n    elif sketch_type == \"hh\":\n        local_sketch = HyperLogLog(**sketch_args)", rules=["attach-table"])
add("attach-02-worker-gets-other-block", ["C16", "C08"], "helpers",
    "            sketch.append((\"hh\", hh_array[i].args, hh_array[i].shm.name))", "            sketch.append((\"hh\", hh_array[i].args, hh_array[0].shm.name))", rules=["attach-table"])
add("E-layout-01-hh-size-factors-reordered", ["C16"], "heavyhitters",
    "        lhh_count_nbytes = int(4 * width * depth)", "        lhh_count_nbytes = int(depth * width * 4)", kind="E")
add("E-layout-02-linear-named-offset", ["C16"], "countmin",
    "        self.cms = np.frombuffer(\n            existing_shm.buf[: self.cms.nbytes], self.cms.dtype\n        ).reshape(int(self.depth), int(self.width))\n        self.n_added_records = np.frombuffer(\n            existing_shm.buf[self.cms.nbytes :], np.uint64\n        )",
    "        nbytes = self.cms.nbytes\n        self.cms = np.frombuffer(\n            existing_shm.buf[:nbytes], self.cms.dtype\n        ).reshape(int(self.depth), int(self.width))\n        self.n_added_records = np.frombuffer(\n            existing_shm.buf[nbytes:], np.uint64\n        )", kind="E")

# ---------------------------------------------------------------------------
# delegation / windows (C12)
# ---------------------------------------------------------------------------
add("deleg-01-linear-dict-ignores-value", ["C12"], "countmin",
    "            for key, value in keys.items():\n                self.add(key, value)", "            for key, value in keys.items():\n                self.add(key)", rules=["deleg"])
add("deleg-02-hh-dict-swapped", ["C12"], "heavyhitters",
    "            for key, value in keys.items():\n                self.add(key, value)", "            for key, value in keys.items():\n                self.add(value, key)", rules=["deleg"])
add("deleg-03-linear-list-dedup", ["C12"], "countmin",
    "        else:\n            for key in keys:\n                self.add(key)", "        else:\n            for key in set(keys):\n                self.add(key)", rules=["deleg"])
add("deleg-04-getitem-constant", ["C12"], "countmin",
    "        return self.query(key)", "        return self.query(key[:8])", rules=["deleg"])
add("deleg-05-update-ngram-fixed-n", ["C12"], "hyperloglog",
    "        for key in keys:\n            self.add_ngram(key, ngram)", "        for key in keys:\n            self.add_ngram(key, 4)", rules=["deleg"])
add("window-01-linear-one-window-short", ["C12", "C01", "C05"], "countmin",
    "        for i in range(key_len - (ngram - uint64(1))):\n            _add_linear(", "        for i in range(key_len - ngram):\n            _add_linear(", rules=["window"])
add("window-02-hll-slice-short", ["C12", "C02"], "hyperloglog",
    "            _add(registers, seed, p, m, key[i : i + ngram])", "            _add(registers, seed, p, m, key[i : i + ngram - 1])", rules=["window"])
add("window-03-hh-stride-two", ["C12", "C03", "C04"], "heavyhitters",
    "                key[i : i + ngram],\n                uint32(1),", "                key[2 * i : 2 * i + ngram],\n                uint32(1),", rules=["window"])
add("window-04-log8-short-key-dropped", ["C12"], "countmin",
    "    key_len = uint64(len(key))\n    if key_len <= ngram:\n        rand_ptr = _add_log8(", "    key_len = uint64(len(key))\n    if key_len == ngram:\n        rand_ptr = _add_log8(", rules=["window"])
add("window-05-log16-window-multiplicity-two", ["C12"], "countmin",
    "                key[i : i + ngram],\n                uint64(1),\n            )\n    return rand_ptr\n\n\n@njit(\n    types.void(\n        uint16[:, :],",
    "                key[i : i + ngram],\n                uint64(2),\n            )\n    return rand_ptr\n\n\n@njit(\n    types.void(\n        uint16[:, :],", rules=["window"])
add("window-06-hll-whole-key-sliced", ["C12", "C02"], "hyperloglog",
    "    if key_len <= ngram:\n        _add(registers, seed, p, m, key)", "    if key_len <= ngram:\n        _add(registers, seed, p, m, key[:ngram - 1])", rules=["window"])
add("valuefwd-01-log16-value-one", ["C12"], "countmin",
    "            self.rand_nums,\n            self.rand_ptr,\n            key,\n            value,\n        )\n\n    def add_ngram(self, key: bytes, ngram: int) -> None:\n        \"\"\"\n        Take a given `key` and split it into ngrams of size `ngram` and then\n        add the ngrams to the sketch. If the `key` length is less than `ngram`\n        then add the whole `key`\n\n        Parameters\n        ----------\n        key : bytes\n            Element to be shingled before adding to the sketch\n        ngram : int\n            ngram size\n\n        Returns\n        -------\n        None\n\n        \"\"\"\n        self.rand_ptr = _add_ngram_log16(",
    "            self.rand_nums,\n            self.rand_ptr,\n            key,\n            1,\n        )\n\n    def add_ngram(self, key: bytes, ngram: int) -> None:\n        \"\"\"\n        Take a given `key` and split it into ngrams of size `ngram` and then\n        add the ngrams to the sketch. If the `key` length is less than `ngram`\n        then add the whole `key`\n\n        Parameters\n        ----------\n        key : bytes\n            Element to be shingled before adding to the sketch\n        ngram : int\n            ngram size\n\n        Returns\n        -------\n        None\n\n        \"\"\"\n        self.rand_ptr = _add_ngram_log16(",
    rules=["value-fwd"])
add("E-window-01-lt-for-le", ["C12"], "hyperloglog",
    "    if key_len <= ngram:\n        _add(registers, seed, p, m, key)", "    if key_len < ngram:\n        _add(registers, seed, p, m, key)", kind="E")
add("E-window-02-loop-bound-rearranged", ["C12"], "heavyhitters",
    "        for i in range(key_len - (ngram - uint64(1))):", "        for i in range(key_len - ngram + uint64(1)):", kind="E")

# ---------------------------------------------------------------------------
# HyperLogLog state (C02) and estimator (C17)
# ---------------------------------------------------------------------------
add("join-01-merge-min", ["C02"], "hyperloglog", "        registers[i] = max(registers[i], other_registers[i])", "        registers[i] = min(registers[i], other_registers[i])", rules=["join"])
add("join-02-merge-overwrite", ["C02"], "hyperloglog", "        registers[i] = max(registers[i], other_registers[i])", "        registers[i] = other_registers[i]", rules=["join"])
add("join-03-add-overwrite", ["C02"], "hyperloglog", "    registers[reg_idx] = max(registers[reg_idx], rank)", "    registers[reg_idx] = rank", rules=["join"])
add("join-04-merge-neighbour", ["C02"], "hyperloglog", "        registers[i] = max(registers[i], other_registers[i])", "        registers[i] = max(registers[i], other_registers[m - 1 - i])", rules=["join"])
add("join-05-merge-skips-last", ["C02"], "hyperloglog", "    for i in range(m):\n        registers[i] = max(", "    for i in range(m - 1):\n        registers[i] = max(", rules=["cover"])
add("join-06-merge-writes-other", ["C02"], "hyperloglog", "        registers[i] = max(registers[i], other_registers[i])", "        registers[i] = max(registers[i], other_registers[i])\n        other_registers[i] = registers[i]", rules=["other-ro"])
add("indep-01-rank-depends-on-state", ["C02"], "hyperloglog", "    rank = _n_leading_zeros64(bits) - p + 1\n", "    rank = _n_leading_zeros64(bits) - p + 1 + (registers[0] & 1)\n", rules=["indep", "bits"])
add("bits-01-rank-plus-two", ["C02"], "hyperloglog", "    rank = _n_leading_zeros64(bits) - p + 1\n", "    rank = _n_leading_zeros64(bits) - p + 2\n", rules=["bits"])
add("bits-02-shift-p-minus-one", ["C02"], "hyperloglog", "    bits = hash_val >> p\n", "    bits = hash_val >> (p - 1)\n", rules=["bits", "hll-range"])
add("bits-03-index-mask-m", ["C02"], "hyperloglog", "    reg_idx = hash_val & uint64(m - 1)\n", "    reg_idx = hash_val & uint64(m)\n", rules=["bits"])
add("bits-04-hash-ignores-seed", ["C02"], "hyperloglog", "    hash_val = fasthash64(key, seed)\n", "    hash_val = fasthash64(key, 0)\n", rules=["bits"])
add("bits-05-m-two-p-plus-one", ["C02"], "hyperloglog", "        self.m = np.uint64(1) << self.p", "        self.m = np.uint64(2) << self.p", rules=["bits"])
add("bits-06-p-range-widened", ["C02", "C17"], "hyperloglog", "        if self.p > np.uint64(16) or self.p < np.uint64(7):", "        if self.p > np.uint64(18) or self.p < np.uint64(7):", rules=["ctor-range"])
NLZ = ["    y = x >> uint64(32)\n    if y != zero:\n        n = n - uint8(32)", "    y = x >> uint64(16)\n    if y != zero:\n        n = n - uint8(16)",
       "    y = x >> uint64(8)\n    if y != zero:\n        n = n - uint8(8)", "    y = x >> uint64(4)\n    if y != zero:\n        n = n - uint8(4)",
       "    y = x >> uint64(2)\n    if y != zero:\n        n = n - uint8(2)"]
for i, (blk, c) in enumerate(zip(NLZ, (32, 16, 8, 4, 2))):
    add("nlz-%02d-subtract-%d-off" % (i + 1, c), ["C02"], "hyperloglog", blk, blk.replace("n - uint8(%d)" % c, "n - uint8(%d)" % (c - 1)), rules=["nlz"])
add("nlz-06-shift-15", ["C02"], "hyperloglog", "    y = x >> uint64(16)", "    y = x >> uint64(15)", rules=["nlz"])
add("nlz-07-last-return", ["C02"], "hyperloglog", "    if y != zero:\n        return n - uint8(2)", "    if y != zero:\n        return n - uint8(1)", rules=["nlz"])
add("nlz-08-final-no-x", ["C02"], "hyperloglog", "    return n - uint8(x)", "    return n - uint8(1)", rules=["nlz"])
add("hll-mult-01-value-times", ["C02", "C12"], "hyperloglog", "        _add(self.registers, self.seed, self.p, self.m, key)\n\n    def update(", "        _add(self.registers, self.seed, self.p, self.m, key * value)\n\n    def update(", rules=["ignore-mult", "value-fwd"])
add("E-bits-01-mod-for-mask", ["C02"], "hyperloglog", "    reg_idx = hash_val & uint64(m - 1)\n", "    reg_idx = hash_val % m\n", kind="E")
add("E-join-01-guarded-form", ["C02"], "hyperloglog", "        registers[i] = max(registers[i], other_registers[i])", "        if other_registers[i] > registers[i]:\n            registers[i] = other_registers[i]", kind="E")
add("E-join-02-max-flipped", ["C02"], "hyperloglog", "    registers[reg_idx] = max(registers[reg_idx], rank)", "    registers[reg_idx] = max(rank, registers[reg_idx])", kind="E")

add("qtree-01-4m", ["C17"], "hyperloglog", "        if cardinality <= float64(5 * m):", "        if cardinality <= float64(4 * m):", rules=["qtree"])
add("qtree-02-threshold-ge", ["C17"], "hyperloglog", "        if cardinality > threshold:", "        if cardinality >= threshold:", rules=["qtree"])
add("qtree-03-5m-strict", ["C17"], "hyperloglog", "        if cardinality <= float64(5 * m):", "        if cardinality < float64(5 * m):", rules=["qtree"])
add("qtree-04-interp-args-swapped", ["C17"], "hyperloglog", "            bias = np.interp(est, raw_estimate, bias_data)", "            bias = np.interp(est, bias_data, raw_estimate)", rules=["qtree"])
add("qtree-05-bias-added", ["C17"], "hyperloglog", "            cardinality = est - bias", "            cardinality = est + bias", rules=["qtree"])
add("qtree-06-no-correction-when-no-zero", ["C17"], "hyperloglog", "            bias = np.interp(cardinality, raw_estimate, bias_data)\n            cardinality = cardinality - bias", "            pass", rules=["qtree"])
add("qtree-07-nzero-from-count", ["C17"], "hyperloglog", "    n_zero = m - uint64(np.count_nonzero(registers))", "    n_zero = uint64(np.count_nonzero(registers))", rules=["qtree", "forms"])
add("forms-01-lc-log-inverted", ["C17"], "hyperloglog", "    return float64(m) * np.log(float64(m) / float64(n_zero))", "    return float64(m) * np.log(float64(n_zero) / float64(m))", rules=["forms"])
add("forms-02-est-m-not-squared", ["C17"], "hyperloglog", "    return alpha * float64(m**2) / total", "    return alpha * float64(m) / total", rules=["forms"])
add("forms-03-est-positive-exponent", ["C17"], "hyperloglog", "        total += 2.0 ** (-float64(r))", "        total += 2.0 ** (float64(r))", rules=["forms"])
add("alpha-01-constant", ["C17"], "hyperloglog", "0.7213 / (1.0 + 1.079 / self.m)", "0.7123 / (1.0 + 1.079 / self.m)", rules=["alpha"])
add("alpha-02-constant2", ["C17"], "hyperloglog", "0.7213 / (1.0 + 1.079 / self.m)", "0.7213 / (1.0 + 1.097 / self.m)", rules=["alpha"])
add("tabidx-01-bias-row-p-6", ["C17"], "hyperloglog", "        self.bias_data = bias_data[int(self.p) - 7, :]", "        self.bias_data = bias_data[int(self.p) - 6, :]", rules=["tabidx"])
add("tabidx-02-raw-from-bias-table", ["C17"], "hyperloglog", "        self.raw_estimate = raw_estimate[int(self.p) - 7, :]", "        self.raw_estimate = bias_data[int(self.p) - 7, :]", rules=["tabidx"])
add("tabidx-03-threshold-fixed-row", ["C17"], "hyperloglog", "        self.threshold = sub_algorithm_threshold[int(self.p) - 7]", "        self.threshold = sub_algorithm_threshold[3]", rules=["tabidx"])
add("tabidx-04-query-args-swapped", ["C17"], "hyperloglog", "            self.raw_estimate,\n            self.bias_data,\n        )", "            self.bias_data,\n            self.raw_estimate,\n        )", rules=["bind"])
add("E-qtree-01-m-times-5", ["C17"], "hyperloglog", "        if cardinality <= float64(5 * m):", "        if cardinality <= float64(m * 5):", kind="E")
add("E-qtree-02-nzero-ne-0", ["C17"], "hyperloglog", "    if n_zero > 0:", "    if n_zero != 0:", kind="E")
add("E-qtree-03-flipped-threshold-test", ["C17"], "hyperloglog", "        if cardinality > threshold:", "        if threshold < cardinality:", kind="E")
add("E-forms-01-m-times-m", ["C17"], "hyperloglog", "    return alpha * float64(m**2) / total", "    return alpha * float64(m * m) / total", kind="E")

# ---------------------------------------------------------------------------
# C14 seedrow
# ---------------------------------------------------------------------------
add("seedrow-01-log16-constant-seed", ["C14", "C05"], "countmin",
    "def _query_log16(cms, buckets, width, depth, uint_maxval, key):\n    min_count = uint_maxval\n    for row in range(depth):\n        buckets[row] = fasthash64(key, row) % width",
    "def _query_log16(cms, buckets, width, depth, uint_maxval, key):\n    min_count = uint_maxval\n    for row in range(depth):\n        buckets[row] = fasthash64(key, 7) % width", rules=["seedrow", "qmin"])
add("seedrow-02-log8-seed-row-halved", ["C14"], "countmin",
    "def _query_log8(cms, buckets, width, depth, uint_maxval, key):\n    min_count = uint_maxval\n    for row in range(depth):\n        buckets[row] = fasthash64(key, row) % width",
    "def _query_log8(cms, buckets, width, depth, uint_maxval, key):\n    min_count = uint_maxval\n    for row in range(depth):\n        buckets[row] = fasthash64(key, row // 2) % width", rules=["seedrow"])
add("seedrow-03-hh-add-constant-seed", ["C14", "C04"], "heavyhitters",
    "    for row in range(depth):\n        col = fasthash64(key, row) % width\n        if np.all(key_array == lhh[row, col]) and key_lens",
    "    for row in range(depth):\n        col = fasthash64(key, 0) % width\n        if np.all(key_array == lhh[row, col]) and key_lens", rules=["seedrow", "addr"])
add("seedrow-04-hh-max-seed-depth", ["C14", "C04"], "heavyhitters",
    "    max_count = uint32(0)\n    for row in range(depth):\n        col = fasthash64(key, row) % width", "    max_count = uint32(0)\n    for row in range(depth):\n        col = fasthash64(key, depth) % width",
    rules=["seedrow", "addr"])
add("seedrow-05-hash-hoisted-out-of-loop", ["C14"], "heavyhitters",
    "    max_count = uint32(0)\n    for row in range(depth):\n        col = fasthash64(key, row) % width", "    max_count = uint32(0)\n    col = fasthash64(key, 0) % width\n    for row in range(depth):",
    rules=["seedrow"])
add("E-seedrow-01-seed-offset", ["C14"], "heavyhitters",
    "    max_count = uint32(0)\n    for row in range(depth):\n        col = fasthash64(key, row) % width", "    max_count = uint32(0)\n    for row in range(depth):\n        h = fasthash64(key, row)\n        col = h % width",
    kind="E")

# ---------------------------------------------------------------------------
# C06 randtoken / batchconst / expo
# ---------------------------------------------------------------------------
add("randtoken-01-log-counter-drops-pointer", ["C06"], "countmin",
    "            rand, rand_ptr = _rand(rand_nums, rand_ptr)", "            rand, _unused = _rand(rand_nums, rand_ptr)", rules=["randtoken"])
add("randtoken-02-add-log16-drops-pointer", ["C06"], "countmin",
    "    new_count, rand_ptr = _log_counter(\n        min_count, num_reserved, uint_maxval, base, rand_nums, rand_ptr, value\n    )\n    # Nothing to do",
    "    new_count, _p = _log_counter(\n        min_count, num_reserved, uint_maxval, base, rand_nums, rand_ptr, value\n    )\n    # Nothing to do", rules=["randtoken"])
add("randtoken-03-ngram-log8-loop-drops-pointer", ["C06"], "countmin",
    "        for i in range(key_len - (ngram - uint64(1))):\n            rand_ptr = _add_log8(", "        for i in range(key_len - (ngram - uint64(1))):\n            _ignored = _add_log8(", rules=["randtoken"])
add("randtoken-04-method-log16-add-drops", ["C06"], "countmin",
    "        self.rand_ptr = _add_log16(\n            self.cms,", "        _add_log16(\n            self.cms,", rules=["randtoken"])
add("randtoken-05-method-log8-ngram-drops", ["C06"], "countmin",
    "        self.rand_ptr = _add_ngram_log8(", "        _p = _add_ngram_log8(", rules=["randtoken"])
add("randtoken-06-add-log8-returns-stale", ["C06"], "countmin",
    "    # Reminder that this is a uint16 value so cast to uint8\n    new_count = uint8(new_count)\n    # Nothing to do\n    if new_count == min_count:\n        return rand_ptr",
    "    # Reminder that this is a uint16 value so cast to uint8\n    new_count = uint8(new_count)\n    # Nothing to do\n    if new_count == min_count:\n        return uint64(0)", rules=["randtoken"])
add("randtoken-07-log-counter-passes-zero", ["C06"], "countmin",
    "            rand, rand_ptr = _rand(rand_nums, rand_ptr)", "            rand, rand_ptr = _rand(rand_nums, uint64(0))", rules=["randtoken"])
add("batch-01-refill-smaller", ["C06"], "countmin", "        rand_batch[:] = np.random.rand(2048)", "        rand_batch[:] = np.random.rand(1024)", rules=["batchconst"])
add("batch-02-test-larger", ["C06"], "countmin", "    if rand_ptr == uint64(2048):", "    if rand_ptr == uint64(4096):", rules=["batchconst"])
add("batch-03-log8-ctor-batch", ["C06"], "countmin",
    "        self.rand_ptr = 0\n        self.rand_nums = self.rng.random(2048)\n\n        if shared_memory:\n            cms_size = int(1 * width * depth)",
    "        self.rand_ptr = 0\n        self.rand_nums = self.rng.random(1024)\n\n        if shared_memory:\n            cms_size = int(1 * width * depth)", rules=["batchconst"])
add("batch-04-no-refill-wraps", ["C06"], "countmin",
    "        rand_batch[:] = np.random.rand(2048)\n        rand_ptr = uint64(1)", "        rand_ptr = uint64(1)", rules=["batchconst"])
add("batch-05-reads-post-increment", ["C06"], "countmin", "    return rand_batch[rand_ptr - uint64(1)], rand_ptr", "    return rand_batch[rand_ptr], rand_ptr", rules=["batchconst"])
add("batch-06-pointer-not-advanced", ["C06"], "countmin", "    else:\n        rand_ptr += uint64(1)\n    return rand_batch", "    else:\n        rand_ptr += uint64(0)\n    return rand_batch", rules=["batchconst"])
add("expo-01-probability-full-counter", ["C06"], "countmin",
    "            if rand < base ** (-cprime):", "            if rand < base ** (-float64(counter)):", rules=["expo"])
add("expo-02-decoder-exponent-counter", ["C06"], "countmin",
    "        cprime = float64(counter - num_reserved)\n        return (base**cprime - 1.0) / (base - 1.0) + float64(num_reserved)",
    "        cprime = float64(counter)\n        return (base**cprime - 1.0) / (base - 1.0) + float64(num_reserved)", rules=["expo"])
add("expo-03-probability-positive-exponent", ["C06"], "countmin", "            if rand < base ** (-cprime):", "            if rand < base ** (cprime):", rules=["expo"])
add("expo-04-test-inverted", ["C06"], "countmin", "            if rand < base ** (-cprime):", "            if rand > base ** (-cprime):", rules=["expo"])
add("expo-05-decoder-not-geometric", ["C06"], "countmin",
    "        return (base**cprime - 1.0) / (base - 1.0) + float64(num_reserved)", "        return base**cprime + float64(num_reserved)", rules=["expo"])
add("expo-06-decoder-range-lt", ["C06"], "countmin", "    if counter <= num_reserved:\n        return float64(counter)", "    if counter < num_reserved - 1:\n        return float64(counter)", rules=["expo"])
add("E-randtoken-01-renamed-pointer-local", ["C06"], "countmin",
    "            rand, rand_ptr = _rand(rand_nums, rand_ptr)\n            if rand < base ** (-cprime):", "            draw, rand_ptr = _rand(rand_nums, rand_ptr)\n            if draw < base ** (-cprime):", kind="E")

# ---------------------------------------------------------------------------
# C09 merge
# ---------------------------------------------------------------------------
add("merge-01-linear-max", ["C09", "C01"], "countmin",
    "                cms[row, col] += other_cms[row, col]\n    # Merge the special counters", "                cms[row, col] = max(cms[row, col], other_cms[row, col])\n    # Merge the special counters", rules=["msum"])
add("merge-02-linear-writes-other", ["C09"], "countmin",
    "                cms[row, col] += other_cms[row, col]\n    # Merge the special counters", "                cms[row, col] += other_cms[row, col]\n                other_cms[row, col] = cms[row, col]\n    # Merge the special counters", rules=["other-ro"])
add("merge-03-log16-forgets-nrecords", ["C09", "C08"], "countmin",
    "                    cms[row, col] = clower + uint16(1)\n\n    # Merge the special counters\n    n_added_records[0] += other_n_added_records[0]\n    n_added_records[1] += other_n_added_records[1]",
    "                    cms[row, col] = clower + uint16(1)\n\n    # Merge the special counters\n    n_added_records[0] += other_n_added_records[0]", rules=["sumcounters", "nrecs"])
add("merge-04-log8-always-rounds-down", ["C09"], "countmin",
    "                if delta / (vhigher - vlower) <= 0.5:\n                    cms[row, col] = clower\n                else:\n                    cms[row, col] = clower + uint8(1)",
    "                if delta / (vhigher - vlower) <= 1.5:\n                    cms[row, col] = clower\n                else:\n                    cms[row, col] = clower + uint8(1)", rules=["logmerge-shape"])
add("merge-05-log16-decodes-other-with-cms", ["C09"], "countmin",
    "            v = _counter2value(cms[row, col], num_reserved, base) + _counter2value(\n                other_cms[row, col], num_reserved, base\n            )\n            # If less than num_reserved, then c = v\n            if v <= num_reserved:\n                cms[row, col] = uint16(v)",
    "            v = _counter2value(cms[row, col], num_reserved, base) + _counter2value(\n                cms[row, col], num_reserved, base\n            )\n            # If less than num_reserved, then c = v\n            if v <= num_reserved:\n                cms[row, col] = uint16(v)", rules=["logmerge-shape"])
add("merge-06-log8-reserved-guard-lt", ["C09"], "countmin",
    "            if v <= num_reserved:\n                cms[row, col] = uint8(v)", "            if v <= num_reserved - 1:\n                cms[row, col] = uint8(v)", rules=["logmerge-shape"])
add("merge-07-log16-reencode-wrong-inverse", ["C09"], "countmin",
    "                cprime = np.log((v - num_reserved) * (base - 1.0) + 1.0) / np.log(base)\n                cprime = uint16(cprime)",
    "                cprime = np.log((v - num_reserved) * (base - 1.0)) / np.log(base)\n                cprime = uint16(cprime)", rules=["logmerge-shape"])
add("merge-08-linear-col-skips-last", ["C09", "C01"], "countmin",
    "    for row in prange(depth):\n        for col in range(width):\n            if other_cms[row, col] > uint_maxval - cms[row, col]:", "    for row in prange(depth):\n        for col in range(width - 1):\n            if other_cms[row, col] > uint_maxval - cms[row, col]:", rules=["cover"])
add("merge-09-log8-prange-writes-row0", ["C09"], "countmin",
    "            elif v >= max_count:\n                cms[row, col] = uint_maxval\n            else:\n                cprime = np.log((v - num_reserved) * (base - 1.0) + 1.0) / np.log(base)\n                cprime = uint8(cprime)",
    "            elif v >= max_count:\n                cms[0, col] = uint_maxval\n            else:\n                cprime = np.log((v - num_reserved) * (base - 1.0) + 1.0) / np.log(base)\n                cprime = uint8(cprime)", rules=["cover"])
add("E-merge-01-log8-half-test-rearranged", ["C09"], "countmin",
    "                if delta / (vhigher - vlower) <= 0.5:\n                    cms[row, col] = clower\n                else:\n                    cms[row, col] = clower + uint8(1)",
    "                if 2.0 * delta <= vhigher - vlower:\n                    cms[row, col] = clower\n                else:\n                    cms[row, col] = clower + uint8(1)", kind="E")

# ---------------------------------------------------------------------------
# C11 hashes
# ---------------------------------------------------------------------------
add("pure-01-fasthash-cache", ["C11"], "hashes",
    "    m = uint64(0x880355F21E6D1965)\n\n    key_len = uint64(len(key))", "    m = uint64(0x880355F21E6D1965) + uint64(id(key) & 0)\n\n    key_len = uint64(len(key))", rules=["pure"])
add("pure-02-murmur-random-salt", ["C11"], "hashes", "    h = seed\n    c1 = uint32(0xCC9E2D51)", "    h = seed ^ uint32(np.random.randint(1))\n    c1 = uint32(0xCC9E2D51)", rules=["pure"])
add("blocksize-01-fasthash-mask-3", ["C11"], "hashes", "    switch_case = key_len & 7", "    switch_case = key_len & 3", rules=["blocksize", "bytes-once"])
add("blocksize-02-murmur-div-8", ["C11"], "hashes", "    nblocks = key_len // 4  # How many 4-byte blocks are there", "    nblocks = key_len // 8", rules=["blocksize"])
add("blocksize-03-murmur-blocks-as-uint16", ["C11"], "hashes", "    blocks = np.frombuffer(key[: nblocks * 4], np.uint32)", "    blocks = np.frombuffer(key[: nblocks * 4], np.uint16)", rules=["blocksize"])
add("blocksize-04-fasthash-tail-offset", ["C11"], "hashes", "    if switch_case == 7:\n        tail = key[nblocks * 8 :]", "    if switch_case == 7:\n        tail = key[nblocks * 8 + 1 :]", rules=["blocksize"])
add("blockloop-01-murmur-skips-last-block", ["C11"], "hashes", "    for i in range(nblocks):\n        k1 = blocks[i]", "    for i in range(nblocks - 1):\n        k1 = blocks[i]", rules=["blockloop"])
add("blockloop-02-murmur-always-block0", ["C11"], "hashes", "    for i in range(nblocks):\n        k1 = blocks[i]", "    for i in range(nblocks):\n        k1 = blocks[0]", rules=["blockloop"])
add("blockloop-03-fasthash-first-two-blocks", ["C11"], "hashes", "        for v in blocks:\n            h ^= _fhmix64(v)", "        for v in blocks[:2]:\n            h ^= _fhmix64(v)", rules=["blockloop"])
add("bytes-01-fasthash-tail4-shift24", ["C11"], "hashes",
    "        v = _xor_shiftl(v, tail[6], 48)\n        v = _xor_shiftl(v, tail[5], 40)\n        v = _xor_shiftl(v, tail[4], 32)", "        v = _xor_shiftl(v, tail[6], 48)\n        v = _xor_shiftl(v, tail[5], 40)\n        v = _xor_shiftl(v, tail[4], 24)", rules=["bytes-once"])
add("bytes-02-fasthash-residue5-dup-byte", ["C11"], "hashes",
    "    elif switch_case == 5:\n        tail = key[nblocks * 8 :]\n        v = uint64(0)\n        v = _xor_shiftl(v, tail[4], 32)\n        v = _xor_shiftl(v, tail[3], 24)\n        v = _xor_shiftl(v, tail[2], 16)",
    "    elif switch_case == 5:\n        tail = key[nblocks * 8 :]\n        v = uint64(0)\n        v = _xor_shiftl(v, tail[4], 32)\n        v = _xor_shiftl(v, tail[3], 24)\n        v = _xor_shiftl(v, tail[1], 16)", rules=["bytes-once"])
add("bytes-03-murmur-residue2-missing-byte", ["C11"], "hashes",
    "    elif switch_len == 2:\n        k1 = _xor32(k1, _shift32l(tail[1], 8))\n        k1 = _xor32(k1, tail[0])", "    elif switch_len == 2:\n        k1 = _xor32(k1, tail[0])", rules=["bytes-once"])
add("bytes-04-murmur-residue1-branch-dropped", ["C11"], "hashes",
    "    elif switch_len == 1:\n        k1 = _xor32(k1, tail[0])\n        k1 *= c1\n        k1 = _rotl32(k1, 15)\n        k1 *= c2\n        h = _xor32(h, k1)\n", "", rules=["bytes-once"])
add("bytes-05-fasthash-residue3-byte-order", ["C11"], "hashes",
    "    elif switch_case == 3:\n        tail = key[nblocks * 8 :]\n        v = uint64(0)\n        v = _xor_shiftl(v, tail[2], 16)\n        v = _xor_shiftl(v, tail[1], 8)\n        v ^= uint64(tail[0])",
    "    elif switch_case == 3:\n        tail = key[nblocks * 8 :]\n        v = uint64(0)\n        v = _xor_shiftl(v, tail[0], 16)\n        v = _xor_shiftl(v, tail[1], 8)\n        v ^= uint64(tail[2])", rules=["bytes-once"])
add("uwidth-01-fhmix-signed", ["C11"], "hashes", "@njit(uint64(uint64))\ndef _fhmix64(h):", "@njit(types.int64(types.int64))\ndef _fhmix64(h):", rules=["uwidth"])
add("uwidth-02-shift32r-64bit", ["C11"], "hashes", "@njit(uint32(uint32, uint32))\ndef _shift32r(x, y):", "@njit(uint64(uint64, uint64))\ndef _shift32r(x, y):", rules=["uwidth"])
add("uwidth-03-fasthash64-seed32", ["C11", "C02"], "hashes", "@njit(uint64(types.Bytes(types.uint8, 1, \"C\"), uint64))\ndef fasthash64(key, seed):", "@njit(uint64(types.Bytes(types.uint8, 1, \"C\"), uint32))\ndef fasthash64(key, seed):", rules=["uwidth"])
add("E-bytes-01-fasthash-lines-reordered", ["C11"], "hashes",
    "    elif switch_case == 2:\n        tail = key[nblocks * 8 :]\n        v = uint64(0)\n        v = _xor_shiftl(v, tail[1], 8)\n        v ^= uint64(tail[0])",
    "    elif switch_case == 2:\n        tail = key[nblocks * 8 :]\n        v = uint64(0)\n        v ^= uint64(tail[0])\n        v = _xor_shiftl(v, tail[1], 8)", kind="E")
add("E-blockloop-01-murmur-iterates-directly", ["C11"], "hashes", "    for i in range(nblocks):\n        k1 = blocks[i]", "    for k1 in blocks:", kind="E")

# ---------------------------------------------------------------------------
# parallel_add protocol (C08, C19)
# ---------------------------------------------------------------------------
add("pills-01-one-pill-short", ["C08"], "helpers", "    for _ in range(n_workers):\n        queue.put(None)", "    for _ in range(n_workers - 1):\n        queue.put(None)", rules=["pills"])
add("pills-02-item-put-twice", ["C08"], "helpers", "        queue.put(item)\n        try:", "        queue.put(item)\n        queue.put(item)\n        try:", rules=["pills"])
add("pills-03-items-filtered", ["C08"], "helpers", "        queue.put(item)\n        try:", "        if i % 7 != 6:\n            queue.put(item)\n        try:", rules=["pills"])
add("pills-04-extra-worker", ["C08"], "helpers", "    workers = []\n    for i in range(n_workers):", "    workers = []\n    for i in range(n_workers + 1):", rules=["pills"])
add("pills-05-pills-before-items", ["C08"], "helpers",
    "    for i, item in enumerate(items):\n        queue.put(item)\n        try:\n            item_str = str(item)\n        except:\n            item_str = str(i + i)\n        log_queue.put({\"level\": \"DEBUG\", \"text\": f\"{item_str} placed on the queue\"})\n\n    for _ in range(n_workers):\n        queue.put(None)\n",
    "    for _ in range(n_workers):\n        queue.put(None)\n    for i, item in enumerate(items):\n        queue.put(item)\n        try:\n            item_str = str(item)\n        except:\n            item_str = str(i + i)\n        log_queue.put({\"level\": \"DEBUG\", \"text\": f\"{item_str} placed on the queue\"})\n\n",
    rules=["pills"])
add("once-01-callback-twice", ["C08"], "helpers",
    "                n_recs = process_q_item(q_item, *local_sketches, **kwargs)\n", "                n_recs = process_q_item(q_item, *local_sketches, **kwargs)\n                n_recs = process_q_item(q_item, *local_sketches, **kwargs)\n", rules=["once"])
add("once-02-two-gets", ["C08"], "helpers",
    "        q_item = in_queue.get()\n        # Process a queue_item\n        if q_item is not None:", "        q_item = in_queue.get()\n        q_item = in_queue.get()\n        # Process a queue_item\n        if q_item is not None:", rules=["once"])
add("once-03-skips-every-falsy-item", ["C08"], "helpers",
    "        q_item = in_queue.get()\n        # Process a queue_item\n        if q_item is not None:", "        q_item = in_queue.get()\n        # Process a queue_item\n        if q_item:", rules=["once"])
add("nrecs-01-count-not-added-at-pill", ["C08"], "helpers",
    "                    local_sketch.n_added_records[1] += np.uint64(n_records)", "                    local_sketch.n_added_records[1] = np.uint64(n_records)", rules=["nrecs"])
add("nrecs-02-count-into-slot0", ["C08"], "helpers",
    "                    local_sketch.n_added_records[1] += np.uint64(n_records)", "                    local_sketch.n_added_records[0] += np.uint64(n_records)", rules=["nrecs"])
add("nrecs-03-hh-merge-drops-records", ["C08"], "heavyhitters",
    "    n_added_records[0] += other_n_added_records[0]\n    n_added_records[1] += other_n_added_records[1]\n\n\n@njit(\n    uint32(", "    n_added_records[0] += other_n_added_records[0]\n\n\n@njit(\n    uint32(", rules=["nrecs"])
add("nrecs-04-accumulate-one-per-item", ["C08"], "helpers", "            n_records += n_recs\n", "            n_records += 1\n", rules=["nrecs"])
add("join-01-merge-before-join", ["C08"], "helpers",
    "    # Wait for the workers to finish\n    for p in workers:\n        p.join()\n\n    if cms_args:", "    if cms_args:", rules=["joinfirst"])
add("join-02-joins-all-but-last", ["C08"], "helpers",
    "    # Wait for the workers to finish\n    for p in workers:\n        p.join()", "    # Wait for the workers to finish\n    for p in workers[:-1]:\n        p.join()", rules=["joinfirst"])
add("join-03-hh-merges-cms-array", ["C08"], "helpers", "        hh_final = parallel_merging(hh_array, log_queue)", "        hh_final = parallel_merging(cms_array, log_queue)", rules=["joinfirst"])
add("tree-01-survivors-drop-odd", ["C08"], "helpers", "        for i in range(0, n_to_merge, 2):\n            new_sketch_array.append(sketch_array[i])", "        for i in range(0, n_to_merge - 1, 2):\n            new_sketch_array.append(sketch_array[i])", rules=["mergetree"])
add("tree-02-pairs-shifted", ["C08"], "helpers",
    "            sketch1 = (sketch_type, sketch_args, sketch_array[i * 2].shm.name)\n            sketch2 = (sketch_type, sketch_args, sketch_array[i * 2 + 1].shm.name)",
    "            sketch1 = (sketch_type, sketch_args, sketch_array[i * 2 + 1].shm.name)\n            sketch2 = (sketch_type, sketch_args, sketch_array[i * 2 + 2].shm.name)", rules=["mergetree"])
add("tree-03-merge-direction-swapped", ["C08"], "helpers", "    s1.merge(s2)\n", "    s2.merge(s1)\n", rules=["mergetree"])
add("tree-04-overlapping-pairs", ["C08"], "helpers",
    "            sketch2 = (sketch_type, sketch_args, sketch_array[i * 2 + 1].shm.name)", "            sketch2 = (sketch_type, sketch_args, sketch_array[i + 1].shm.name)", rules=["mergetree"])
add("tree-05-pairs-one-fewer", ["C08"], "helpers", "        for i in range(n_to_merge // 2):\n            sketch1", "        for i in range((n_to_merge - 1) // 2):\n            sketch1", rules=["mergetree"])
add("tree-06-no-join", ["C08"], "helpers",
    "        for p in mergers:\n            p.join()\n            if p.exitcode < 0:\n                raise RuntimeError(f\"A _merge_worker had bad {p.exitcode=:}\")\n", "", rules=["mergetree"])
add("tree-07-returns-last", ["C08"], "helpers", "    return sketch_array[0]", "    return sketch_array[-1]", kind="E")
add("ret-01-swapped-pair", ["C08"], "helpers", "        return cms_final, hll_final\n", "        return hll_final, cms_final\n", rules=["rettable"])
add("ret-02-hh-hll-returns-hh-only", ["C08"], "helpers", "    elif hh_args and hll_args:\n        return hh_final, hll_final", "    elif hh_args and hll_args:\n        return hh_final", rules=["rettable"])
add("ret-03-order-of-tests", ["C08"], "helpers",
    "    if cms_args and hh_args and hll_args:\n        return cms_final, hh_final, hll_final\n    elif cms_args and hh_args:\n        return cms_final, hh_final",
    "    if cms_args and hh_args:\n        return cms_final, hh_final\n    elif cms_args and hh_args and hll_args:\n        return cms_final, hh_final, hll_final", rules=["rettable"])
add("cover-01-hh-merge-prange-col", ["C08"], "heavyhitters",
    "    for row in prange(depth):\n        for col in range(width):\n            keys_match", "    for row in prange(depth):\n        for col in range(width):\n            row = row * 0\n            keys_match", rules=["cover"])
add("E-pills-01-surplus-pill", ["C08"], "helpers", "    for _ in range(n_workers):\n        queue.put(None)", "    for _ in range(n_workers + 1):\n        queue.put(None)", kind="E")

add("cb-01-handler-reraises", ["C19"], "helpers", "            except Exception as exc:\n                n_recs = 0\n", "            except Exception as exc:\n                n_recs = 0\n                raise\n", rules=["cb-guard"])
add("cb-02-handler-counts-one", ["C19"], "helpers", "            except Exception as exc:\n                n_recs = 0\n", "            except Exception as exc:\n                n_recs = 1\n", rules=["cb-guard"])
add("cb-03-handler-stale-count", ["C19"], "helpers", "            except Exception as exc:\n                n_recs = 0\n", "            except Exception as exc:\n", rules=["cb-guard"])
add("cb-04-narrow-exception", ["C19"], "helpers", "            except Exception as exc:\n                n_recs = 0\n", "            except ValueError as exc:\n                n_recs = 0\n", rules=["cb-guard"])
add("cb-05-handler-returns", ["C19"], "helpers", "            except Exception as exc:\n                n_recs = 0\n", "            except Exception as exc:\n                n_recs = 0\n                return None\n", rules=["cb-guard", "once"])
add("cb-06-no-try", ["C19"], "helpers",
    "            try:\n                n_recs = process_q_item(q_item, *local_sketches, **kwargs)\n            except Exception as exc:\n                n_recs = 0\n                msg = f\"WORKER {worker_id:02} threw exception on {q_item}: {exc}\"\n                log_queue.put(\n                    {\n                        \"level\": \"ERROR\",\n                        \"text\": msg,\n                    }\n                )\n",
    "            n_recs = process_q_item(q_item, *local_sketches, **kwargs)\n", rules=["cb-guard"])
add("dead-01-negative-codes-only", ["C19"], "helpers", "            elif p.exitcode != 0:", "            elif p.exitcode < 0:", rules=["dead-detect"])
add("dead-02-no-queue-close", ["C19"], "helpers", "                # Now close all the queues\n                queue.close()\n                log_queue.close()\n", "", rules=["dead-raise"])
add("dead-03-no-worker-kill", ["C19"], "helpers", "                for worker in workers:\n                    worker.kill()\n", "", rules=["dead-cleanup"])
add("dead-04-filler-not-killed", ["C19"], "helpers", "                if fill_queue_process.exitcode is None:\n                    fill_queue_process.kill()\n", "", rules=["dead-cleanup"])
add("dead-05-monitor-first-worker-only", ["C19"], "helpers", "        for i, p in enumerate(workers):\n            # Still running", "        for i, p in enumerate(workers[:1]):\n            # Still running", rules=["dead-detect"])
add("dead-06-log-put-made-conditional", ["C19"], "helpers",
    "    # Send poison pill to the log_process\n    log_queue.put(None)", "    # Send poison pill to the log_process\n    if log_process.exitcode is None:\n        log_queue.put(None)", rules=["dead-raise"])
add("dead-07-only-work-queue-closed", ["C19"], "helpers", "                queue.close()\n                log_queue.close()\n", "                queue.close()\n", rules=["dead-raise"])
add("E-dead-01-explicit-raise", ["C19"], "helpers", "                queue.close()\n                log_queue.close()\n", "                queue.close()\n                log_queue.close()\n                raise RuntimeError(msg)\n", kind="E")
add("E-dead-02-not-eq-zero", ["C19"], "helpers", "            elif p.exitcode != 0:", "            elif not p.exitcode == 0:", kind="E")

# ---------------------------------------------------------------------------
# whole-package behaviour-preserving transformations (every property must stay silent)
# ---------------------------------------------------------------------------
import ast as _ast

ALL_PROPS = ["C%02d" % i for i in range(1, 21) if i != 7]


def _reformat(src):
    """ast round trip: drops comments, normalises layout, quotes, parentheses and line numbers."""
    out = dict(src)
    for k, v in src.items():
        if k in ("hll_constants", "hll_bias_experiment"):
            continue
        out[k] = _ast.unparse(_ast.parse(v)) + "\n"
    return out


class _Rename(_ast.NodeTransformer):
    """Rename kernel-local variables (not parameters, not globals) by appending a suffix."""

    def __init__(self, names):
        self.names = names

    def visit_Name(self, n):
        if n.id in self.names:
            return _ast.copy_location(_ast.Name(id=n.id + "_v", ctx=n.ctx), n)
        return n


def _rename_locals(src):
    out = dict(src)
    for k, v in src.items():
        if k in ("hll_constants", "hll_bias_experiment", "__init__"):
            continue
        tree = _ast.parse(v)
        for f in _ast.walk(tree):
            if isinstance(f, _ast.FunctionDef):
                params = {a.arg for a in f.args.args + f.args.kwonlyargs + f.args.posonlyargs}
                if f.args.vararg:
                    params.add(f.args.vararg.arg)
                if f.args.kwarg:
                    params.add(f.args.kwarg.arg)
                stores = {n.id for n in _ast.walk(f) if isinstance(n, _ast.Name) and isinstance(n.ctx, _ast.Store)} - params
                globs = set()
                for n in _ast.walk(f):
                    if isinstance(n, (_ast.Global, _ast.Nonlocal)):
                        globs |= set(n.names)
                # keep names the rules identify by role through the source text of other functions
                stores -= globs
                r = _Rename(stores)
                f.body = [r.visit(s) for s in f.body]
        out[k] = _ast.unparse(_ast.fix_missing_locations(tree)) + "\n"
    return out


def _blank_lines_and_comments(src):
    out = dict(src)
    for k, v in src.items():
        if k in ("hll_constants",):
            continue
        lines = v.split("\n")
        new = []
        for i, l in enumerate(lines):
            new.append(l)
            if l.strip().endswith(":") is False and l.strip() and not l.strip().startswith(("#", '"', "'")) and i % 7 == 0 \
                    and not l.rstrip().endswith(("(", ",", "[", "{", "\\")) and l.startswith("    ") and "\"\"\"" not in l:
                pass
        out[k] = "# reformatted\n\n" + v
    return out


def _package_transform(transform_func):
    """Apply an ast transformer factory to every function of every module of the package."""
    def run(src):
        out = dict(src)
        for k, v in src.items():
            if k in ("hll_constants", "hll_bias_experiment", "__init__"):
                continue
            tree = _ast.parse(v)
            tree = transform_func(tree)
            out[k] = _ast.unparse(_ast.fix_missing_locations(tree)) + "\n"
        return out
    return run


class _InvertIfElse(_ast.NodeTransformer):
    """`if c: A else: B`  ->  `if not c: B else: A`   (every if that has an else arm; elif chains become nested ifs)."""

    def visit_If(self, n):
        self.generic_visit(n)
        if n.orelse:
            return _ast.copy_location(_ast.If(test=_ast.UnaryOp(op=_ast.Not(), operand=n.test), body=n.orelse, orelse=n.body), n)
        return n


class _FlipCompares(_ast.NodeTransformer):
    """`a < b` -> `b > a`, `a <= b` -> `b >= a`, `a == b` -> `b == a`, `a != b` -> `b != a` (single comparisons of side-effect-free operands)."""
    FLIP = {_ast.Lt: _ast.Gt, _ast.Gt: _ast.Lt, _ast.LtE: _ast.GtE, _ast.GtE: _ast.LtE, _ast.Eq: _ast.Eq, _ast.NotEq: _ast.NotEq}

    def visit_Compare(self, n):
        self.generic_visit(n)
        if len(n.ops) == 1 and type(n.ops[0]) in self.FLIP and not any(isinstance(x, _ast.Call) and not (isinstance(x.func, _ast.Name) and x.func.id in ("len", "uint64", "uint32", "uint16", "uint8", "float64", "int")) and not (isinstance(x.func, _ast.Attribute) and x.func.attr in ("uint64", "uint32", "uint16", "uint8", "float64", "n_added", "all"))
                                                                  for x in _ast.walk(n)):
            return _ast.copy_location(_ast.Compare(left=n.comparators[0], ops=[self.FLIP[type(n.ops[0])]()], comparators=[n.left]), n)
        return n


class _ExplicitAug(_ast.NodeTransformer):
    """`a[i] op= v` -> `a[i] = a[i] op v` everywhere; `x op= v` -> `x = x op v` inside @njit kernels (scalars)."""

    def __init__(self):
        self.in_kernel = False

    def visit_FunctionDef(self, f):
        old = self.in_kernel
        self.in_kernel = any("njit" in _ast.unparse(d) for d in f.decorator_list)
        self.generic_visit(f)
        self.in_kernel = old
        return f

    def visit_AugAssign(self, n):
        import copy as _copy
        simple_index = isinstance(n.target, _ast.Subscript) and not any(isinstance(x, _ast.Call) for x in _ast.walk(n.target))
        if simple_index or (isinstance(n.target, _ast.Name) and self.in_kernel):
            load = _copy.deepcopy(n.target)
            for x in _ast.walk(load):
                if hasattr(x, "ctx"):
                    x.ctx = _ast.Load()
            load.ctx = _ast.Load()
            return _ast.copy_location(_ast.Assign(targets=[n.target], value=_ast.BinOp(left=load, op=n.op, right=n.value)), n)
        return n


def _rename_kernel_params(src):
    """Every parameter of every @njit kernel gets a new name (consistently inside the kernel; call sites are positional)."""
    out = dict(src)
    for k, v in src.items():
        if k in ("hll_constants", "hll_bias_experiment", "__init__"):
            continue
        tree = _ast.parse(v)
        for f in _ast.walk(tree):
            if isinstance(f, _ast.FunctionDef) and any("njit" in _ast.unparse(d) for d in f.decorator_list):
                names = {a.arg for a in f.args.args}
                for a in f.args.args:
                    a.arg = a.arg + "_p"
                r = _Rename(set())
                r.names = names

                class R(_ast.NodeTransformer):
                    def visit_Name(self, n):
                        if n.id in names:
                            return _ast.copy_location(_ast.Name(id=n.id + "_p", ctx=n.ctx), n)
                        return n
                f.body = [R().visit(s_) for s_ in f.body]
        # keyword call sites of kernels (none in the pinned tree) are left alone on purpose
        out[k] = _ast.unparse(_ast.fix_missing_locations(tree)) + "\n"
    return out


def _rename_private_functions(src):
    """Every private module-level function (`_name`) is renamed to `_name_impl` throughout the package (definitions, calls, imports)."""
    privates = set()
    for k, v in src.items():
        if k in ("hll_constants", "hll_bias_experiment", "__init__"):
            continue
        for n in _ast.parse(v).body:
            if isinstance(n, _ast.FunctionDef) and n.name.startswith("_") and not n.name.startswith("__"):
                privates.add(n.name)
    out = dict(src)
    for k, v in src.items():
        if k in ("hll_constants", "hll_bias_experiment", "__init__"):
            continue
        tree = _ast.parse(v)
        for n in _ast.walk(tree):
            if isinstance(n, _ast.FunctionDef) and n.name in privates and n in tree.body:
                n.name = n.name + "_impl"
            elif isinstance(n, _ast.Name) and n.id in privates:
                n.id = n.id + "_impl"
            elif isinstance(n, _ast.ImportFrom):
                for a in n.names:
                    if a.name in privates:
                        a.name = a.name + "_impl"
        out[k] = _ast.unparse(_ast.fix_missing_locations(tree)) + "\n"
    return out


class _RangeToWhile(_ast.NodeTransformer):
    """In kernels: `for i in range(n): body` (no continue/break in body, i and n not assigned in body) -> `i = 0; while i < n: body; i += 1`."""

    def __init__(self):
        self.in_kernel = False
        self.count = 0

    def visit_FunctionDef(self, f):
        old = self.in_kernel
        self.in_kernel = any("njit" in _ast.unparse(d) for d in f.decorator_list) and "prange" not in _ast.unparse(f)
        f.body = self.block(f.body)
        self.in_kernel = old
        return f

    def block(self, stmts):
        out = []
        for s_ in stmts:
            for fld in ("body", "orelse"):
                if hasattr(s_, fld) and isinstance(getattr(s_, fld), list) and not isinstance(s_, (_ast.FunctionDef, _ast.ClassDef)):
                    setattr(s_, fld, self.block(getattr(s_, fld)))
            if self.in_kernel and isinstance(s_, _ast.For) and isinstance(s_.iter, _ast.Call) and isinstance(s_.iter.func, _ast.Name) and s_.iter.func.id == "range" \
                    and len(s_.iter.args) == 1 and isinstance(s_.iter.args[0], _ast.Name) and isinstance(s_.target, _ast.Name) and not s_.orelse \
                    and not any(isinstance(x, (_ast.Continue, _ast.Break)) for x in _ast.walk(s_)) \
                    and not any(isinstance(x, _ast.Name) and x.id in (s_.target.id, s_.iter.args[0].id) and isinstance(x.ctx, _ast.Store) for b in s_.body for x in _ast.walk(b)):
                i, n = s_.target.id, s_.iter.args[0].id
                init = _ast.parse("%s = uint64(0)" % i).body[0]
                loop = _ast.parse("while %s < %s:\n    pass" % (i, n)).body[0]
                loop.body = list(s_.body) + [_ast.parse("%s += uint64(1)" % i).body[0]]
                out.extend([init, loop])
                self.count += 1
                continue
            out.append(s_)
        return out


class _MinMaxToCond(_ast.NodeTransformer):
    """`x = min(a, b)` -> `x = a if a < b else b` hmm: min returns the first on ties, the conditional the second: equal values, same result
    for the scalars involved; `x = max(a, b)` -> `x = a if a > b else b`.  Only two-argument builtin calls with call-free arguments."""

    def visit_Assign(self, n):
        import copy as _copy
        v = n.value
        if isinstance(v, _ast.Call) and isinstance(v.func, _ast.Name) and v.func.id in ("min", "max") and len(v.args) == 2 and not v.keywords \
                and not any(isinstance(x, _ast.Call) and not (isinstance(x.func, _ast.Name) and x.func.id.startswith(("uint", "int", "float"))) for a in v.args for x in _ast.walk(a)):
            a, b = v.args
            op = _ast.Lt() if v.func.id == "min" else _ast.Gt()
            n.value = _ast.IfExp(test=_ast.Compare(left=_copy.deepcopy(a), ops=[op], comparators=[_copy.deepcopy(b)]), body=a, orelse=b)
        return n


add("E-global-10-range-loops-as-while-loops", ALL_PROPS, "*", _package_transform(lambda t: _RangeToWhile().visit(t)), None, kind="E",
    note="in kernels without prange: for i in range(n) -> i = 0; while i < n: ...; i += 1")
add("E-global-11-min-max-as-conditional-expressions", ALL_PROPS, "*", _package_transform(lambda t: _MinMaxToCond().visit(t)), None, kind="E",
    note="x = min(a, b) -> x = a if a < b else b (and max)")
class _PadFunctions(_ast.NodeTransformer):
    """Every function gets a dead local assignment and an assertion that cannot fail as its first statements (after the docstring)."""

    def visit_FunctionDef(self, f):
        self.generic_visit(f)
        pre = _ast.parse("_zz_unused = 0\nassert _zz_unused == 0").body
        i = 1 if f.body and isinstance(f.body[0], _ast.Expr) and isinstance(f.body[0].value, _ast.Constant) and isinstance(f.body[0].value.value, str) else 0
        f.body = f.body[:i] + pre + f.body[i:]
        return f


add("E-global-12-dead-local-and-assert-in-every-function", ALL_PROPS, "*", _package_transform(lambda t: _PadFunctions().visit(t)), None, kind="E",
    note="every function starts with `_zz_unused = 0; assert _zz_unused == 0`")
def _perturb_bias(src):
    import re as _re
    t = src["hll_constants"]
    i = t.index("bias_data")
    m = _re.search(r"(\d+\.\d+)", t[i + 200:])
    if not m:
        return None
    a, b = i + 200 + m.start(1), i + 200 + m.end(1)
    out = dict(src)
    out["hll_constants"] = t[:a] + repr(float(m.group(1)) + 0.5) + t[b:]
    return out


def _respell_tables(src):
    out = dict(src)
    out["hll_constants"] = "# reformatted\n" + src["hll_constants"].replace(",\n", " ,\n")
    return out


add("tables-09-one-bias-value-changed", ["C17"], "*", _perturb_bias, None, rules=["tables"], note="one entry of the bias table shifted by 0.5")
add("E-tables-02-constant-tables-respelt", ["C17"], "*", _respell_tables, None, kind="E", note="layout of hll_constants.py changed, values intact")
add("E-once-03-worker-loop-governed-by-a-flag", ["C08", "C19"], "helpers",
    "    start = datetime.now()\n    while True:\n        q_item = in_queue.get()",
    "    start = datetime.now()\n    finished = False\n    while not finished:\n        q_item = in_queue.get()", kind="E",
    also=[("helpers", "            )\n            return None\n\n\ndef parallel_add(", "            )\n            finished = True\n\n\ndef parallel_add(")],
    note="the worker loop runs `while not finished:` and the pill branch sets the flag instead of returning")
add("once-09-flag-set-on-a-real-item", ["C08"], "helpers",
    "    start = datetime.now()\n    while True:\n        q_item = in_queue.get()",
    "    start = datetime.now()\n    finished = False\n    while not finished:\n        q_item = in_queue.get()\n        finished = q_item == b''",
    rules=["once"], note="a real (empty) item ends the worker loop")
add("E-report-02-key-respelt-with-tobytes", ["C03", "C04", "C13"], "heavyhitters",
    "                key = bytes(self.lhh[row, column, :key_len])", "                key = self.lhh[row, column].tobytes()[:key_len]", kind="E",
    note="the reported key built as lhh[r, c].tobytes()[:n] instead of bytes(lhh[r, c, :n])")
add("E-report-03-key-slice-tobytes", ["C03", "C04", "C13"], "heavyhitters",
    "                key = bytes(self.lhh[row, column, :key_len])", "                key = self.lhh[row, column, :key_len].tobytes()", kind="E")
add("early-05-linear-update-loop-breaks-after-64-rows", ["C01", "C05"], "countmin",
    "    for row in range(depth):\n        count = cms[row, buckets[row]]\n        if count < new_count:\n            cms[row, buckets[row]] = new_count\n\n\n@njit(\n    types.void(\n        uint32[:, :],\n        uint64[:],\n        uint64[:],\n        uint64,\n        uint64,\n        uint32,\n        types.Bytes(types.uint8, 1, \"C\"),\n        uint64,",
    "    for row in range(depth):\n        if row >= 64:\n            break\n        count = cms[row, buckets[row]]\n        if count < new_count:\n            cms[row, buckets[row]] = new_count\n\n\n@njit(\n    types.void(\n        uint32[:, :],\n        uint64[:],\n        uint64[:],\n        uint64,\n        uint64,\n        uint32,\n        types.Bytes(types.uint8, 1, \"C\"),\n        uint64,",
    note="the conservative update stops after 64 rows")
add("early-06-linear-merge-stops-at-column-4096", ["C09", "C01"], "countmin",
    "        for col in range(width):\n            if other_cms[row, col] > uint_maxval - cms[row, col]:",
    "        for col in range(width):\n            if col >= 4096:\n                break\n            if other_cms[row, col] > uint_maxval - cms[row, col]:",
    note="the linear merge ignores columns beyond 4096")
add("early-07-hll-merge-returns-at-first-equal-register", ["C02"], "hyperloglog",
    "    for i in range(m):\n        registers[i] = max(registers[i], other_registers[i])",
    "    for i in range(m):\n        if registers[i] == other_registers[i] and i > 1000:\n            return\n        registers[i] = max(registers[i], other_registers[i])",
    note="the register merge returns early")
add("skip-05-linear-merge-skips-odd-columns", ["C09", "C01"], "countmin",
    "        for col in range(width):\n            if other_cms[row, col] > uint_maxval - cms[row, col]:",
    "        for col in range(width):\n            if col % 2 == 1 and width > 4096:\n                continue\n            if other_cms[row, col] > uint_maxval - cms[row, col]:",
    note="the linear merge skips odd columns of very wide tables")
add("skip-06-hll-merge-skips-register-0", ["C02"], "hyperloglog",
    "    for i in range(m):\n        registers[i] = max(registers[i], other_registers[i])",
    "    for i in range(m):\n        if i == 0:\n            continue\n        registers[i] = max(registers[i], other_registers[i])",
    note="the register merge never merges register 0")
add("skip-07-hh-add-skips-row-1", ["C04"], "heavyhitters",
    "    for row in range(depth):\n        col = fasthash64(key, row) % width\n        if np.all(key_array == lhh[row, col]) and key_lens[row, col] == key_len:",
    "    for row in range(depth):\n        if row == 1 and depth > 7:\n            continue\n        col = fasthash64(key, row) % width\n        if np.all(key_array == lhh[row, col]) and key_lens[row, col] == key_len:",
    note="the heavy-hitter add leaves row 1 of deep sketches untouched")
add("skip-08-hh-merge-skips-last-column", ["C04", "C03"], "heavyhitters",
    "        for col in range(width):\n            keys_match = (np.all(lhh[row, col] == other_lhh[row, col])) and (",
    "        for col in range(width):\n            if col + 1 == width and width > 1000:\n                continue\n            keys_match = (np.all(lhh[row, col] == other_lhh[row, col])) and (",
    note="the heavy-hitter merge never merges the last column of wide sketches")
add("narrow-01-log-counter-value-uint32", ["C12", "C05"], "countmin",
    "        uint16, uint16, uint16, float64, float64[:], uint64, uint64\n    )\n)\ndef _log_counter(",
    "        uint16, uint16, uint16, float64, float64[:], uint64, uint32\n    )\n)\ndef _log_counter(",
    note="the bulk step's multiplicity parameter is typed uint32: add(key, 2**32 + 3) steps 3 times")
add("narrow-02-query-linear-depth-uint8", ["C01", "C05"], "countmin",
    "    uint32(\n        uint32[:, :],\n        uint64[:],\n        uint64,\n        uint64,\n        uint32,\n        types.Bytes(types.uint8, 1, \"C\"),\n    )\n)\ndef _query_linear(",
    "    uint32(\n        uint32[:, :],\n        uint64[:],\n        uint64,\n        uint8,\n        uint32,\n        types.Bytes(types.uint8, 1, \"C\"),\n    )\n)\ndef _query_linear(",
    note="the query kernel's depth is typed uint8: depth 256 scans no row")
add("narrow-03-merge-log16-max-count-uint32", ["C09"], "countmin",
    "        uint16[:, :],\n        uint16[:, :],\n        uint64,\n        uint64,\n        uint64,\n        uint16,\n        uint16,\n        float64,\n        uint64[:],\n        uint64[:],\n    ),\n    parallel=True,\n)\ndef _merge_log16(",
    "        uint16[:, :],\n        uint16[:, :],\n        uint64,\n        uint64,\n        uint32,\n        uint16,\n        uint16,\n        float64,\n        uint64[:],\n        uint64[:],\n    ),\n    parallel=True,\n)\ndef _merge_log16(",
    note="the log16 merge kernel takes max_count as uint32")
add("early-08-hh-add-stops-after-six-rows", ["C04"], "heavyhitters",
    "    for row in range(depth):\n        col = fasthash64(key, row) % width\n        if np.all(key_array == lhh[row, col]) and key_lens[row, col] == key_len:",
    "    for row in range(depth):\n        if row >= 6:\n            break\n        col = fasthash64(key, row) % width\n        if np.all(key_array == lhh[row, col]) and key_lens[row, col] == key_len:",
    note="the heavy-hitter add touches only the first six rows")
add("default-01-linear-add-default-multiplicity-two", ["C01", "C12"], "countmin",
    "            self.cms, self.buckets, self.width, self.depth, self.uint_maxval, key\n        )\n\n    def add(self, key: bytes, value: int = 1) -> None:",
    "            self.cms, self.buckets, self.width, self.depth, self.uint_maxval, key\n        )\n\n    def add(self, key: bytes, value: int = 2) -> None:",
    note="a bare add(key) (and so update(list)) counts every key twice")
add("default-02-hh-add-default-multiplicity-two", ["C03", "C12"], "heavyhitters",
    "    def add(self, key: bytes, value: int = 1) -> None:", "    def add(self, key: bytes, value: int = 2) -> None:",
    note="a bare hh.add(key) counts the key twice")
add("keyid-07-merge-compares-keys-with-ne", ["C03", "C04"], "heavyhitters",
    "            keys_match = (np.all(lhh[row, col] == other_lhh[row, col])) and (", "            keys_match = (np.all(lhh[row, col] != other_lhh[row, col])) and (",
    note="merge treats cells whose keys differ in every byte as holding the same key")
add("cachekey-05-fresh-sketch-records-one-add", ["C13"], "heavyhitters",
    "        self.n_added_sort = 0\n", "        self.n_added_sort = 1\n",
    note="after exactly one add the empty initial cache is taken for current: query() returns nothing")
add("scan-07-dup-skip-tests-count-one", ["C13"], "heavyhitters",
    "                if self.candidate_set[key] == 0:", "                if self.candidate_set[key] == 1:",
    note="only keys already listed with count 1 are (re)evaluated: no key ever enters the candidate set")
add("mergetree-09-hll-args-from-second-sketch", ["C08"], "helpers",
    "    elif isinstance(sketch_array[0], HyperLogLog):\n        sketch_type = \"hll\"\n        sketch_args = sketch_array[0].args",
    "    elif isinstance(sketch_array[0], HyperLogLog):\n        sketch_type = \"hll\"\n        sketch_args = sketch_array[1].args",
    note="parallel_merging of a single HyperLogLog sketch raises IndexError (only the HLL arm)")
add("mergetree-10-refuses-equal-arguments", ["C08"], "helpers",
    "        if sketch_args != sketch_array[i].args:", "        if sketch_args == sketch_array[i].args:",
    note="parallel_merging refuses exactly the sketches it is meant to merge")
add("logmerge-09-clower-offset-subtracted", ["C09"], "countmin",
    "                clower = cprime + num_reserved", "                clower = cprime - num_reserved", count=2,
    note="merged log counters beyond the reserved range come out 2*num_reserved too low")
add("expo-07-probabilistic-step-never-taken", ["C06"], "countmin",
    "            if rand < base ** (-cprime):\n", "            if False:\n",
    note="log counters stop at num_reserved + 1: every larger count is under-estimated")
add("dfg-15-single-block-skipped", ["C11"], "hashes",
    "    if nblocks > 0:\n        # Cast complete 64-bit chunks", "    if nblocks > 1:\n        # Cast complete 64-bit chunks",
    note="keys of 8..15 bytes are hashed without their first 8 bytes")
add("joinfirst-07-hll-descriptor-not-handed-to-worker", ["C08"], "helpers",
    "            sketch.append((\"hll\", hll_array[i].args, hll_array[i].shm.name))\n", "            pass\n",
    note="workers never receive the HyperLogLog: the callback fails on every item (logged, skipped) and an empty HLL is returned")
add("joinfirst-08-hh-descriptor-names-cms-block", ["C08"], "helpers",
    "            sketch.append((\"hh\", hh_array[i].args, hh_array[i].shm.name))", "            sketch.append((\"hh\", hh_array[i].args, cms_array[i].shm.name))",
    note="the worker's heavy-hitter view is attached to the count-min block")
add("dead-11-filler-killed-only-when-already-finished", ["C19"], "helpers",
    "                if fill_queue_process.exitcode is None:\n                    fill_queue_process.kill()", "                if fill_queue_process.exitcode is not None:\n                    fill_queue_process.kill()",
    note="after a worker died the still-running filler blocks on the full queue: parallel_add hangs in fill_queue_process.join()")
_NGRAM_LINEAR_CALL = '            _add_linear(\n                cms,\n                n_added_records,\n                buckets,\n                width,\n                depth,\n                uint_maxval,\n                key[i : i + ngram],\n                uint32(1),\n            )\n'
add("window-11-ngram-loop-returns-at-a-saturated-window", ["C01", "C12"], "countmin", _NGRAM_LINEAR_CALL,
    "            min_count = _query_linear(cms, buckets, width, depth, uint_maxval, key[i : i + ngram])\n"
    "            if min_count >= uint_maxval:\n                return\n"
    "            new_count = min_count + uint32(1)\n            n_added_records[0] += uint64(1)\n"
    "            for row in range(depth):\n                if cms[row, buckets[row]] < new_count:\n                    cms[row, buckets[row]] = new_count\n",
    note="the add is written out in the window loop and its `nothing to do` return leaves the loop: later windows are never added")
add("window-12-ngram-loop-only-queries", ["C01", "C12"], "countmin", _NGRAM_LINEAR_CALL,
    "            _query_linear(cms, buckets, width, depth, uint_maxval, key[i : i + ngram])\n",
    note="the windows are looked up, not added")
add("E-window-03-ngram-loop-inlined-add-with-continue", ["C01", "C05", "C12", "C18"], "countmin", _NGRAM_LINEAR_CALL,
    "            min_count = _query_linear(cms, buckets, width, depth, uint_maxval, key[i : i + ngram])\n"
    "            if min_count != uint_maxval:\n"
    "                new_count = min_count + uint32(1)\n                n_added_records[0] += uint64(1)\n"
    "                for row in range(depth):\n                    if cms[row, buckets[row]] < new_count:\n                        cms[row, buckets[row]] = new_count\n",
    kind="U", note="a correct written-out add: not a violation; the window rule does not recognise the shape (exit 2 is acceptable, exit 1 is not)")
add("seeddep-01-tail-result-drops-the-seeded-accumulator", ["C14"], "hashes",
    "        h ^= _fhmix64(v)\n        h *= m\n\n    return _fhmix64(h)", "        h = _fhmix64(v)\n        h *= m\n\n    return _fhmix64(h)",
    note="for keys whose length is not a multiple of 8 the hash no longer depends on the seed: every row picks the same column")
add("scan-08-empty-test-reads-the-transposed-cell", ["C13"], "heavyhitters",
    "                if self.lhh_count[row, column] == 0:", "                if self.lhh_count[column, row] == 0:",
    note="on a square table cells are skipped (or scanned) according to another cell's count")
add("bind-09-log8-add-swaps-reserved-and-ceiling", ["C05", "C06", "C18"], "countmin",
    "    new_count, rand_ptr = _log_counter(\n        min_count, num_reserved, uint_maxval, base, rand_nums, rand_ptr, value\n    )\n    # Reminder that this is a uint16 value so cast to uint8",
    "    new_count, rand_ptr = _log_counter(\n        min_count, uint_maxval, num_reserved, base, rand_nums, rand_ptr, value\n    )\n    # Reminder that this is a uint16 value so cast to uint8",
    note="the log8 add hands the ceiling to the counter step as num_reserved and vice versa")
add("keynorm-09-short-key-never-copied-into-the-buffer", ["C03", "C04"], "heavyhitters",
    "        key_array = np.zeros(max_key_len, uint8)\n        key_array[:key_len] = np.frombuffer(key, uint8)\n    # Only use the first max_key_len bytes if key is too long",
    "        key_array = np.zeros(max_key_len, uint8)\n    # Only use the first max_key_len bytes if key is too long",
    note="_add stores and compares the all-zero buffer for every key shorter than max_key_len")
add("dead-12-log-process-left-running-after-a-dead-worker", ["C19"], "helpers",
    "                # Kill the log worker because it is still going\n                log_process.kill()\n", "",
    note="the failure is reported but the non-daemon log process keeps the interpreter alive")
add("E-layout-05-hh-counters-padded-to-8-on-both-sides", ["C16", "C08", "C05"], "heavyhitters",
    "                size=(lhh_nbytes + lhh_count_nbytes + key_lens_nbytes + n_added_nbytes),\n",
    "                size=(lhh_nbytes + lhh_count_nbytes + key_lens_nbytes + (-(lhh_nbytes + lhh_count_nbytes + key_lens_nbytes) % 8) + n_added_nbytes),\n",
    kind="E", note="owner and attacher both start the bookkeeping counters at the next multiple of 8: the same layout on both sides",
    also=[("heavyhitters",
           "            ).reshape(self.depth, self.width)\n            start = end\n            self.n_added_records = np.frombuffer(\n                self.shm.buf[start:],",
           "            ).reshape(self.depth, self.width)\n            start = end + (-end % 8)\n            self.n_added_records = np.frombuffer(\n                self.shm.buf[start:],"),
          ("heavyhitters",
           "        ).reshape(self.depth, self.width)\n        start = end\n        self.n_added_records = np.frombuffer(\n            existing_shm.buf[start:],",
           "        ).reshape(self.depth, self.width)\n        start = end + (-end % 8)\n        self.n_added_records = np.frombuffer(\n            existing_shm.buf[start:],")])
add("factory-07-num-reserved-zero-taken-for-unset", ["C16"], "countmin",
    "    elif cms_type == \"log16\":\n        if num_reserved is None:", "    elif cms_type == \"log16\":\n        if not num_reserved:",
    note="CountMin(..., num_reserved=0) builds a log16 sketch with the default 1023: an attached view decodes differently")
add("persist-09-linear-table-saved-as-uint16", ["C10"], "countmin",
    "            args=np.array([self.width, self.depth], np.uint64),\n            n_added_records=self.n_added_records,\n            cms=self.cms,",
    "            args=np.array([self.width, self.depth], np.uint64),\n            n_added_records=self.n_added_records,\n            cms=self.cms.astype(np.uint16),",
    note="the linear table is narrowed on save: counters >= 65536 wrap in the file")
add("persist-10-records-counter-saved-without-slot-1", ["C10"], "countmin",
    "            args=np.array([self.width, self.depth], np.uint64),\n            n_added_records=self.n_added_records,",
    "            args=np.array([self.width, self.depth], np.uint64),\n            n_added_records=self.n_added_records[:1],",
    note="only n_added is saved; np.copyto broadcasts it into both slots on load")
add("persist-11-hll-registers-restored-with-maximum", ["C10"], "hyperloglog",
    "            np.copyto(hll.registers, npzfile[\"hll\"])", "            np.maximum(hll.registers, npzfile[\"hll\"][: len(hll.registers)], out=hll.registers)",
    note="registers restored through np.maximum with a slice (a shorter member is accepted silently)")
add("E-global-08-rename-kernel-parameters", ALL_PROPS, "*", _rename_kernel_params, None, kind="E",
    note="every parameter of every @njit kernel renamed (call sites are positional)")
add("E-global-09-rename-private-functions", ALL_PROPS, "*", _rename_private_functions, None, kind="E",
    note="every private module-level function/kernel renamed throughout the package")
add("E-global-05-invert-every-if-else", ALL_PROPS, "*", _package_transform(lambda t: _InvertIfElse().visit(t)), None, kind="E",
    note="every if/else has its arms swapped under a negated test (elif chains become nested ifs)")
add("E-global-06-flip-every-comparison", ALL_PROPS, "*", _package_transform(lambda t: _FlipCompares().visit(t)), None, kind="E",
    note="every single comparison has its operands swapped (a < b -> b > a, a == b -> b == a)")
add("E-global-07-explicit-augmented-assignments", ALL_PROPS, "*", _package_transform(lambda t: _ExplicitAug().visit(t)), None, kind="E",
    note="a[i] op= v -> a[i] = a[i] op v everywhere; x op= v -> x = x op v in kernels")
add("E-global-01-ast-roundtrip-reformat", ALL_PROPS, "*", _reformat, None, kind="E", note="comments dropped, layout/quotes/parentheses normalised, all line numbers change")
add("E-global-02-rename-all-locals", ALL_PROPS, "*", _rename_locals, None, kind="E", note="every local variable of every function renamed")
add("E-global-03-shift-line-numbers", ALL_PROPS, "*", _blank_lines_and_comments, None, kind="E", note="two lines inserted at the top of every module")

# ---------------------------------------------------------------------------
# C11 dfg: Herbrand equivalence with the published algorithms
# ---------------------------------------------------------------------------
add("dfg-01-fasthash-len-low-byte", ["C11"], "hashes", "    h = seed ^ (key_len * m)", "    h = seed ^ ((key_len & 0xFF) * m)", rules=["dfg"])
add("dfg-02-fhmix-shift-24", ["C11"], "hashes", "    h ^= h >> 23", "    h ^= h >> 24", rules=["dfg"])
add("dfg-03-murmur-no-len-xor", ["C11"], "hashes", "    h = _xor32(h, key_len)\n    h = _fmix32(h)", "    h = _fmix32(h)", rules=["dfg"])
add("dfg-04-murmur-xor-c3", ["C11"], "hashes", "        h = h * uint32(5) + c3", "        h = h * uint32(5) ^ c3", rules=["dfg"])
add("dfg-05-murmur-tail2-rot16", ["C11"], "hashes",
    "    elif switch_len == 2:\n        k1 = _xor32(k1, _shift32l(tail[1], 8))\n        k1 = _xor32(k1, tail[0])\n        k1 *= c1\n        k1 = _rotl32(k1, 15)",
    "    elif switch_len == 2:\n        k1 = _xor32(k1, _shift32l(tail[1], 8))\n        k1 = _xor32(k1, tail[0])\n        k1 *= c1\n        k1 = _rotl32(k1, 16)", rules=["dfg"])
add("dfg-06-fasthash32-xor-fold", ["C11"], "hashes", "    return uint32(h - (h >> 32))", "    return uint32(h ^ (h >> 32))", rules=["dfg"])
add("dfg-07-rotl-31-minus-r", ["C11"], "hashes", "    return _shift32l(x, r) | _shift32r(x, 32 - r)", "    return _shift32l(x, r) | _shift32r(x, 31 - r)", rules=["dfg"])
add("dfg-08-murmur-tail-sign-extension", ["C11"], "hashes", "        k1 = _xor32(k1, _shift32l(tail[2], 16))", "        k1 = _xor32(k1, _shift32l(types.int8(tail[2]), 16))", rules=["dfg", "bytes-once"])
add("dfg-09-fasthash-tail-not-multiplied", ["C11"], "hashes",
    "        v ^= uint64(tail[0])\n        h ^= _fhmix64(v)\n        h *= m\n\n    return _fhmix64(h)", "        v ^= uint64(tail[0])\n        h ^= _fhmix64(v)\n\n    return _fhmix64(h)", rules=["dfg"])
add("dfg-10-fmix-constant", ["C11"], "hashes", "    h *= uint32(0xC2B2AE35)", "    h *= uint32(0xC2B2AE3D)", rules=["dfg"])
add("dfg-11-fasthash-blocks-unmixed", ["C11"], "hashes", "        for v in blocks:\n            h ^= _fhmix64(v)", "        for v in blocks:\n            h ^= v", rules=["dfg"])
add("dfg-12-murmur-block-order-of-ops", ["C11"], "hashes", "        h = _xor32(h, k1)\n        h = _rotl32(h, 13)\n        h = h * uint32(5) + c3", "        h = _rotl32(h, 13)\n        h = _xor32(h, k1)\n        h = h * uint32(5) + c3", rules=["dfg"])
add("dfg-13-fhmix-64bit-intermediate-lost", ["C11"], "hashes", "@njit(uint64(uint64))\ndef _fhmix64(h):", "@njit(uint32(uint64))\ndef _fhmix64(h):", rules=["dfg", "uwidth"])
add("E-dfg-01-strength-reduced-times5", ["C11"], "hashes", "        h = h * uint32(5) + c3", "        h = (h << 2) + h + c3", kind="E")
add("E-dfg-02-inline-xor32", ["C11"], "hashes", "    h = _xor32(h, key_len)\n    h = _fmix32(h)", "    h = h ^ key_len\n    h = _fmix32(h)", kind="E")
add("E-dfg-03-fasthash-accumulate-order", ["C11"], "hashes", "    h = seed ^ (key_len * m)", "    h = (m * key_len) ^ seed", kind="E")
add("E-dfg-04-fhmix-temporaries", ["C11"], "hashes", "    h ^= h >> 23\n    h *= uint64(0x2127599BF4325C37)\n    h ^= h >> 47\n\n    return h",
    "    a = h ^ (h >> 23)\n    b = a * uint64(0x2127599BF4325C37)\n    return b ^ (b >> 47)", kind="E")

# ---------------------------------------------------------------------------
# fast paths / aliasing (learned from independently seeded changes)
# ---------------------------------------------------------------------------
add("skip-01-log-counter-narrowed-fast-path", ["C05", "C06", "C18"], "countmin",
    "    one = uint16(1)\n    for i in range(value):", "    one = uint16(1)\n    step = uint16(value)\n    if counter + step <= num_reserved:\n        return counter + step, rand_ptr\n    for i in range(value):", rules=["logstep"])
add("E-skip-01-log-counter-exact-fast-path", ["C05", "C06", "C18"], "countmin",
    "    one = uint16(1)\n    for i in range(value):", "    one = uint16(1)\n    if counter + value <= num_reserved:\n        return counter + uint16(value), rand_ptr\n    for i in range(value):", kind="E")
add("skip-02-add-linear-skips-when-row0-high", ["C05", "C01"], "countmin",
    "    # Counter is maxed out, nothing to do\n    if min_count == uint_maxval:\n        return\n", "    # Counter is maxed out, nothing to do\n    if min_count == uint_maxval or cms[0, buckets[0]] > min_count + value:\n        return\n", rules=["no-skip"])
add("skip-03-add-log16-skips-large-counts", ["C05"], "countmin",
    "    # Nothing to do\n    if new_count == min_count:\n        return rand_ptr\n\n    # Now update only those counters that are below the new value\n    for row in range(depth):\n        count = cms[row, buckets[row]]\n        if count < new_count:\n            cms[row, buckets[row]] = new_count\n\n    return rand_ptr\n\n\n@njit(\n    uint64(\n        uint16[:, :],",
    "    # Nothing to do\n    if new_count == min_count or new_count > uint16(60000):\n        return rand_ptr\n\n    # Now update only those counters that are below the new value\n    for row in range(depth):\n        count = cms[row, buckets[row]]\n        if count < new_count:\n            cms[row, buckets[row]] = new_count\n\n    return rand_ptr\n\n\n@njit(\n    uint64(\n        uint16[:, :],", rules=["no-skip"])
add("skip-04-hh-add-skips-small-values", ["C04"], "heavyhitters",
    "    n_added_records[0] += uint64(value)\n    for row in range(depth):\n        col = fasthash64(key, row) % width", "    n_added_records[0] += uint64(value)\n    if value < uint32(2) and depth > 1:\n        return\n    for row in range(depth):\n        col = fasthash64(key, row) % width", rules=["no-skip"])
add("alias-01-hll-merge-adopts-registers", ["C02", "C16"], "hyperloglog",
    "        _merge(self.registers, other.registers, self.m)\n", "        if not self.registers.any():\n            self.registers = np.asarray(other.registers, dtype=np.uint8)\n            return\n        _merge(self.registers, other.registers, self.m)\n", rules=["state-owner", "wrapper-once"])
add("alias-02-linear-query-memo", ["C01", "C05"], "countmin",
    "        return _query_linear(\n            self.cms, self.buckets, self.width, self.depth, self.uint_maxval, key\n        )",
    "        if getattr(self, \"_last_key\", None) == key:\n            return self._last_val\n        self._last_key = key\n        self._last_val = _query_linear(\n            self.cms, self.buckets, self.width, self.depth, self.uint_maxval, key\n        )\n        return self._last_val", rules=["wrapper-once"])
add("alias-03-hh-load-rebinds-counts", ["C10", "C16"], "heavyhitters",
    "            np.copyto(hh.lhh_count, npzfile[\"lhh_count\"])", "            hh.lhh_count = npzfile[\"lhh_count\"]", rules=["state-owner", "persist-table"])

add("reload-01-hh-phi-upper-bound-exclusive (F4 pre-fix)", ["C10"], "heavyhitters",
    "        if isinstance(phi, float_types) and (phi <= 0.0 or phi > 1.0):", "        if isinstance(phi, float_types) and (phi <= 0.0 or phi >= 1.0):", rules=["reload-valid"])
add("reload-02-hh-phi-default-two-over-width", ["C10"], "heavyhitters",
    "            self.phi = np.float64(1.0 / self.width)", "            self.phi = np.float64(2.0 / self.width)", rules=["reload-valid"])

add("early-01-query-linear-returns-first-zero", ["C01", "C05"], "countmin",
    "        count = cms[row, buckets[row]]\n        if count < min_count:\n            min_count = count\n    return min_count\n\n\n@njit(\n    types.void(\n        uint32[:, :],",
    "        count = cms[row, buckets[row]]\n        if count == 0:\n            return count\n        if count < min_count:\n            min_count = count\n    return min_count\n\n\n@njit(\n    types.void(\n        uint32[:, :],", rules=["qmin"],
    note="returns the right minimum but leaves the bucket scratch array half-filled for the add that follows")
add("early-02-maxcount-returns-first-match", ["C04", "C13"], "heavyhitters",
    "            max_count = lhh_count[row, col]\n\n    return max_count", "            max_count = lhh_count[row, col]\n            return max_count\n\n    return max_count", rules=["scan-all"])
add("early-03-hll-add-skips-low-ranks", ["C02"], "hyperloglog",
    "    rank = _n_leading_zeros64(bits) - p + 1\n    registers[reg_idx]", "    rank = _n_leading_zeros64(bits) - p + 1\n    if rank < 2 and registers[reg_idx] > 0:\n        return None\n    registers[reg_idx]", kind="E")
add("early-04-hll-add-skips-some-keys", ["C02"], "hyperloglog",
    "    rank = _n_leading_zeros64(bits) - p + 1\n    registers[reg_idx]", "    rank = _n_leading_zeros64(bits) - p + 1\n    if rank > 40:\n        return None\n    registers[reg_idx]", rules=["join"])
add("observers-01-nadded-reads-slot1", ["C05", "C08", "C10"], "countmin",
    "        return self.n_added_records[0]", "        return self.n_added_records[1]", rules=["observers"])

add("bm-08-merge-replacement-partial-key-copy", ["C03", "C04"], "heavyhitters",
    "                    lhh[row, col] = other_lhh[row, col]\n                    key_lens[row, col] = other_key_lens[row, col]",
    "                    kl = other_key_lens[row, col]\n                    lhh[row, col, :kl] = other_lhh[row, col, :kl]\n                    key_lens[row, col] = kl", rules=["bm-table"])
add("bm-09-add-replacement-partial-key-copy", ["C03", "C04"], "heavyhitters",
    "                lhh[row, col, :] = key_array\n", "                lhh[row, col, :key_len] = key_array[:key_len]\n", rules=["bm-table"])

add("fwd-01-linear-add-truncates-key", ["C01", "C05", "C12"], "countmin",
    "            self.uint_maxval,\n            key,\n            value,\n        )\n\n    def update(", "            self.uint_maxval,\n            key[:16],\n            value,\n        )\n\n    def update(", rules=["value-fwd"])
add("fwd-02-hh-add-ngram-n-minus-one", ["C12"], "heavyhitters",
    "            self.uint_maxval,\n            key,\n            ngram,\n        )", "            self.uint_maxval,\n            key,\n            ngram - np.uint64(1),\n        )", rules=["value-fwd"])
add("E-deleg-01-update-dict-by-index", ["C12"], "hyperloglog",
    "        for key in keys:\n            self.add(key)\n\n    def add_ngram", "        for k in keys:\n            self.add(k)\n\n    def add_ngram", kind="E")

HELP_OK = "\n\n@njit(uint64(types.Bytes(types.uint8, 1, \"C\"), uint64, uint64))\ndef _bucket(key, row, width):\n    return fasthash64(key, row) % width\n\n\n@njit(\n    uint32(\n        uint32[:, :],\n        uint64[:],\n        uint64,\n        uint64,\n        uint32,\n        types.Bytes(types.uint8, 1, \"C\"),\n    )\n)\ndef _query_linear("
HELP_BAD = HELP_OK.replace("    return fasthash64(key, row) % width\n", "    if row < 2 or len(key) <= 32:\n        return fasthash64(key, row) % width\n    return fasthash64(key, 1) % width\n")
QSIG = "\n\n@njit(\n    uint32(\n        uint32[:, :],\n        uint64[:],\n        uint64,\n        uint64,\n        uint32,\n        types.Bytes(types.uint8, 1, \"C\"),\n    )\n)\ndef _query_linear("
add("E-seedrow-02-column-helper-extracted", ["C14", "C01", "C05"], "countmin", QSIG, HELP_OK, kind="E",
    also=[("countmin", "    min_count = uint_maxval\n    for row in range(depth):\n        buckets[row] = fasthash64(key, row) % width\n        count = cms[row, buckets[row]]\n        if count < min_count:\n            min_count = count\n    return min_count\n\n\n@njit(\n    types.void(\n        uint32[:, :],",
           "    min_count = uint_maxval\n    for row in range(depth):\n        buckets[row] = _bucket(key, row, width)\n        count = cms[row, buckets[row]]\n        if count < min_count:\n            min_count = count\n    return min_count\n\n\n@njit(\n    types.void(\n        uint32[:, :],")])
add("seedrow-06-column-helper-reuses-row1-for-long-keys", ["C14", "C01", "C05"], "countmin", QSIG, HELP_BAD, rules=["seedrow", "qmin"],
    also=[("countmin", "    min_count = uint_maxval\n    for row in range(depth):\n        buckets[row] = fasthash64(key, row) % width\n        count = cms[row, buckets[row]]\n        if count < min_count:\n            min_count = count\n    return min_count\n\n\n@njit(\n    types.void(\n        uint32[:, :],",
           "    min_count = uint_maxval\n    for row in range(depth):\n        buckets[row] = _bucket(key, row, width)\n        count = cms[row, buckets[row]]\n        if count < min_count:\n            min_count = count\n    return min_count\n\n\n@njit(\n    types.void(\n        uint32[:, :],")])

add("writer-01-log16-save-appends-zip-comment", ["C20"], "countmin",
    "            dtype=self.cms[0, 0],\n        )\n\n    @staticmethod\n    def load(filename: Union[str, Path], shared_memory: bool = False):\n        \"\"\"\n        Load a saved CountMinLog16",
    "            dtype=self.cms[0, 0],\n        )\n        import zipfile\n        with zipfile.ZipFile(str(filename), \"a\") as zf:\n            zf.comment = b\"sketchnu log sketch\"\n\n    @staticmethod\n    def load(filename: Union[str, Path], shared_memory: bool = False):\n        \"\"\"\n        Load a saved CountMinLog16",
    rules=["writer-api"])
add("writer-02-hll-save-appends-trailer", ["C20"], "hyperloglog",
    "            filename, args=np.array([self.p, self.seed], np.uint64), hll=self.registers\n        )",
    "            filename, args=np.array([self.p, self.seed], np.uint64), hll=self.registers\n        )\n        with open(filename, \"ab\") as fh:\n            fh.write(b\"\\0\" * 16)",
    rules=["writer-api"])
add("E-writer-01-hh-save-normalises-path", ["C20", "C10"], "heavyhitters",
    "        np.savez(\n            filename,\n            args=np.array(\n                [self.width, self.depth, self.max_key_len, self.phi], np.float64",
    "        filename = Path(filename)\n        np.savez(\n            filename,\n            args=np.array(\n                [self.width, self.depth, self.max_key_len, self.phi], np.float64", kind="E")


def _add_unrelated_code(src):
    """New attribute in every constructor, a new method on every class, a new module-level helper and constant,
    a logging call at the top of every Python-level method body (not kernels)."""
    out = dict(src)
    for k, v in src.items():
        if k in ("hll_constants", "hll_bias_experiment", "__init__"):
            continue
        tree = _ast.parse(v)
        for c in _ast.walk(tree):
            if isinstance(c, _ast.ClassDef):
                for f in c.body:
                    if isinstance(f, _ast.FunctionDef) and f.name == "__init__":
                        f.body.append(_ast.parse("self._verif_created_at = 0").body[0])
                c.body.append(_ast.parse("def describe(self):\n    return '%s(%r)' % (type(self).__name__, self.args)").body[0])
        tree.body.append(_ast.parse("_UNRELATED_CONSTANT = 12345").body[0])
        tree.body.append(_ast.parse("def _unrelated_helper(x):\n    return x + _UNRELATED_CONSTANT").body[0])
        out[k] = _ast.unparse(_ast.fix_missing_locations(tree)) + "\n"
    return out


add("E-global-04-unrelated-additions", ALL_PROPS, "*", _add_unrelated_code, None, kind="E",
    note="extra attribute in every constructor, extra method on every class, extra module-level helper and constant")

add("dfg-14-fasthash-tail4-signed-word-load", ["C11"], "hashes",
    "    elif switch_case == 4:\n        tail = key[nblocks * 8 :]\n        v = uint64(0)\n        v = _xor_shiftl(v, tail[3], 24)\n        v = _xor_shiftl(v, tail[2], 16)\n        v = _xor_shiftl(v, tail[1], 8)\n        v ^= uint64(tail[0])",
    "    elif switch_case == 4:\n        v = uint64(np.frombuffer(key[nblocks * 8 :], np.int32)[0])", rules=["dfg", "bytes-once", "blocksize"])

add("findbase-01-no-residual-check (F5 pre-fix)", ["C18"], "countmin",
    "    M = float64(max_count) - float64(num_reserved)\n    if abs(_func(base, max_count, num_reserved, uint_max)) > 1e-9 * M * base:\n        raise ValueError(\"No base found for which the largest counter equals max_count\")\n    return base",
    "    return base", rules=["findbase-post"])
add("findbase-02-check-after-return-path", ["C18"], "countmin",
    "    if abs(_func(base, max_count, num_reserved, uint_max)) > 1e-9 * M * base:\n        raise ValueError(\"No base found for which the largest counter equals max_count\")\n    return base",
    "    if base > 2.0:\n        return base\n    if abs(_func(base, max_count, num_reserved, uint_max)) > 1e-9 * M * base:\n        raise ValueError(\"No base found for which the largest counter equals max_count\")\n    return base", rules=["findbase-post"])
add("findbase-03-residual-of-other-config", ["C18"], "countmin",
    "    if abs(_func(base, max_count, num_reserved, uint_max)) > 1e-9 * M * base:", "    if abs(_func(base, max_count, uint32(0), uint_max)) > 1e-9 * M * base:", rules=["findbase-post"])
add("logmerge-09-log8-saturation-after-narrowing", ["C18", "C09"], "countmin",
    "            elif v >= max_count:\n                cms[row, col] = uint_maxval\n            else:\n                cprime = np.log((v - num_reserved) * (base - 1.0) + 1.0) / np.log(base)\n                cprime = uint8(cprime)\n                clower = cprime + num_reserved",
    "            else:\n                cprime = np.log((v - num_reserved) * (base - 1.0) + 1.0) / np.log(base)\n                cprime = uint8(cprime)\n                clower = cprime + num_reserved\n                if clower >= uint_maxval:\n                    cms[row, col] = uint_maxval\n                    continue",
    rules=["logmerge-shape"])

add("window-07-hh-ngram-clamped-to-max-key-len", ["C03", "C04", "C12"], "heavyhitters",
    "    key_len = np.uint64(len(key))\n    if key_len <= ngram:\n        _add(", "    ngram = min(ngram, max_key_len)\n    key_len = np.uint64(len(key))\n    if key_len <= ngram:\n        _add(", rules=["window"])

add("cons-06-log-raises-only-rows-at-old-min", ["C05", "C06"], "countmin",
    "    for row in range(depth):\n        count = cms[row, buckets[row]]\n        if count < new_count:\n            cms[row, buckets[row]] = new_count\n\n    return rand_ptr\n\n\n@njit(\n    uint64(\n        uint16[:, :],",
    "    for row in range(depth):\n        if cms[row, buckets[row]] == min_count:\n            cms[row, buckets[row]] = new_count\n\n    return rand_ptr\n\n\n@njit(\n    uint64(\n        uint16[:, :],",
    rules=["cons"])
add("cons-07-linear-raises-only-rows-at-old-min", ["C05", "C01"], "countmin",
    "        count = cms[row, buckets[row]]\n        if count < new_count:\n            cms[row, buckets[row]] = new_count\n\n\n@njit(\n    types.void(\n        uint32[:, :],\n        uint64[:],\n        uint64[:],\n        uint64,\n        uint64,\n        uint32,\n        types.Bytes(types.uint8, 1, \"C\"),\n        uint64,",
    "        count = cms[row, buckets[row]]\n        if count == min_count:\n            cms[row, buckets[row]] = new_count\n\n\n@njit(\n    types.void(\n        uint32[:, :],\n        uint64[:],\n        uint64[:],\n        uint64,\n        uint64,\n        uint32,\n        types.Bytes(types.uint8, 1, \"C\"),\n        uint64,",
    rules=["cons"])

add("E-wrapper-01-add-zero-is-noop", ["C01", "C05", "C12"], "countmin",
    "        value = min(value, self.uint_maxval)\n\n        _add_linear(", "        if value <= 0:\n            return\n        value = min(value, self.uint_maxval)\n\n        _add_linear(", kind="E")

add("dfg-15-fasthash-tail-mixed-only-if-nonzero", ["C11"], "hashes",
    "        v ^= uint64(tail[0])\n        h ^= _fhmix64(v)\n        h *= m\n\n    return _fhmix64(h)", "        v ^= uint64(tail[0])\n        if v:\n            h ^= _fhmix64(v)\n            h *= m\n\n    return _fhmix64(h)", rules=["dfg"])
add("E-dfg-05-fasthash-skip-xor-of-zero-mix", ["C11"], "hashes",
    "        v ^= uint64(tail[0])\n        h ^= _fhmix64(v)\n        h *= m\n\n    return _fhmix64(h)", "        v ^= uint64(tail[0])\n        if v != 0:\n            h ^= _fhmix64(v)\n        h *= m\n\n    return _fhmix64(h)", kind="E")

add("scan-04-candidates-deduped-by-padded-slot", ["C04", "C13"], "heavyhitters",
    "        # Generate candidate list\n        for row in range(self.depth):", "        seen = set()\n        # Generate candidate list\n        for row in range(self.depth):",
    also=[("heavyhitters", "                if self.candidate_set[key] == 0:\n                    max_count = _max_count(", "                stored = self.lhh[row, column].tobytes()\n                if stored not in seen:\n                    seen.add(stored)\n                    max_count = _max_count(")],
    rules=["scan-all"])

add("alias-04-hll-query-cached", ["C17", "C02"], "hyperloglog",
    "        return _query(\n            self.registers,\n            self.m,\n            self.threshold,\n            self.alpha,\n            self.raw_estimate,\n            self.bias_data,\n        )",
    "        if getattr(self, \"_cardinality\", None) is None:\n            self._cardinality = _query(\n                self.registers,\n                self.m,\n                self.threshold,\n                self.alpha,\n                self.raw_estimate,\n                self.bias_data,\n            )\n        return self._cardinality",
    rules=["wrapper-once"])

add("guard-raise-01-log8-message-reads-other-max-count", ["C15"], "countmin",
    "            raise TypeError(\n                \"self and other have different width|depth|type|max_count|num_reserved\"\n            )\n\n        _merge_log8(",
    "            raise TypeError(\n                f\"self and other differ: other has max_count={other.max_count}\"\n            )\n\n        _merge_log8(", rules=["guard-order"])
add("E-guard-raise-01-message-reads-common-attrs", ["C15"], "countmin",
    "            raise TypeError(\n                \"self and other have different width|depth|type|max_count|num_reserved\"\n            )\n\n        _merge_log8(",
    "            raise TypeError(\n                f\"self and other differ: other is {other.width}x{other.depth}\"\n            )\n\n        _merge_log8(", kind="E")
add("dead-08-monitor-stops-without-final-pass", ["C19"], "helpers",
    "    any_none = True\n    while any_none:\n        sleep(1)\n        any_none = False\n        for i, p in enumerate(workers):\n            # Still running\n            if p.exitcode is None:\n                any_none = True\n            # Finished but with non-zero exit code, which is bad\n            elif p.exitcode != 0:",
    "    while any(p.exitcode is None for p in workers):\n        sleep(1)\n        for i, p in enumerate(workers):\n            # Finished but with non-zero exit code, which is bad\n            if p.exitcode is not None and p.exitcode != 0:", rules=["dead-detect"])
add("E-dead-03-explicit-not-none-conjunct", ["C19"], "helpers",
    "            elif p.exitcode != 0:", "            elif p.exitcode is not None and p.exitcode != 0:", kind="E")
add("args-01-hh-default-threshold-depends-on-args", ["C10", "C13"], "heavyhitters",
    "        if threshold is None:\n            threshold = np.uint32(self.phi * self.n_added())\n        else:\n            threshold = np.uint32(threshold)\n\n        if (self.n_added_sort",
    "        if threshold is None:\n            if self.args[\"phi\"] is None:\n                threshold = np.uint32(self.n_added() // self.width)\n            else:\n                threshold = np.uint32(self.phi * self.n_added())\n        else:\n            threshold = np.uint32(threshold)\n\n        if (self.n_added_sort",
    rules=["args-private", "filter"])
add("E-filter-02-default-threshold-helper", ["C13", "C04", "C10"], "heavyhitters",
    "        if threshold is None:\n            threshold = np.uint32(self.phi * self.n_added())\n        else:\n            threshold = np.uint32(threshold)\n\n        if (self.n_added_sort",
    "        if threshold is None:\n            threshold = self._default_threshold()\n        else:\n            threshold = np.uint32(threshold)\n\n        if (self.n_added_sort", kind="E",
    also=[("heavyhitters", "    def add(self, key: bytes, value: int = 1) -> None:\n        \"\"\"\n        Add a single `key` to the heavy hitters sketch",
           "    def _default_threshold(self):\n        return np.uint32(self.phi * self.n_added())\n\n    def add(self, key: bytes, value: int = 1) -> None:\n        \"\"\"\n        Add a single `key` to the heavy hitters sketch")])

add("tree-08-skips-merging-empty-looking-sketches", ["C08"], "helpers",
    "        for i in range(n_to_merge // 2):\n            sketch1 = (sketch_type, sketch_args, sketch_array[i * 2].shm.name)",
    "        for i in range(n_to_merge // 2):\n            if sketch_type != \"hll\" and sketch_array[i * 2 + 1].n_added() == 0:\n                continue\n            sketch1 = (sketch_type, sketch_args, sketch_array[i * 2].shm.name)",
    rules=["mergetree"])


# ---------------------------------------------------------------------------
# the independently seeded changes archived under /verif/seeded are part of the self-test too
# ---------------------------------------------------------------------------
from .mutants import seeded_mutants as _seeded_mutants
CORPUS.extend(_seeded_mutants())
def _fhtail_correct(src):
    """The round-4 seeded change for C11 (tail bytes read in place through a helper) with the offset typed uint64 as it must be."""
    import os as _os
    from .mutants import apply_unified_diff
    here = _os.path.dirname(_os.path.dirname(_os.path.abspath(__file__)))
    cands = [d for d in sorted(_os.listdir(_os.path.join(here, "seeded"))) if d.startswith("C11d-")]
    if not cands:
        return None
    with open(_os.path.join(here, "seeded", cands[0], "patch.diff")) as f:
        out = apply_unified_diff(src, f.read())
    if out is None:
        return None
    a = '@njit(uint64(types.Bytes(types.uint8, 1, "C"), uint8, uint8))\ndef _fhtail'
    if a not in out["hashes"]:
        return None
    out["hashes"] = out["hashes"].replace(a, '@njit(uint64(types.Bytes(types.uint8, 1, "C"), uint64, uint8))\ndef _fhtail')
    return out


add("E-dfg-14-tail-read-in-place-through-helper-uint64-offset", ["C11"], "*", _fhtail_correct, None, kind="E",
    note="the C11d seeded change with the helper's offset parameter typed uint64: behaviour preserving")
from .mutants import refactor_variants as _refactor_variants
CORPUS.extend(_refactor_variants())

# ---------------------------------------------------------------------------
# round 8: additive methods (copy / clear), parameter rebinding, keep-alive registries, keyword call sites
# ---------------------------------------------------------------------------
_HH_COPY_CLEAR_OK = (
    "    def copy(self):\n"
    "        new_hh = HeavyHitters(**self.args)\n"
    "        np.copyto(new_hh.lhh, self.lhh)\n"
    "        np.copyto(new_hh.lhh_count, self.lhh_count)\n"
    "        np.copyto(new_hh.key_lens, self.key_lens)\n"
    "        np.copyto(new_hh.n_added_records, self.n_added_records)\n"
    "        new_hh.candidate_set = self.candidate_set.copy()\n"
    "        new_hh.n_added_sort = self.n_added_sort\n"
    "        new_hh.threshold_sort = self.threshold_sort\n"
    "        return new_hh\n\n"
    "    def clear(self) -> None:\n"
    "        self.lhh[:, :, :] = 0\n"
    "        self.lhh_count[:, :] = 0\n"
    "        self.key_lens[:, :] = 0\n"
    "        self.n_added_records[:] = 0\n"
    "        self.candidate_set = Counter()\n"
    "        self.n_added_sort = 0\n"
    "        self.threshold_sort = np.uint32(0)\n\n")
_GETITEM = "    def __getitem__(self, key: bytes) -> int:\n"
add("E-mutators-01-copy-and-clear-added", ["C13", "C04", "C03", "C10", "C16"], "heavyhitters", _GETITEM, _HH_COPY_CLEAR_OK + _GETITEM, kind="E",
    note="additive copy()/clear(): the copy gets tables and cache together, clear resets tables, counters and cache together")
add("mutators-05-clear-forgets-the-cache", ["C13"], "heavyhitters", _GETITEM,
    _HH_COPY_CLEAR_OK.replace("        self.candidate_set = Counter()\n        self.n_added_sort = 0\n        self.threshold_sort = np.uint32(0)\n", "") + _GETITEM,
    rules=["mutators"], note="clear() zeroes the tables but keeps the old candidate set: query() after clear()+re-adding the same number of keys answers from the old cache")
add("E-mutators-06-copy-without-cache", ["C13", "C04"], "heavyhitters", _GETITEM,
    _HH_COPY_CLEAR_OK.replace("        new_hh.candidate_set = self.candidate_set.copy()\n        new_hh.n_added_sort = self.n_added_sort\n        new_hh.threshold_sort = self.threshold_sort\n", "") + _GETITEM,
    kind="E", note="copy() hands a fresh object all four tables (n_added with them) and leaves its constructor cache (n_added_sort = 0): the first query is a cache miss, or n_added is 0 and the empty cache is right")
add("mutators-08-copy-without-counters-and-cache", ["C13"], "heavyhitters", _GETITEM,
    _HH_COPY_CLEAR_OK.replace("        new_hh.candidate_set = self.candidate_set.copy()\n        new_hh.n_added_sort = self.n_added_sort\n        new_hh.threshold_sort = self.threshold_sort\n", "")
    .replace("        np.copyto(new_hh.n_added_records, self.n_added_records)\n", "") + _GETITEM,
    rules=["mutators"], note="the copy holds keys but n_added() == 0 == n_added_sort: its query() serves the constructor's empty candidate set")
add("mutators-07-clear-keeps-n-added-sort", ["C13"], "heavyhitters", _GETITEM,
    _HH_COPY_CLEAR_OK.replace("        self.n_added_sort = 0\n", "") + _GETITEM,
    rules=["mutators"], kind="U", note="clear() empties the candidate set but keeps n_added_sort: after re-adding exactly as many keys the empty set is served (undecided or violation both acceptable; silent is not)")
add("ctor-rebind-01-falsy-default-log16", ["C15"], "countmin",
    "        if width <= 0:\n            raise ValueError(f\"{width=:}. Must be greater than 0\")\n        if depth <= 0:\n            raise ValueError(f\"{depth=:}. Must be greater than 0\")\n        if num_reserved >= 65535:",
    "        num_reserved = num_reserved or 1023\n        if width <= 0:\n            raise ValueError(f\"{width=:}. Must be greater than 0\")\n        if depth <= 0:\n            raise ValueError(f\"{depth=:}. Must be greater than 0\")\n        if num_reserved >= 65535:",
    rules=["ctor-attr"], note="num_reserved=0 silently becomes 1023: a sketch requested with 0 merges with default sketches")
add("E-ctor-rebind-02-none-default-log16", ALL_PROPS if False else ["C15", "C10", "C16", "C08", "C06", "C20"], "countmin",
    "        if width <= 0:\n            raise ValueError(f\"{width=:}. Must be greater than 0\")\n        if depth <= 0:\n            raise ValueError(f\"{depth=:}. Must be greater than 0\")\n        if num_reserved >= 65535:",
    "        if num_reserved is None:\n            num_reserved = 1023\n        if width <= 0:\n            raise ValueError(f\"{width=:}. Must be greater than 0\")\n        if depth <= 0:\n            raise ValueError(f\"{depth=:}. Must be greater than 0\")\n        if num_reserved >= 65535:",
    kind="E", note="resolving a None default by an `is None` test replaces no legal value")
add("E-ctor-rebind-03-int-conversion", ["C15", "C10", "C16", "C08", "C06", "C20"], "countmin",
    "        if width <= 0:\n            raise ValueError(f\"{width=:}. Must be greater than 0\")\n        if depth <= 0:\n            raise ValueError(f\"{depth=:}. Must be greater than 0\")\n        if num_reserved >= 65535:",
    "        num_reserved = int(num_reserved)\n        if width <= 0:\n            raise ValueError(f\"{width=:}. Must be greater than 0\")\n        if depth <= 0:\n            raise ValueError(f\"{depth=:}. Must be greater than 0\")\n        if num_reserved >= 65535:",
    kind="E")
add("owner-keepalive-01-atexit-bound-method", ["C16", "C08"], "heavyhitters",
    "        self.candidate_set = Counter()\n        self.n_added_sort = 0\n",
    "        atexit.register(self.__del__)\n        self.candidate_set = Counter()\n        self.n_added_sort = 0\n",
    rules=["owner"], note="atexit keeps a bound method, hence the sketch, alive until interpreter exit: dropping the owner no longer releases the segment")
add("owner-keepalive-02-finalize-lambda", ["C16"], "countmin",
    "        self.uint_maxval = np.uint32(2**32 - 1)\n",
    "        self.uint_maxval = np.uint32(2**32 - 1)\n        self._fin = weakref.finalize(self, lambda: self.__del__())\n",
    rules=["owner"])
add("E-owner-keepalive-03-finalize-on-shm-name", ["C16", "C08"], "countmin",
    "        self.uint_maxval = np.uint32(2**32 - 1)\n",
    "        self.uint_maxval = np.uint32(2**32 - 1)\n        self._fin = weakref.finalize(self, print, \"sketch dropped\")\n",
    kind="E", note="a finalizer that holds no reference to the sketch keeps nothing alive")
add("E-kwcalls-01-update-delegates-by-keyword", ["C12", "C01", "C05", "C03"], "countmin",
    "            for key, value in keys.items():\n                self.add(key, value)\n        else:\n            for key in keys:\n                self.add(key)\n",
    "            for key, value in keys.items():\n                self.add(key=key, value=value)\n        else:\n            for key in keys:\n                self.add(key=key)\n",
    kind="E")
add("kwcalls-02-update-delegates-swapped-keywords", ["C12"], "countmin",
    "            for key, value in keys.items():\n                self.add(key, value)\n",
    "            for key, value in keys.items():\n                self.add(value=1, key=key)\n", rules=["deleg", "value-fwd"])
add("mergetree-11-odd-tail-merged-with-itself", ["C08", "C02", "C03", "C19"], "helpers",
    "        for i in range(n_to_merge // 2):\n            sketch1 = (sketch_type, sketch_args, sketch_array[i * 2].shm.name)\n            sketch2 = (sketch_type, sketch_args, sketch_array[i * 2 + 1].shm.name)\n",
    "        for i in range(0, n_to_merge, 2):\n            j = min(i + 1, n_to_merge - 1)\n            sketch1 = (sketch_type, sketch_args, sketch_array[i].shm.name)\n            sketch2 = (sketch_type, sketch_args, sketch_array[j].shm.name)\n",
    rules=["mergetree"])

# two-pass query: a fill pass over the bucket array, then the minimum pass
_Q1 = ("    min_count = uint_maxval\n    for row in range(depth):\n        buckets[row] = fasthash64(key, row) % width\n        count = cms[row, buckets[row]]\n"
       "        if count < min_count:\n            min_count = count\n    return min_count\n\n\n@njit(\n    types.void(\n        uint32[:, :],")
def _q2(seed="row", bound="depth"):
    return ("    for row in range(%s):\n        buckets[row] = fasthash64(key, %s) %% width\n    min_count = uint_maxval\n    for row in range(depth):\n"
            "        count = cms[row, buckets[row]]\n        if count < min_count:\n            min_count = count\n    return min_count\n\n\n@njit(\n    types.void(\n        uint32[:, :],"
            % (bound, seed))
add("E-twopass-01-linear-query-fills-buckets-first", ["C01", "C05", "C14", "C12", "C18"], "countmin", _Q1, _q2(), kind="E",
    note="the bucket columns are computed in a pass of their own before the minimum pass")
add("twopass-02-fill-pass-uses-one-seed", ["C14"], "countmin", _Q1, _q2(seed="0"), rules=["seedrow", "qmin"],
    note="every row hashes with seed 0: the rows are no longer independent")
add("twopass-03-fill-pass-skips-last-row", ["C01", "C14"], "countmin", _Q1, _q2(bound="depth - 1"), rules=["qmin", "seedrow", "addr"],
    note="the last row's bucket is whatever the previous key left there")


# ---------------------------------------------------------------------------
# defects planted on top of archived behaviour-preserving refactorings (refactors/<id>/patch.diff): every normalisation that makes a
# restructured-but-correct shape readable must leave the defect in that shape visible
# ---------------------------------------------------------------------------
def _on_refactor(rid, *edits):
    def f(src):
        import os as _os
        from .mutants import apply_unified_diff
        p = _os.path.join(_os.path.dirname(_os.path.dirname(_os.path.abspath(__file__))), "refactors", rid, "patch.diff")
        out = apply_unified_diff(src, open(p).read())
        if out is None:
            return None
        for mod, old, new in edits:
            if out[mod].count(old) != 1:
                return None
            out[mod] = out[mod].replace(old, new)
        return out
    return f


add("onref-01-nlz-halving-loop-skips-the-2-bit-probe", ["C02"], "hyperloglog",
    _on_refactor("QE02", ("hyperloglog", "    while shift > uint64(1):", "    while shift > uint64(2):")), None, rules=["nlz"],
    note="QE02's binary search written as a loop over halving shifts, stopped one probe early")
add("onref-02-holds-key-helper-ignores-length", ["C03"], "heavyhitters",
    _on_refactor("QE04", ("heavyhitters", "    if cell_key_len != key_len:\n        return False\n    return np.all(cell_key == key_array)",
                          "    return np.all(cell_key == key_array)")), None, rules=["keyid"],
    note="QE04's shared key predicate compares the bytes only")
add("onref-03-del-table-view-unlinks", ["C16"], "hyperloglog",
    _on_refactor("QE16", ("hyperloglog", '("existing_shm", False, "close existing_shm")', '("existing_shm", True, "close existing_shm")')), None, rules=["owner"],
    note="QE16's table-driven __del__: the row of the attached view says it owns the block")
add("onref-04-carve-offsets-overlap", ["C16"], "heavyhitters",
    _on_refactor("QE16", ("heavyhitters", "            lens_at = count_at + lhh_count_nbytes\n", "            lens_at = count_at + key_lens_nbytes\n")), None, rules=["layout"],
    note="QE16's _carve helper fed an offset computed from the wrong segment size")
add("onref-05-residual-check-on-stale-temporary", ["C09"], "countmin",
    _on_refactor("QE18", ("countmin", "    residual = _func(base, max_count, num_reserved, uint_max)\n    tolerance = 1e-9 * M * base\n    if abs(residual) > tolerance:",
                          "    tolerance = 1e-9 * M * base\n    if abs(residual) > tolerance:")), None, rules=["findbase-post"],
    note="QE18: the post-check reads the residual of the LAST Newton step's starting point, not of the returned base")
add("onref-06-failed-item-counts-one", ["C19"], "helpers",
    _on_refactor("QB19", ("helpers", "        n_recs = 0\n        try:", "        n_recs = 1\n        try:")), None, rules=["nrecs", "cb-guard"],
    note="QB19's pre-initialised per-item count: a failing callback adds 1")
add("onref-07-linear-loader-checks-uint16", ["C10"], "countmin",
    _on_refactor("QB10", ("countmin", "    _counter_type = np.uint32", "    _counter_type = np.uint16")), None,
    rules=["dispatch"], note="QB10's class-level counter type of CountMinLinear says uint16: its loader accepts CountMinLog16 files")
add("onref-08-flag-chain-skips-counter-type", ["C15"], "countmin",
    _on_refactor("QB09", ("countmin", "        if not differs:\n            differs = self.uint_maxval != other.uint_maxval\n", "")), None, rules=["guard-set"],
    note="QB09's step-by-step mismatch flag never looks at uint_maxval")
add("onref-09-rounding-flag-inverted", ["C09"], "countmin",
    _on_refactor("QB09", ("countmin", "                round_up = not (fraction <= 0.5)", "                round_up = fraction <= 0.5")), None, rules=["logmerge-shape"],
    note="QB09's `floor + uint16(round_up)`: rounds down above the midpoint")
add("onref-10-countdown-window-loop-one-short", ["C03"], "heavyhitters",
    _on_refactor("QB12", ("heavyhitters", "        todo = key_len - (ngram - uint64(1))\n", "        todo = key_len - ngram\n")), None, rules=["window"],
    note="QB12's count-down window loop runs one window short")
add("onref-11-break-bound-drops-last-window", ["C02"], "hyperloglog",
    _on_refactor("QB12", ("hyperloglog", "            if stop > key_len:", "            if stop >= key_len:")), None, rules=["window"],
    note="QB12's window loop bounded by a break: the break fires one window early")
add("onref-12-reverse-rows-skip-row-zero", ["C01"], "countmin",
    _on_refactor("QB18", ("countmin", "        last = depth - uint64(1)\n        for i in range(depth):", "        last = depth - uint64(1)\n        for i in range(depth - uint64(1)):")), None,
    rules=["cons"], note="QB18's backwards row enumeration stops before row 0")
add("onref-13-ceiling-arm-stores-one-less", ["C09"], "countmin",
    _on_refactor("QB18", ("countmin", "                merged = uint64(uint_maxval)\n            else:\n                cprime = np.log((v - num_reserved) * (base - 1.0) + 1.0) / np.log(base)\n                cprime = uint16(cprime)",
                          "                merged = uint64(uint_maxval) - uint64(1)\n            else:\n                cprime = np.log((v - num_reserved) * (base - 1.0) + 1.0) / np.log(base)\n                cprime = uint16(cprime)")), None,
    rules=["logmerge-shape", "mono"], note="QB18's single store after the case analysis: the ceiling arm hands it uint_maxval - 1")
add("onref-14-unswitched-update-swaps-key-and-count", ["C01"], "countmin",
    _on_refactor("QB01", ("countmin", "                key, value = entry\n", "                value, key = entry\n")), None, rules=["deleg"],
    note="QB01's single loop over `keys.items() if weighted else keys`: the item is unpacked the wrong way round")
add("onref-15-moved-flag-negated", ["C05"], "countmin",
    _on_refactor("QB05", ("countmin", "        if moved and cms[row, col] < new_count:", "        if not moved and cms[row, col] < new_count:")), None, rules=["cons"],
    note="QB05's `moved` flag guards the conservative update with the wrong polarity")
add("onref-16-nlz-width-loop-starts-at-16", ["C02"], "hyperloglog",
    _on_refactor("QB02", ("hyperloglog", "    width = uint64(32)\n    while width >= two:", "    width = uint64(16)\n    while width >= two:")), None, rules=["nlz"],
    note="QB02's halving loop never probes the upper 32 bits")
add("onref-17-two-phase-jump-not-deducted", ["C05"], "countmin",
    _on_refactor("QF06", ("countmin", "        todo = todo - n_linear\n", "")), None, rules=["logstep"],
    note="QF06's two-phase log counter: the deterministic jump is not deducted from the remaining budget, so more than `value` unit steps are taken")
add("onref-18-two-phase-jump-ignores-budget", ["C18"], "countmin",
    _on_refactor("QE06", ("countmin", "        n_linear = min(todo, linear_end - level)\n", "        n_linear = linear_end - level\n")), None, rules=["logstep", "nowrap", "range", "mono"],
    note="QE06's jump always runs to the end of the exact range, whatever `value` is")
add("onref-19-two-phase-loop-runs-past-ceiling", ["C18"], "countmin",
    _on_refactor("QF06", ("countmin", "    while todo > uint64(0) and current < uint_maxval:", "    while todo > uint64(0) and current <= uint_maxval:")), None,
    rules=["logstep", "range"], note="QF06's log phase may step a counter that already sits at the ceiling")
add("onref-20-two-phase-jump-past-reserved-range", ["C06"], "countmin",
    _on_refactor("QF06", ("countmin", "    linear_end = num_reserved\n", "    linear_end = num_reserved + uint16(8)\n")), None, rules=["logstep"],
    note="QF06's deterministic jump runs 8 counters into the probabilistic range")
add("onref-21-generator-scan-skips-count-one", ["C04"], "heavyhitters",
    _on_refactor("QF13", ("heavyhitters", "            if self.lhh_count[row, column] != 0:", "            if self.lhh_count[row, column] > 1:")), None, rules=["scan-all"],
    note="QF13's generator over the stored keys leaves out every bucket whose count is 1")
add("onref-22-loader-list-built-one-short", ["C10"], "heavyhitters",
    _on_refactor("QF10", ("heavyhitters", "            dims = [np.uint64(raw[i]) for i in range(3)]", "            dims = [np.uint64(raw[i]) for i in range(2)]")), None,
    rules=["ctor-args"], note="QF10's constructor arguments gathered in a list: max_key_len is left out, phi slides into its place")
add("onref-23-any-guard-drops-max-key-len", ["C15"], "heavyhitters",
    _on_refactor("QF15", ("heavyhitters", '        required = ("width", "depth", "max_key_len")', '        required = ("width", "depth")')), None, rules=["guard-set"],
    note="QF15's `any(getattr(...) != getattr(...) for name in required)` does not look at max_key_len")
add("onref-24-callback-helper-failed-item-counts-one", ["C19"], "helpers",
    _on_refactor("QF19", ("helpers", "        log_queue.put({\"level\": \"ERROR\", \"text\": msg})\n    return 0", "        log_queue.put({\"level\": \"ERROR\", \"text\": msg})\n    return 1")), None,
    rules=["nrecs", "cb-guard"], note="QF19's _run_callback helper hands back 1 for an item whose callback raised")
add("onref-25-plan-table-builds-hll-for-hh", ["C08"], "helpers",
    _on_refactor("QF19", ("helpers", '        ("hh", HeavyHitters, hh_args, []),', '        ("hh", HyperLogLog, hh_args, []),')), None,
    rules=["joinfirst", "attach-table", "argsdict", "rettable"], note="QF19's plan table pairs the tag 'hh' with the HyperLogLog constructor")
add("onref-26-per-cell-merge-helper-rounds-the-wrong-way", ["C09"], "countmin",
    _on_refactor("QG09", ("countmin", "        return uint16(below)\n    return uint16(above)", "        return uint16(above)\n    return uint16(below)")), None,
    rules=["logmerge-shape"], note="QG09's per-cell helper returns the upper neighbour at or below the midpoint and the lower one above it")
add("onref-27-table-driven-carve-sizes-every-piece-like-the-first", ["C16"], "heavyhitters",
    _on_refactor("QG16", ("heavyhitters", "            hi = lo + sizes[i]", "            hi = lo + sizes[0]")), None, rules=["layout"],
    note="QG16's _carve_block takes every piece's size from the first entry of the size tuple")
add("onref-28-countmin-del-table-view-unlinks", ["C16"], "countmin",
    _on_refactor("QG16", ("countmin", '            ("existing_shm", False, "close existing_shm"),', '            ("existing_shm", True, "close existing_shm"),')), None,
    rules=["owner"], note="QG16's table-driven CountMinLinear.__del__: the attached view is marked as owning the block")
add("onref-29-filtered-request-table-builds-hll-for-hh", ["C08"], "helpers",
    _on_refactor("QF08", ("helpers", '            ("hh", HeavyHitters, hh_args),', '            ("hh", HyperLogLog, hh_args),')), None,
    rules=["joinfirst", "attach-table", "argsdict", "rettable"], note="QF08's `requested` table (a comprehension filtered by the option arguments): the 'hh' row names the HyperLogLog constructor")
add("onref-30-extracted-monitor-no-longer-tears-down", ["C19"], "helpers",
    _on_refactor("QH19", ("helpers", "            # Finished but with non-zero exit code, which is bad\n            _tear_down(workers, fill_queue_process, log_process, queues)\n",
                          "            # Finished but with non-zero exit code, which is bad\n            pass\n")), None,
    rules=["dead-detect", "dead-raise", "dead-cleanup"], note="QH19's _watch_workers (the monitor loop as a helper that returns from inside `while True`) notices the dead worker and does nothing")
add("onref-31-lazy-stale-checks-forget-n-added", ["C13"], "heavyhitters",
    _on_refactor("QH13", ("heavyhitters", "            lambda: self.n_added() > self.n_added_sort,\n", "")), None, rules=["cachekey"],
    note="QH13's tuple of lazily evaluated staleness checks loses the n_added one")
add("onref-32-occupied-generator-skips-count-one", ["C13"], "heavyhitters",
    _on_refactor("QH13", ("heavyhitters", "            if self.lhh_count[bucket] != 0\n", "            if self.lhh_count[bucket] > 1\n")), None, rules=["scan-all"],
    note="QH13's generator of occupied buckets (consumed by the candidate loop) also drops cells whose count is one")
add("onref-33-class-constant-bounds-admit-p6", ["C02", "C17"], "hyperloglog",
    _on_refactor("QH02", ("hyperloglog", "    _P_BOUNDS = (np.uint64(7), np.uint64(16))", "    _P_BOUNDS = (np.uint64(6), np.uint64(16))")), None, rules=["ctor-range", "tabidx"],
    note="QH02's class-level pair of precision bounds (unpacked in __init__) starts at 6")
add("onref-34-halving-shift-table-misses-the-2-bit-probe", ["C02"], "hyperloglog",
    _on_refactor("QH02", ("hyperloglog", "_HALVING_SHIFTS = (32, 16, 8, 4, 2)", "_HALVING_SHIFTS = (32, 16, 8, 4, 4)")), None, rules=["nlz"],
    note="QH02's module-level shift table iterated by the leading-zero kernel has a wrong last entry")
add("onref-35-nested-generator-scan-misses-last-column", ["C03", "C13"], "heavyhitters",
    _on_refactor("QH04", ("heavyhitters", "            for column in range(self.width)\n", "            for column in range(self.width - 1)\n")), None, rules=["scan-all"],
    note="QH04's two-level generator of occupied cells stops one column early")
add("onref-37-finals-table-merges-hh-from-the-cms-list", ["C08"], "helpers",
    _on_refactor("QH08", ("helpers", '        ("hh", hh_args, hh_array),', '        ("hh", hh_args, cms_array),')), None,
    rules=["joinfirst", "rettable"], note="QH08's merge table (results kept in a dict keyed by tag) merges the cms list under the tag 'hh'")
add("onref-38-nested-return-table-swaps-a-pair", ["C08"], "helpers",
    _on_refactor("QH08", ("helpers", '                return finals["cms"], finals["hll"]', '                return finals["hll"], finals["cms"]')), None,
    rules=["rettable"], note="QH08's fully nested return table reading a dict of results returns (hll, cms) for the cms+hll request")
add("onref-39-next-table-loads-log16-files-as-log8", ["C10"], "countmin",
    _on_refactor("QI10", ("countmin", "        (np.uint16, CountMinLog16),", "        (np.uint16, CountMinLog8),")), None,
    rules=["dispatch", "reader-api"], note="QI10's module load() picks the class with next() over a (dtype, class) table; the uint16 row names CountMinLog8")
add("onref-40-lambda-row-table-picks-the-next-bias-row", ["C17"], "hyperloglog",
    _on_refactor("QI02", ("hyperloglog", '            ("bias_data", lambda r: bias_data[r, :]),', '            ("bias_data", lambda r: bias_data[r + 1, :]),')), None,
    rules=["tabidx"], note="QI02's constructor sets the three table rows with setattr over (name, lambda) rows; the bias lambda reads row r + 1")
add("onref-41-count-gap-subtracts-the-wrong-way", ["C03", "C04"], "heavyhitters",
    _on_refactor("QI04", ("heavyhitters", "        return count - other_count", "        return other_count - count")), None,
    rules=["bm-table"], note="QI04's shared _count_gap helper returns other - count when count is the larger one (wraps)")
add("onref-42-special-counter-table-names-slot-0-twice", ["C09"], "countmin",
    _on_refactor("QI09", ("countmin", "_SPECIAL_COUNTER_IDXS = (_N_ADDED_IDX, _N_RECORDS_IDX)", "_SPECIAL_COUNTER_IDXS = (_N_ADDED_IDX, _N_ADDED_IDX)")), None,
    rules=["sumcounters", "nrecs"], note="QI09's _merge_special_counters loops over a module tuple of named slots that lists slot 0 twice")
add("onref-36-table-rows-by-generator-off-by-one", ["C17"], "hyperloglog",
    _on_refactor("QH17", ("hyperloglog", "        row = int(self.p) - 7\n", "        row = int(self.p) - 6\n")), None, rules=["tabidx"],
    note="QH17 selects the three table rows with one generator over the tables; the row index is p - 6")
