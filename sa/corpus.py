"""T2 corpus: breaking (B) and behaviour-preserving (E) in-memory edits, per rule family."""
from .mutants import M

CORPUS = []


def add(*a, **k):
    CORPUS.append(M(*a, **k))


# ---------------------------------------------------------------------------
# range / cap / mono / ceil  (C18, also seen by C01/C05/C03 where shared)
# ---------------------------------------------------------------------------
add("range-01-drop-linear-cap", ["C18", "C01"], "countmin",
    "    value = min(value, uint_maxval - min_count)\n", "", rules=["range", "newcount"])
add("cap-01-drop-wrapper-cap-linear", ["C18", "C01"], "countmin",
    "        value = min(value, self.uint_maxval)\n\n        _add_linear(", "        _add_linear(", rules=["cap"])
add("cap-02-drop-wrapper-cap-hh", ["C18", "C03"], "heavyhitters",
    "        value = min(value, self.uint_maxval)\n        _add(", "        _add(", rules=["cap"])
add("range-02-merge-linear-never-saturates", ["C18", "C01", "C09"], "countmin",
    "if other_cms[row, col] > uint_maxval - cms[row, col]:", "if False:", rules=["range", "msum"])
add("range-03-log-counter-no-ceiling-stop", ["C18", "C05"], "countmin",
    "        if counter >= uint_maxval:\n            return counter, rand_ptr\n", "", rules=["logstep", "range"])
add("range-04-hh-replace-guard-weak", ["C18", "C03"], "heavyhitters",
    "if value > lhh_count[row, col]:", "if value >= 0:", rules=["range", "bm-table"])
add("range-05-hh-add-guard-off-by-type", ["C18", "C03"], "heavyhitters",
    "if value < uint_maxval - lhh_count[row, col]:", "if value <= uint_maxval:", rules=["range"])
add("range-06-hh-merge-wrong-sub-order", ["C18", "C03"], "heavyhitters",
    "                    lhh_count[row, col] = (\n                        other_lhh_count[row, col] - lhh_count[row, col]\n                    )",
    "                    lhh_count[row, col] = (\n                        lhh_count[row, col] - other_lhh_count[row, col]\n                    )",
    rules=["range", "bm-table"])
add("range-07-merge-log8-ceiling-plus1", ["C18"], "countmin",
    "            elif v >= max_count:\n                cms[row, col] = uint_maxval\n            else:\n                cprime = np.log((v - num_reserved) * (base - 1.0) + 1.0) / np.log(base)\n                cprime = uint8(cprime)",
    "            elif v >= max_count:\n                cms[row, col] = uint_maxval + 1\n            else:\n                cprime = np.log((v - num_reserved) * (base - 1.0) + 1.0) / np.log(base)\n                cprime = uint8(cprime)",
    rules=["range"])
add("range-08-merge-log16-reserved-guard-wrong", ["C18"], "countmin",
    "            if v <= num_reserved:\n                cms[row, col] = uint16(v)", "            if v <= max_count:\n                cms[row, col] = uint16(v)",
    rules=["range"])
add("ceil-01-linear-ceiling-31-bits", ["C18", "C01"], "countmin",
    "self.uint_maxval = np.uint32(2**32 - 1)", "self.uint_maxval = np.uint32(2**31 - 1)", rules=["ceil"])
add("ceil-02-log8-table-uint16", ["C18"], "countmin",
    "            self.cms = np.zeros((depth, width), np.uint8)", "            self.cms = np.zeros((depth, width), np.uint16)", rules=["ceil"])
add("mono-01-linear-guard-inverted", ["C18", "C01", "C05"], "countmin",
    "        if count < new_count:\n            cms[row, buckets[row]] = new_count\n\n\n@njit(\n    types.void(\n        uint32[:, :],\n        uint64[:],\n        uint64[:],\n        uint64,\n        uint64,\n        uint32,\n        types.Bytes(types.uint8, 1, \"C\"),\n        uint64,",
    "        if count > new_count:\n            cms[row, buckets[row]] = new_count\n\n\n@njit(\n    types.void(\n        uint32[:, :],\n        uint64[:],\n        uint64[:],\n        uint64,\n        uint64,\n        uint32,\n        types.Bytes(types.uint8, 1, \"C\"),\n        uint64,",
    rules=["mono"])
add("mono-02-log16-unguarded-store", ["C18", "C05"], "countmin",
    "    for row in range(depth):\n        count = cms[row, buckets[row]]\n        if count < new_count:\n            cms[row, buckets[row]] = new_count\n\n    return rand_ptr\n\n\n@njit(\n    uint64(\n        uint16[:, :],",
    "    for row in range(depth):\n        cms[row, buckets[row]] = new_count\n\n    return rand_ptr\n\n\n@njit(\n    uint64(\n        uint16[:, :],",
    rules=["mono"])
# equivalent rewrites
add("E-range-01-rearranged-guard", ["C18", "C03"], "heavyhitters",
    "if value < uint_maxval - lhh_count[row, col]:", "if lhh_count[row, col] + value < uint_maxval:", kind="E")
add("E-range-02-swapped-arms", ["C18", "C01", "C09"], "countmin",
    "            if other_cms[row, col] > uint_maxval - cms[row, col]:\n                cms[row, col] = uint_maxval\n            else:\n                cms[row, col] += other_cms[row, col]",
    "            if not (other_cms[row, col] > uint_maxval - cms[row, col]):\n                cms[row, col] += other_cms[row, col]\n            else:\n                cms[row, col] = uint_maxval",
    kind="E")
add("E-range-03-renamed-locals", ["C18", "C01", "C05"], "countmin",
    "    value = min(value, uint_maxval - min_count)\n    new_count = min_count + value\n\n    # Track total number of elements added to the sketch\n    n_added_records[0] += uint64(value)",
    "    amount = min(value, uint_maxval - min_count)\n    new_count = amount + min_count\n\n    # Track total number of elements added to the sketch\n    n_added_records[0] += uint64(amount)",
    kind="E")
add("E-range-04-explicit-assign-form", ["C18", "C01", "C09"], "countmin",
    "                cms[row, col] += other_cms[row, col]\n    # Merge the special counters",
    "                cms[row, col] = cms[row, col] + other_cms[row, col]\n    # Merge the special counters", kind="E")
add("E-cap-01-cap-spelled-with-if", ["C18", "C01"], "countmin",
    "        value = min(value, self.uint_maxval)\n\n        _add_linear(",
    "        if value > self.uint_maxval:\n            value = self.uint_maxval\n\n        _add_linear(", kind="E")

# ---------------------------------------------------------------------------
# qmin / addr / cons / newcount / nadd-once / logstep  (C01, C05, C14)
# ---------------------------------------------------------------------------
QL = "    min_count = uint_maxval\n    for row in range(depth):\n        buckets[row] = fasthash64(key, row) % width\n        count = cms[row, buckets[row]]\n        if count < min_count:\n            min_count = count\n    return min_count\n\n\n@njit(\n    types.void(\n        uint32[:, :],"
add("qmin-01-linear-first-row-only", ["C01", "C05"], "countmin", QL, QL.replace("range(depth)", "range(1)"), rules=["qmin"])
add("qmin-02-linear-max-instead-of-min", ["C01", "C05"], "countmin", QL, QL.replace("if count < min_count", "if count > min_count"), rules=["qmin"])
add("qmin-03-linear-init-zero", ["C01", "C05"], "countmin", QL, QL.replace("min_count = uint_maxval\n", "min_count = uint32(0)\n"), rules=["qmin"])
add("qmin-04-linear-skip-last-row", ["C01", "C05"], "countmin", QL, QL.replace("range(depth)", "range(depth - 1)"), rules=["qmin"])
add("addr-01-linear-constant-seed", ["C01", "C05", "C14"], "countmin", QL, QL.replace("fasthash64(key, row)", "fasthash64(key, 0)"), rules=["qmin", "seedrow"])
add("addr-02-linear-mod-depth", ["C01", "C05", "C14"], "countmin", QL, QL.replace("% width", "% depth"), rules=["qmin", "seedrow"])
add("addr-03-linear-reads-other-column", ["C01", "C05"], "countmin", QL, QL.replace("count = cms[row, buckets[row]]", "count = cms[row, buckets[0]]"), rules=["qmin"])
add("E-qmin-01-seed-cast", ["C01", "C05", "C14"], "countmin", QL, QL.replace("fasthash64(key, row)", "fasthash64(key, uint64(row))"), kind="E")
add("E-qmin-02-le-for-lt", ["C01", "C05"], "countmin", QL, QL.replace("if count < min_count", "if count <= min_count"), kind="E")
add("E-qmin-03-min-builtin", ["C01", "C05"], "countmin", QL,
    QL.replace("        if count < min_count:\n            min_count = count\n", "        min_count = min(min_count, count)\n"), kind="E")

AL = "    for row in range(depth):\n        count = cms[row, buckets[row]]\n        if count < new_count:\n            cms[row, buckets[row]] = new_count\n\n\n@njit(\n    types.void(\n        uint32[:, :],\n        uint64[:],\n        uint64[:],\n        uint64,\n        uint64,\n        uint32,\n        types.Bytes(types.uint8, 1, \"C\"),\n        uint64,"
add("cons-01-linear-plain-increment", ["C05", "C01"], "countmin", AL,
    AL.replace("        count = cms[row, buckets[row]]\n        if count < new_count:\n            cms[row, buckets[row]] = new_count\n",
               "        cms[row, buckets[row]] += value\n"), rules=["cons", "range", "mono", "newcount"])
add("cons-02-linear-plain-increment-capped", ["C05", "C01"], "countmin", AL,
    AL.replace("        count = cms[row, buckets[row]]\n        if count < new_count:\n            cms[row, buckets[row]] = new_count\n",
               "        count = cms[row, buckets[row]]\n        cms[row, buckets[row]] = count + min(value, uint_maxval - count)\n"), rules=["cons", "newcount"])
add("cons-03-linear-no-query", ["C05", "C01"], "countmin",
    "    min_count = _query_linear(cms, buckets, width, depth, uint_maxval, key)\n\n    # Counter is maxed out",
    "    min_count = cms[0, buckets[0]]\n\n    # Counter is maxed out", rules=["addr", "newcount", "cons"])
add("cons-04-log8-query-other-key", ["C05"], "countmin",
    "    min_count = _query_log8(cms, buckets, width, depth, uint_maxval, key)", "    min_count = _query_log8(cms, buckets, width, depth, uint_maxval, key[:1])", rules=["addr"])
add("cons-05-log16-writes-two-rows", ["C05"], "countmin",
    "        if count < new_count:\n            cms[row, buckets[row]] = new_count\n\n    return rand_ptr\n\n\n@njit(\n    uint64(\n        uint16[:, :],",
    "        if count < new_count:\n            cms[row, buckets[row]] = new_count\n            cms[0, buckets[row]] = new_count\n\n    return rand_ptr\n\n\n@njit(\n    uint64(\n        uint16[:, :],",
    rules=["cons"])
add("newcount-01-log16-step-from-zero", ["C05"], "countmin",
    "    new_count, rand_ptr = _log_counter(\n        min_count, num_reserved, uint_maxval, base, rand_nums, rand_ptr, value\n    )\n    # Nothing to do",
    "    new_count, rand_ptr = _log_counter(\n        uint16(0), num_reserved, uint_maxval, base, rand_nums, rand_ptr, value\n    )\n    # Nothing to do",
    rules=["newcount"])
add("newcount-02-log8-unit-step", ["C05"], "countmin",
    "    new_count, rand_ptr = _log_counter(\n        min_count, num_reserved, uint_maxval, base, rand_nums, rand_ptr, value\n    )\n    # Reminder",
    "    new_count, rand_ptr = _log_counter(\n        min_count, num_reserved, uint_maxval, base, rand_nums, rand_ptr, uint64(1)\n    )\n    # Reminder",
    rules=["newcount"])
add("nadd-01-linear-counts-uncapped", ["C05"], "countmin",
    "    value = min(value, uint_maxval - min_count)\n    new_count = min_count + value\n\n    # Track total number of elements added to the sketch\n    n_added_records[0] += uint64(value)",
    "    n_added_records[0] += uint64(value)\n    value = min(value, uint_maxval - min_count)\n    new_count = min_count + value\n", rules=["nadd-once"])
add("nadd-02-log16-counts-per-row", ["C05"], "countmin",
    "    # Track total number of elements added to the sketch\n    n_added_records[0] += uint64(value)\n\n    # This gets min_count AND updates buckets\n    min_count = _query_log16(cms, buckets, width, depth, uint_maxval, key)",
    "    # This gets min_count AND updates buckets\n    min_count = _query_log16(cms, buckets, width, depth, uint_maxval, key)\n    for r in range(depth):\n        n_added_records[0] += uint64(value)",
    rules=["nadd-once"])
add("nadd-03-log8-never-counts", ["C05"], "countmin",
    "    # Track total number of elements added to the sketch\n    n_added_records[0] += uint64(value)\n\n    # This gets min_count AND updates buckets\n    min_count = _query_log8(",
    "    # This gets min_count AND updates buckets\n    min_count = _query_log8(", rules=["nadd-once"])
add("logstep-01-step-two", ["C05", "C18"], "countmin",
    "        if cprime < 0:\n            counter += one", "        if cprime < 0:\n            counter += one + one", rules=["logstep"])
add("logstep-02-deterministic-boundary-le", ["C05"], "countmin",
    "        if cprime < 0:\n            counter += one", "        if cprime <= 0:\n            counter += one", rules=["logstep"])
add("logstep-03-loop-value-plus-one", ["C05"], "countmin",
    "    one = uint16(1)\n    for i in range(value):", "    one = uint16(1)\n    for i in range(value + 1):", rules=["logstep"])
add("E-logstep-01-int-compare", ["C05", "C18"], "countmin",
    "        if cprime < 0:\n            counter += one", "        if counter < num_reserved:\n            counter += one", kind="E")
