"""T2 corpus: breaking (B) and behaviour-preserving (E) in-memory edits, per rule family."""
from .mutants import M

CORPUS = []


def add(*a, **k):
    CORPUS.append(M(*a, **k))


# ---------------------------------------------------------------------------
# range / cap / mono / ceil  (C18, also seen by C01/C05/C03 where shared)
# ---------------------------------------------------------------------------
add("range-01-drop-linear-cap", ["C18", "C01"], "countmin",
    "    value = min(value, uint_maxval - min_count)\n", "", rules=["range", "newcount"])
add("cap-01-drop-wrapper-cap-linear", ["C18", "C01"], "countmin",
    "        value = min(value, self.uint_maxval)\n\n        _add_linear(", "        _add_linear(", rules=["cap"])
add("cap-02-drop-wrapper-cap-hh", ["C18", "C03"], "heavyhitters",
    "        value = min(value, self.uint_maxval)\n        _add(", "        _add(", rules=["cap"])
add("range-02-merge-linear-never-saturates", ["C18", "C01", "C09"], "countmin",
    "if other_cms[row, col] > uint_maxval - cms[row, col]:", "if False:", rules=["range", "msum"])
add("range-03-log-counter-no-ceiling-stop", ["C18", "C05"], "countmin",
    "        if counter >= uint_maxval:\n            return counter, rand_ptr\n", "", rules=["logstep", "range"])
add("range-04-hh-replace-guard-weak", ["C18", "C03"], "heavyhitters",
    "if value > lhh_count[row, col]:", "if value >= 0:", rules=["range", "bm-table"])
add("range-05-hh-add-guard-off-by-type", ["C18", "C03"], "heavyhitters",
    "if value < uint_maxval - lhh_count[row, col]:", "if value <= uint_maxval:", rules=["range"])
add("range-06-hh-merge-wrong-sub-order", ["C18", "C03"], "heavyhitters",
    "                    lhh_count[row, col] = (\n                        other_lhh_count[row, col] - lhh_count[row, col]\n                    )",
    "                    lhh_count[row, col] = (\n                        lhh_count[row, col] - other_lhh_count[row, col]\n                    )",
    rules=["range", "bm-table"])
add("range-07-merge-log8-ceiling-plus1", ["C18"], "countmin",
    "            elif v >= max_count:\n                cms[row, col] = uint_maxval\n            else:\n                cprime = np.log((v - num_reserved) * (base - 1.0) + 1.0) / np.log(base)\n                cprime = uint8(cprime)",
    "            elif v >= max_count:\n                cms[row, col] = uint_maxval + 1\n            else:\n                cprime = np.log((v - num_reserved) * (base - 1.0) + 1.0) / np.log(base)\n                cprime = uint8(cprime)",
    rules=["range"])
add("range-08-merge-log16-reserved-guard-wrong", ["C18"], "countmin",
    "            if v <= num_reserved:\n                cms[row, col] = uint16(v)", "            if v <= max_count:\n                cms[row, col] = uint16(v)",
    rules=["range"])
add("ceil-01-linear-ceiling-31-bits", ["C18", "C01"], "countmin",
    "self.uint_maxval = np.uint32(2**32 - 1)", "self.uint_maxval = np.uint32(2**31 - 1)", rules=["ceil"])
add("ceil-02-log8-table-uint16", ["C18"], "countmin",
    "            self.cms = np.zeros((depth, width), np.uint8)", "            self.cms = np.zeros((depth, width), np.uint16)", rules=["ceil"])
add("mono-01-linear-guard-inverted", ["C18", "C01", "C05"], "countmin",
    "        if count < new_count:\n            cms[row, buckets[row]] = new_count\n\n\n@njit(\n    types.void(\n        uint32[:, :],\n        uint64[:],\n        uint64[:],\n        uint64,\n        uint64,\n        uint32,\n        types.Bytes(types.uint8, 1, \"C\"),\n        uint64,",
    "        if count > new_count:\n            cms[row, buckets[row]] = new_count\n\n\n@njit(\n    types.void(\n        uint32[:, :],\n        uint64[:],\n        uint64[:],\n        uint64,\n        uint64,\n        uint32,\n        types.Bytes(types.uint8, 1, \"C\"),\n        uint64,",
    rules=["mono"])
add("mono-02-log16-unguarded-store", ["C18", "C05"], "countmin",
    "    for row in range(depth):\n        count = cms[row, buckets[row]]\n        if count < new_count:\n            cms[row, buckets[row]] = new_count\n\n    return rand_ptr\n\n\n@njit(\n    uint64(\n        uint16[:, :],",
    "    for row in range(depth):\n        cms[row, buckets[row]] = new_count\n\n    return rand_ptr\n\n\n@njit(\n    uint64(\n        uint16[:, :],",
    rules=["mono"])
# equivalent rewrites
add("E-range-01-rearranged-guard", ["C18", "C03"], "heavyhitters",
    "if value < uint_maxval - lhh_count[row, col]:", "if lhh_count[row, col] + value < uint_maxval:", kind="E")
add("E-range-02-swapped-arms", ["C18", "C01", "C09"], "countmin",
    "            if other_cms[row, col] > uint_maxval - cms[row, col]:\n                cms[row, col] = uint_maxval\n            else:\n                cms[row, col] += other_cms[row, col]",
    "            if not (other_cms[row, col] > uint_maxval - cms[row, col]):\n                cms[row, col] += other_cms[row, col]\n            else:\n                cms[row, col] = uint_maxval",
    kind="E")
add("E-range-03-renamed-locals", ["C18", "C01", "C05"], "countmin",
    "    value = min(value, uint_maxval - min_count)\n    new_count = min_count + value\n\n    # Track total number of elements added to the sketch\n    n_added_records[0] += uint64(value)",
    "    amount = min(value, uint_maxval - min_count)\n    new_count = amount + min_count\n\n    # Track total number of elements added to the sketch\n    n_added_records[0] += uint64(amount)",
    kind="E")
add("E-range-04-explicit-assign-form", ["C18", "C01", "C09"], "countmin",
    "                cms[row, col] += other_cms[row, col]\n    # Merge the special counters",
    "                cms[row, col] = cms[row, col] + other_cms[row, col]\n    # Merge the special counters", kind="E")
add("E-cap-01-cap-spelled-with-if", ["C18", "C01"], "countmin",
    "        value = min(value, self.uint_maxval)\n\n        _add_linear(",
    "        if value > self.uint_maxval:\n            value = self.uint_maxval\n\n        _add_linear(", kind="E")

# ---------------------------------------------------------------------------
# qmin / addr / cons / newcount / nadd-once / logstep  (C01, C05, C14)
# ---------------------------------------------------------------------------
QL = "    min_count = uint_maxval\n    for row in range(depth):\n        buckets[row] = fasthash64(key, row) % width\n        count = cms[row, buckets[row]]\n        if count < min_count:\n            min_count = count\n    return min_count\n\n\n@njit(\n    types.void(\n        uint32[:, :],"
add("qmin-01-linear-first-row-only", ["C01", "C05"], "countmin", QL, QL.replace("range(depth)", "range(1)"), rules=["qmin"])
add("qmin-02-linear-max-instead-of-min", ["C01", "C05"], "countmin", QL, QL.replace("if count < min_count", "if count > min_count"), rules=["qmin"])
add("qmin-03-linear-init-zero", ["C01", "C05"], "countmin", QL, QL.replace("min_count = uint_maxval\n", "min_count = uint32(0)\n"), rules=["qmin"])
add("qmin-04-linear-skip-last-row", ["C01", "C05"], "countmin", QL, QL.replace("range(depth)", "range(depth - 1)"), rules=["qmin"])
add("addr-01-linear-constant-seed", ["C01", "C05", "C14"], "countmin", QL, QL.replace("fasthash64(key, row)", "fasthash64(key, 0)"), rules=["qmin", "seedrow"])
add("addr-02-linear-mod-depth", ["C01", "C05", "C14"], "countmin", QL, QL.replace("% width", "% depth"), rules=["qmin", "seedrow"])
add("addr-03-linear-reads-other-column", ["C01", "C05"], "countmin", QL, QL.replace("count = cms[row, buckets[row]]", "count = cms[row, buckets[0]]"), rules=["qmin"])
add("E-qmin-01-seed-cast", ["C01", "C05", "C14"], "countmin", QL, QL.replace("fasthash64(key, row)", "fasthash64(key, uint64(row))"), kind="E")
add("E-qmin-02-le-for-lt", ["C01", "C05"], "countmin", QL, QL.replace("if count < min_count", "if count <= min_count"), kind="E")
add("E-qmin-03-min-builtin", ["C01", "C05"], "countmin", QL,
    QL.replace("        if count < min_count:\n            min_count = count\n", "        min_count = min(min_count, count)\n"), kind="E")

AL = "    for row in range(depth):\n        count = cms[row, buckets[row]]\n        if count < new_count:\n            cms[row, buckets[row]] = new_count\n\n\n@njit(\n    types.void(\n        uint32[:, :],\n        uint64[:],\n        uint64[:],\n        uint64,\n        uint64,\n        uint32,\n        types.Bytes(types.uint8, 1, \"C\"),\n        uint64,"
add("cons-01-linear-plain-increment", ["C05", "C01"], "countmin", AL,
    AL.replace("        count = cms[row, buckets[row]]\n        if count < new_count:\n            cms[row, buckets[row]] = new_count\n",
               "        cms[row, buckets[row]] += value\n"), rules=["cons", "range", "mono", "newcount"])
add("cons-02-linear-plain-increment-capped", ["C05", "C01"], "countmin", AL,
    AL.replace("        count = cms[row, buckets[row]]\n        if count < new_count:\n            cms[row, buckets[row]] = new_count\n",
               "        count = cms[row, buckets[row]]\n        cms[row, buckets[row]] = count + min(value, uint_maxval - count)\n"), rules=["cons", "newcount"])
add("cons-03-linear-no-query", ["C05", "C01"], "countmin",
    "    min_count = _query_linear(cms, buckets, width, depth, uint_maxval, key)\n\n    # Counter is maxed out",
    "    min_count = cms[0, buckets[0]]\n\n    # Counter is maxed out", rules=["addr", "newcount", "cons"])
add("cons-04-log8-query-other-key", ["C05"], "countmin",
    "    min_count = _query_log8(cms, buckets, width, depth, uint_maxval, key)", "    min_count = _query_log8(cms, buckets, width, depth, uint_maxval, key[:1])", rules=["addr"])
add("cons-05-log16-writes-two-rows", ["C05"], "countmin",
    "        if count < new_count:\n            cms[row, buckets[row]] = new_count\n\n    return rand_ptr\n\n\n@njit(\n    uint64(\n        uint16[:, :],",
    "        if count < new_count:\n            cms[row, buckets[row]] = new_count\n            cms[0, buckets[row]] = new_count\n\n    return rand_ptr\n\n\n@njit(\n    uint64(\n        uint16[:, :],",
    rules=["cons"])
add("newcount-01-log16-step-from-zero", ["C05"], "countmin",
    "    new_count, rand_ptr = _log_counter(\n        min_count, num_reserved, uint_maxval, base, rand_nums, rand_ptr, value\n    )\n    # Nothing to do",
    "    new_count, rand_ptr = _log_counter(\n        uint16(0), num_reserved, uint_maxval, base, rand_nums, rand_ptr, value\n    )\n    # Nothing to do",
    rules=["newcount"])
add("newcount-02-log8-unit-step", ["C05"], "countmin",
    "    new_count, rand_ptr = _log_counter(\n        min_count, num_reserved, uint_maxval, base, rand_nums, rand_ptr, value\n    )\n    # Reminder",
    "    new_count, rand_ptr = _log_counter(\n        min_count, num_reserved, uint_maxval, base, rand_nums, rand_ptr, uint64(1)\n    )\n    # Reminder",
    rules=["newcount"])
add("nadd-01-linear-counts-uncapped", ["C05"], "countmin",
    "    value = min(value, uint_maxval - min_count)\n    new_count = min_count + value\n\n    # Track total number of elements added to the sketch\n    n_added_records[0] += uint64(value)",
    "    n_added_records[0] += uint64(value)\n    value = min(value, uint_maxval - min_count)\n    new_count = min_count + value\n", rules=["nadd-once"])
add("nadd-02-log16-counts-per-row", ["C05"], "countmin",
    "    # Track total number of elements added to the sketch\n    n_added_records[0] += uint64(value)\n\n    # This gets min_count AND updates buckets\n    min_count = _query_log16(cms, buckets, width, depth, uint_maxval, key)",
    "    # This gets min_count AND updates buckets\n    min_count = _query_log16(cms, buckets, width, depth, uint_maxval, key)\n    for r in range(depth):\n        n_added_records[0] += uint64(value)",
    rules=["nadd-once"])
add("nadd-03-log8-never-counts", ["C05"], "countmin",
    "    # Track total number of elements added to the sketch\n    n_added_records[0] += uint64(value)\n\n    # This gets min_count AND updates buckets\n    min_count = _query_log8(",
    "    # This gets min_count AND updates buckets\n    min_count = _query_log8(", rules=["nadd-once"])
add("logstep-01-step-two", ["C05", "C18"], "countmin",
    "        if cprime < 0:\n            counter += one", "        if cprime < 0:\n            counter += one + one", rules=["logstep"])
add("logstep-02-deterministic-boundary-le", ["C05"], "countmin",
    "        if cprime < 0:\n            counter += one", "        if cprime <= 0:\n            counter += one", rules=["logstep"])
add("logstep-03-loop-value-plus-one", ["C05"], "countmin",
    "    one = uint16(1)\n    for i in range(value):", "    one = uint16(1)\n    for i in range(value + 1):", rules=["logstep"])
add("E-logstep-01-int-compare", ["C05", "C18"], "countmin",
    "        if cprime < 0:\n            counter += one", "        if counter < num_reserved:\n            counter += one", kind="E")

# ---------------------------------------------------------------------------
# heavy hitters: keyid / bm-table / keynorm / scan-all / maxcount / report  (C03, C04, C13)
# ---------------------------------------------------------------------------
add("keyid-01-add-bytes-only (F1 pre-fix)", ["C03", "C04", "C13"], "heavyhitters",
    "        if np.all(key_array == lhh[row, col]) and key_lens[row, col] == key_len:", "        if np.all(key_array == lhh[row, col]):",
    rules=["keyid"])
add("keyid-02-maxcount-bytes-only (F1 pre-fix)", ["C03", "C04", "C13"], "heavyhitters",
    "            np.all(key_array == lhh[row, col])\n            and key_lens[row, col] == key_len\n            and lhh_count[row, col] > max_count",
    "            np.all(key_array == lhh[row, col])\n            and lhh_count[row, col] > max_count", rules=["keyid"])
add("keyid-03-merge-bytes-only", ["C03", "C04"], "heavyhitters",
    "            keys_match = (np.all(lhh[row, col] == other_lhh[row, col])) and (\n                key_lens[row, col] == other_key_lens[row, col]\n            )",
    "            keys_match = np.all(lhh[row, col] == other_lhh[row, col])", rules=["keyid"])
add("keyid-04-merge-length-of-wrong-cell", ["C03", "C04"], "heavyhitters",
    "                key_lens[row, col] == other_key_lens[row, col]\n            )", "                key_lens[row, col] == other_key_lens[row, 0]\n            )", rules=["keyid"])
add("keynorm-01-getitem-no-truncation (F3 pre-fix)", ["C04"], "heavyhitters",
    "        key = key[: int(self.max_key_len)]\n        key_len = len(key)", "        key_len = len(key)", rules=["keynorm"])
add("keynorm-02-add-hashes-untruncated-key", ["C04"], "heavyhitters",
    "        key = key[:max_key_len]\n        key_len = max_key_len\n        key_array = np.frombuffer(key, uint8)",
    "        key_len = max_key_len\n        key_array = np.frombuffer(key[:max_key_len], uint8)", rules=["addr", "keynorm"])
add("bm-01-replacement-takes-full-value", ["C03", "C04"], "heavyhitters",
    "                lhh_count[row, col] = value - lhh_count[row, col]\n", "                lhh_count[row, col] = value\n", rules=["bm-table"])
add("bm-02-replacement-forgets-length", ["C03", "C04"], "heavyhitters",
    "                key_lens[row, col] = uint8(key_len)\n", "", rules=["bm-table"])
add("bm-03-merge-arms-swapped", ["C03", "C04"], "heavyhitters",
    "                if lhh_count[row, col] >= other_lhh_count[row, col]:", "                if lhh_count[row, col] < other_lhh_count[row, col]:",
    rules=["bm-table", "range"])
add("bm-04-match-increments-by-one", ["C03", "C04"], "heavyhitters",
    "                lhh_count[row, col] += value\n", "                lhh_count[row, col] += uint32(1)\n", rules=["bm-table"])
add("bm-05-merge-match-takes-max", ["C03", "C04"], "heavyhitters",
    "                    lhh_count[row, col] += other_lhh_count[row, col]", "                    lhh_count[row, col] = max(lhh_count[row, col], other_lhh_count[row, col])",
    rules=["bm-table"])
add("bm-06-merge-replacement-keeps-old-length", ["C03", "C04"], "heavyhitters",
    "                    key_lens[row, col] = other_key_lens[row, col]\n", "", rules=["bm-table"])
add("bm-07-no-decrement", ["C04"], "heavyhitters",
    "            else:\n                lhh_count[row, col] -= value\n", "", rules=["bm-table"])
add("E-bm-01-tie-goes-to-newcomer", ["C03", "C04", "C18"], "heavyhitters",
    "            if value > lhh_count[row, col]:", "            if value >= lhh_count[row, col]:", kind="E")
add("E-bm-02-merge-arms-swapped-consistently", ["C03", "C04", "C18"], "heavyhitters",
    "                if lhh_count[row, col] >= other_lhh_count[row, col]:\n                    lhh_count[row, col] -= other_lhh_count[row, col]\n                else:\n                    lhh[row, col] = other_lhh[row, col]\n                    key_lens[row, col] = other_key_lens[row, col]\n                    lhh_count[row, col] = (\n                        other_lhh_count[row, col] - lhh_count[row, col]\n                    )",
    "                if lhh_count[row, col] < other_lhh_count[row, col]:\n                    lhh[row, col] = other_lhh[row, col]\n                    key_lens[row, col] = other_key_lens[row, col]\n                    lhh_count[row, col] = (\n                        other_lhh_count[row, col] - lhh_count[row, col]\n                    )\n                else:\n                    lhh_count[row, col] -= other_lhh_count[row, col]",
    kind="E")
add("scan-01-maxcount-first-row-only", ["C04", "C13"], "heavyhitters",
    "    max_count = uint32(0)\n    for row in range(depth):", "    max_count = uint32(0)\n    for row in range(1):", rules=["scan-all"])
add("scan-02-candidates-first-row-only", ["C04", "C13"], "heavyhitters",
    "        for row in range(self.depth):\n            for column in range(self.width):", "        for row in range(1):\n            for column in range(self.width):",
    rules=["scan-all"])
add("scan-03-skip-small-counts", ["C04", "C13"], "heavyhitters",
    "                if self.lhh_count[row, column] == 0:\n                    continue", "                if self.lhh_count[row, column] <= 1:\n                    continue",
    rules=["scan-all"])
add("maxcount-01-running-min", ["C03", "C04"], "heavyhitters",
    "            and lhh_count[row, col] > max_count\n", "            and lhh_count[row, col] < max_count\n", rules=["maxcount", "scan-all"])
add("maxcount-02-counts-non-matching-cells", ["C03"], "heavyhitters",
    "        if (\n            np.all(key_array == lhh[row, col])\n            and key_lens[row, col] == key_len\n            and lhh_count[row, col] > max_count\n        ):",
    "        if lhh_count[row, col] > max_count:", rules=["maxcount", "keyid"])
add("report-01-key-not-cut-to-length", ["C03", "C13"], "heavyhitters",
    "                key = bytes(self.lhh[row, column, :key_len])", "                key = bytes(self.lhh[row, column, :])", rules=["report", "same-kernel", "keynorm"])
add("report-02-count-from-cell", ["C13"], "heavyhitters",
    "                        self.candidate_set[key] = max_count", "                        self.candidate_set[key] = self.lhh_count[row, column]", rules=["same-kernel"])
add("cachekey-01-threshold-ignored", ["C13"], "heavyhitters",
    "        if (self.n_added_sort < self.n_added()) or (self.threshold_sort != threshold):", "        if self.n_added_sort < self.n_added():", rules=["cachekey"])
add("cachekey-02-threshold-not-recorded", ["C13"], "heavyhitters",
    "        self.threshold_sort = threshold\n", "", rules=["cachekey"])
add("cachekey-03-counter-reused", ["C13"], "heavyhitters",
    "        self.threshold_sort = threshold\n        self.candidate_set = Counter()\n", "        self.threshold_sort = threshold\n", rules=["cachekey"])
add("cachekey-04-nadded-ignored", ["C13"], "heavyhitters",
    "        if (self.n_added_sort < self.n_added()) or (self.threshold_sort != threshold):", "        if self.threshold_sort != threshold:", rules=["cachekey"])
add("cachekey-05-regenerate-with-default", ["C13"], "heavyhitters",
    "            self.generate_candidate_set(threshold)\n", "            self.generate_candidate_set()\n", rules=["cachekey"])
add("cachekey-06-and-for-or", ["C13"], "heavyhitters",
    "        if (self.n_added_sort < self.n_added()) or (self.threshold_sort != threshold):", "        if (self.n_added_sort < self.n_added()) and (self.threshold_sort != threshold):", rules=["cachekey"])
add("filter-01-strict", ["C13"], "heavyhitters",
    "                    if max_count >= threshold:", "                    if max_count > threshold:", rules=["filter"])
add("filter-02-default-threshold-differs", ["C13"], "heavyhitters",
    "        if threshold is None:\n            threshold = np.uint32(self.phi * self.n_added())\n        else:\n            threshold = np.uint32(threshold)\n\n        self.n_added_sort",
    "        if threshold is None:\n            threshold = np.uint32(self.phi * self.width)\n        else:\n            threshold = np.uint32(threshold)\n\n        self.n_added_sort", rules=["filter"])
add("topk-01-k-plus-one", ["C13"], "heavyhitters",
    "        return self.candidate_set.most_common(k)", "        return self.candidate_set.most_common(k + 1)", rules=["topk"])
add("mutators-01-merge-forgets-nadded", ["C13"], "heavyhitters",
    "    # Merge the special counters\n    n_added_records[0] += other_n_added_records[0]\n    n_added_records[1] += other_n_added_records[1]\n\n\n@njit(\n    uint32(",
    "    # Merge the special counters\n    n_added_records[1] += other_n_added_records[1]\n\n\n@njit(\n    uint32(", rules=["sumcounters", "mutators"])
add("E-cachekey-01-demorgan", ["C13"], "heavyhitters",
    "        if (self.n_added_sort < self.n_added()) or (self.threshold_sort != threshold):", "        if not (self.n_added_sort >= self.n_added() and self.threshold_sort == threshold):", kind="E")
add("E-cachekey-02-ne-for-lt", ["C13"], "heavyhitters",
    "        if (self.n_added_sort < self.n_added()) or (self.threshold_sort != threshold):", "        if (self.n_added_sort != self.n_added()) or (self.threshold_sort != threshold):", kind="E")
add("E-filter-01-flipped", ["C13"], "heavyhitters",
    "                    if max_count >= threshold:", "                    if threshold <= max_count:", kind="E")
