"""Thorough tier = quick rules + (T2) in-memory mutant self-test of the property's rules
+ (T3) Numba typed-IR cross-check of the type premises (where the property has any)
+ (T4) larger bounds for the finite abstract interpreters (handled inside the rules through ctx.tier)."""
from __future__ import annotations

import os


def run(prop, ctx):
    from .mutants import run_corpus
    results, errors = run_corpus(prop)
    st = {"mutants_run": len(results),
          "breaking_caught": sum(1 for r in results if r[2] == "B" and r[3].startswith("caught")),
          "breaking_total": sum(1 for r in results if r[2] == "B" and r[3] != "skipped"),
          "breaking_answered_exit2": [r[0] for r in results if r[2] == "B2"],      # seeded defects the targeted check answers with exit 2 (recorded in their meta.json)
          "equivalent_silent": sum(1 for r in results if r[2] == "E" and r[3] == "silent"),
          "equivalent_total": sum(1 for r in results if r[2] == "E" and r[3] != "skipped"),
          "skipped": [r[0] for r in results if r[3] == "skipped"],
          "results": [{"id": r[0], "kind": r[2], "outcome": r[3], "where": r[4][:160]} for r in results],
          "errors": errors}
    print("  self-test: %d mutants, %d/%d breaking variants reported, %d/%d behaviour-preserving variants silent, %d skipped"
          % (st["mutants_run"], st["breaking_caught"], st["breaking_total"], st["equivalent_silent"],
             st["equivalent_total"], len(st["skipped"])))
    extra = {}
    if os.environ.get("SKETCHNU_VERIF_NO_IR") != "1":
        try:
            from . import numba_ir
            ir = numba_ir.crosscheck(prop, ctx)
            extra.update(ir)
            for e in (ir.get("numba_typed_ir") or {}).get("errors", []):
                st["errors"].append("typed-IR premise: " + e)
        except ImportError as e:
            print("  typed-IR cross-check skipped: %s" % e)
    return st, extra
