"""Per-property rule sets.  Each entry: run(ctx), level, explanation, trusted base."""
from __future__ import annotations

from . import rules_arith as RA
from .facts import COUNTMIN, SKETCH_CLASSES, facts_of

TRUST_NUMBA = ("CPython ast is a faithful view of the working tree",
               "Numba: explicit @njit signatures cast arguments/returns; stores into uintN arrays truncate; "
               "uint32 arithmetic is carried out in 64 bits")

PROPS = {}


def prop(pid, level, explanation, trusted=()):
    def deco(fn):
        PROPS[pid] = {"run": fn, "level": level, "explanation": explanation, "trusted": TRUST_NUMBA + tuple(trusted)}
        return fn
    return deco


# ---------------------------------------------------------------------------

def plumbing(ctx, mergetree=True):
    """The library's own merge-history generator and attach path (helpers.py): properties stated over 'any history of adds and
    merges' are also exercised through parallel_merging / attach_shared_memory, so the schedule (every sketch merged exactly once,
    none with itself) and the rebuilding of attached views from the owner's recorded arguments are necessary conditions there."""
    from .model import AnalysisError
    with ctx.soft("helpers.py is decided by C08/C16"):
        try:
            if mergetree:
                RP.rule_mergetree(ctx)
            RT.rule_attach_table(ctx)
        except AnalysisError as e:
            ctx.note("plumbing rules not decided here (helpers.py is decided by C08/C16): %s" % e)



@prop("C18", "other",
      "Checked-arithmetic discipline decided statically: every value stored into a uint32/uint16/uint8 counter cell "
      "(count-min tables, heavy-hitter counts) is proven to lie in [0, ceiling] from the guards that dominate the store "
      "(difference-bound entailment over the structured flow walk of every kernel that writes such a table); every "
      "unsigned subtraction on counters is proven non-negative; every count-min store is proven non-decreasing; the "
      "Python-level multiplicity is proven capped before it reaches a uint32 parameter; ceilings/table dtypes/kernel "
      "signatures agree; _find_base returns a base only after a residual check of its defining equation, raising ValueError otherwise "
      "(findbase-post, which also proves the solver's unsigned subtractions non-negative at the constructors' calls); the log merges "
      "store the ceiling when the decoded sum reaches max_count and otherwise choose the nearer of the two neighbouring counters by their decoded values (logmerge-shape); every path of the heavy-hitter cell update is a match "
      "(count = min(c + v, ceiling)), a replacement or a decrement (bm-table). "
      "Not decided: floating-point accuracy of that residual test and the float-derived re-encoding stores of _merge_log*.")
def c18(ctx):
    F = facts_of(ctx)
    RA.rule_bind(ctx, [c for c in SKETCH_CLASSES if c[1] != "HyperLogLog"])
    RA.rule_ceil(ctx)
    ns, nsub = RA.rule_range(ctx)
    nm = RA.rule_mono(ctx, {"cms"})
    RA.rule_cap(ctx)
    RA.rule_call_range(ctx)
    RA.rule_logstep(ctx)
    RA.rule_findbase_post(ctx)
    RM.rule_logmerge_shape(ctx)       # C18: the reserved-range and ceiling branches of the log merge, and -- for "no merge ever lowers an
    #                                   estimate" -- the nearest-counter choice between clower and clower+1 against their real decoded values
    _counted = [c for c in SKETCH_CLASSES if c[1] != "HyperLogLog"]
    RT.rule_wrapper_once(ctx, _counted, ("add", "merge"))      # the saturation discipline lives in the kernels: a wrapper path that changes
    RT.rule_state_owner(ctx, _counted, methods=("add", "add_ngram", "update", "update_ngram", "merge"))   # counters without them (a NumPy fast path) escapes it
    with ctx.only({"bm-table"}):
        RH.rule_bm_table(ctx)      # "a heavy-hitter count that fills its cells alone only grows": on a match the count is min(c + v, ceiling), on every path
    ctx.floor("findbase-post", 3)
    ctx.floor("range", 2 * 15 + 6, "15 decidable counter stores x2 bounds + unsigned subtractions")
    ctx.floor("mono", 6)
    ctx.floor("cap", 2)
    ctx.floor("ceil", 4 * 3)
    ctx.undecided_clauses.append("the floating-point accuracy of the residual test in _find_base (tolerance 1e-9 relative) -- numeric; the "
                                 "clause 'accepted configuration => ceiling decodes to max_count, else ValueError' is decided structurally by findbase-post")
    ctx.assumptions.append("_counter2value(...) >= 0 (base > 1 is enforced by _find_base raising otherwise)")


# ---------------------------------------------------------------------------

@prop("C01", "other",
      "Structural necessary conditions of the count-min bounds, decided on every path of the three linear kernels: the "
      "estimate is a running minimum over range(depth) of exactly the cells cms[row, fasthash64(key,row) % width] (qmin, addr); "
      "the add raises only those cells, only upward, all to the same min(old_min + v, 2^32-1) (cons, newcount, mono, range); "
      "the Python multiplicity is capped before the uint32 parameter (cap); the merge stores min(a + b, 2^32-1) in every "
      "cell, once, over the whole table, reading but never writing the second operand (msum, cover, other-ro). "
      "Not decided: the arithmetic induction from these facts to the two bounds (hand argument in DESIGN.md) and FastHash itself (C11).")
def c01(ctx):
    F = facts_of(ctx)
    lin = [("countmin", "CountMinLinear")]
    RA.rule_bind(ctx, lin)
    RA.rule_attr_type(ctx, lin)
    RA.rule_ceil(ctx)
    lcls = ctx.model.cls("countmin", "CountMinLinear")
    own = {c.callee.key for mname in ("query", "add") if mname in lcls.methods for c in F.calls_from(lcls.methods[mname]) if c.callee.is_kernel}
    ks = [k for k in RA.query_kernels(F) if k.key in own]
    aks = [k for k in RA.add_kernels(F) if k.key in own]
    if not ks or not aks:
        from .model import AnalysisError
        raise AnalysisError("linear query/add kernels not found through CountMinLinear.query/add")
    own_all = RA.class_kernels(F, lin)          # C01 is about the linear sketch: its own kernels only
    RA.rule_qmin(ctx, ks)
    RA.rule_cons(ctx, aks)
    RA.rule_newcount(ctx, only=own_all)
    RA.rule_call_range(ctx, only=own_all)
    RA.rule_cap(ctx, lin)
    RA.rule_range(ctx, {"cms"}, only=own_all)
    RA.rule_mono(ctx, {"cms"}, only=own_all)
    RA.rule_msum(ctx)
    mk = RA.merge_kernels(F, lin)
    RA.rule_cover(ctx, mk)
    RA.rule_other_ro(ctx, mk)
    RA.rule_sumcounters(ctx, mk)
    RT.rule_wrapper_once(ctx, lin)
    RT.rule_state_owner(ctx, lin)
    RA.rule_no_skip(ctx, aks)
    RT.rule_value_fwd(ctx, lin)
    RT.rule_window(ctx, lin)
    RT.rule_deleg(ctx, lin)
    RT.rule_persist(ctx, lin)
    RT.rule_layout(ctx, lin)
    RT.rule_observers(ctx, lin)        # N in the bound is n_added(): it must read the element counter
    plumbing(ctx)
    ctx.floor("qmin", 5)
    ctx.floor("cons", 3)
    ctx.floor("msum", 3)
    ctx.floor("cap", 1)
    ctx.undecided_clauses.append("the inductive arithmetic from (cons, qmin, msum) to 'true <= estimate <= classic count-min value' is a hand argument (DESIGN.md C01)")


@prop("C05", "other",
      "Conservative-update shape decided for all three counter types: one table store site per add kernel, inside one "
      "loop over range(depth), indexed [row, buckets[row]] with buckets freshly produced by the dominating query of the same "
      "key; the store is guarded so that it never lowers a cell; the stored value is the same new_count for every row, equal "
      "to min(old_min + v, ceiling) (linear) or to the _log_counter step of (old_min, v) (log); _log_counter moves by +1 per "
      "step, at most v steps, deterministically exactly when counter < num_reserved; n_added grows once by the multiplicity applied. "
      "Not decided: the distribution of log steps (C06).")
def c05(ctx):
    F = facts_of(ctx)
    RA.rule_bind(ctx, COUNTMIN)
    RA.rule_attr_type(ctx, COUNTMIN, methods=("add", "add_ngram", "update", "update_ngram", "query", "__getitem__"))
    RA.rule_call_range(ctx, only=RA.class_kernels(F, COUNTMIN, ("add", "add_ngram", "query")))
    RA.rule_ceil(ctx)
    RA.rule_qmin(ctx)
    RA.rule_cons(ctx)
    RA.rule_newcount(ctx)
    RA.rule_mono(ctx, {"cms"})
    RA.rule_logstep(ctx)
    RA.rule_nadd_once(ctx, RA.add_kernels(F))
    RA.rule_cap(ctx, COUNTMIN)          # add(key, v): v is capped at the ceiling before it reaches the typed kernel parameter (no wrap to v mod 2^32)
    RT.rule_wrapper_once(ctx, COUNTMIN, ("add", "query"))
    RA.rule_no_skip(ctx, RA.add_kernels(F))
    RT.rule_observers(ctx, COUNTMIN)
    RT.rule_value_fwd(ctx, COUNTMIN)
    RT.rule_window(ctx, COUNTMIN)
    RT.rule_layout(ctx, COUNTMIN)       # "at most one counter per row changes, n_added grows by v": the table and the bookkeeping counters
    #                                     of a shared-memory sketch must be disjoint segments of its block
    plumbing(ctx, mergetree=False)
    ctx.floor("no-skip", 6)
    ctx.floor("qmin", 15)
    ctx.floor("cons", 9)
    ctx.floor("addr", 3)
    ctx.floor("newcount", 3)
    ctx.floor("nadd-once", 6)
    ctx.undecided_clauses.append("the step num_reserved -> num_reserved+1 being certain relies on rand < base**0 (numeric); distribution of log steps (C06)")


# ---------------------------------------------------------------------------
from . import rules_hh as RH


@prop("C03", "other",
      "Structural necessary conditions of 'never over-count / never report an un-added key', decided on every path of the "
      "heavy-hitter kernels: key identity is bytes AND length at every stored-key comparison (keyid); the per-cell transition "
      "is the Boyer-Moore table (count rises only on a match, by exactly the added amount; replacement only when the incoming "
      "amount wins, writing bytes+length+count together) (bm-table); no counter wraps in either direction (range, cap); stored "
      "lengths never exceed max_key_len so reported keys are stored keys (keylen-inv, ctor-range, report); reported counts are "
      "the reader kernel's running max over matching cells (maxcount, same-kernel); in a shared block the tables and the bookkeeping "
      "counters do not overlap (layout). Not decided: the induction count <= f(key) (hand argument).")
def c03(ctx):
    F = facts_of(ctx)
    hh = [("heavyhitters", "HeavyHitters")]
    RA.rule_bind(ctx, hh)
    RA.rule_ceil(ctx)
    RH.rule_ctor_range(ctx)
    RH.rule_keyid(ctx)
    RH.rule_bm_table(ctx)
    RH.rule_keylen_inv(ctx)
    RH.rule_keynorm(ctx)          # the buffer that is compared and stored holds the key's own bytes (zero padded), for writer and reader alike
    RA.rule_attr_type(ctx, hh)    # no kernel parameter narrower than the attribute it receives (a truncated max_key_len / ceiling changes identities and counts)
    RA.rule_range(ctx, {"lhh_count"})
    RA.rule_cap(ctx, hh)
    RA.rule_call_range(ctx, only=RA.class_kernels(F, hh))
    RH.rule_maxcount(ctx)
    RH.rule_report(ctx)
    RT.rule_wrapper_once(ctx, hh)
    RT.rule_state_owner(ctx, hh)
    RT.rule_value_fwd(ctx, hh)
    RT.rule_window(ctx, hh)
    RT.rule_deleg(ctx, hh)
    RT.rule_persist(ctx, hh)
    RT.rule_post_load(ctx)
    RH.rule_cachekey(ctx)          # "never reports a key that was not added": what query() hands out is this sketch's own candidate set, rebuilt
    #                               into a fresh Counter and keyed on its own counters (a cache shared between objects reports another sketch's keys)
    RT.rule_observers(ctx, hh)
    RT.rule_layout(ctx, hh)        # in a shared block the four tables and the bookkeeping counters must not overlap: a counter update that
    #                               lands in key_lens changes the identity of stored keys (reported keys that were never added)
    plumbing(ctx)
    ctx.floor("window", 4)
    ctx.floor("keyid", 3)
    ctx.floor("bm-table", 8)
    ctx.floor("range", 20)
    ctx.floor("keylen-inv", 2)
    ctx.undecided_clauses.append("the induction 'stored count <= true count of the stored key' from O1-O3 is a hand argument (DESIGN.md C03)")


@prop("C04", "other",
      "Structural necessary conditions of the majority guarantee: the Boyer-Moore transition table O1-O4 in _add and _merge "
      "(the potential argument of DESIGN.md needs exactly these cases), key identity = bytes AND length (keyid), all rows scanned "
      "by the reader kernel and by the candidate scan, only empty cells skipped (scan-all), writer and reader normalise keys "
      "identically and address the same cells (keynorm, addr). Not decided: the side condition 'absent 32-bit saturation' and the "
      "potential-function induction itself (hand argument).")
def c04(ctx):
    F = facts_of(ctx)
    hh = [("heavyhitters", "HeavyHitters")]
    RA.rule_bind(ctx, hh)
    RH.rule_ctor_range(ctx)
    RH.rule_keyid(ctx)
    RH.rule_bm_table(ctx)
    RH.rule_keylen_inv(ctx)
    RH.rule_keynorm(ctx)
    RH.rule_hh_addr(ctx)
    RH.rule_maxcount(ctx)
    RH.rule_report(ctx)
    RH.rule_skip_zero(ctx)
    mk = RA.merge_kernels(F, hh)
    RA.rule_cover(ctx, mk)
    RT.rule_wrapper_once(ctx, hh)
    RT.rule_state_owner(ctx, hh)
    RA.rule_no_skip(ctx, [RH.hh_kernels(F)["add"]])
    RT.rule_window(ctx, hh)
    # "query(k, threshold) contains the key ... whenever the bound reaches the threshold": the answer must be fresh and unfiltered
    RH.rule_cachekey(ctx)
    RH.rule_filter(ctx)
    RH.rule_topk(ctx)
    RH.rule_mutators(ctx)
    RA.rule_attr_type(ctx, hh)                                     # a multiplicity / width / length truncated on its way into a kernel under-counts
    RA.rule_call_range(ctx, only=RA.class_kernels(F, hh))
    RT.rule_deleg(ctx, hh)
    RT.rule_value_fwd(ctx, hh)
    RT.rule_observers(ctx, hh)         # W_r and the default threshold are stated in terms of n_added()
    plumbing(ctx)
    ctx.floor("keyid", 3)
    ctx.floor("bm-table", 8)
    ctx.floor("keynorm", 4)
    ctx.floor("scan-all", 4)
    ctx.floor("addr", 6)


@prop("C13", "other",
      "Cache coherence and provenance of query(k, threshold), decided structurally: the candidate cache is reused only on paths "
      "whose facts entail recorded n_added >= current and recorded threshold == effective threshold; every rebuild records both "
      "keys and starts from an empty Counter (cachekey); every table-writing method bumps n_added through its kernel or rebuilds "
      "(mutators, nadd-once, sumcounters); a candidate is listed iff its count >= threshold, default threshold uint32(phi*n_added()) "
      "in both places (filter); listed counts come from the same reader kernel as hh[key] (same-kernel); the answer is "
      "most_common(k) unmodified (topk); the scan covers all cells and key identity includes the length (scan-all, keyid, report).",
      trusted=("collections.Counter.most_common: sorted non-increasing, at most k, distinct keys",))
def c13(ctx):
    F = facts_of(ctx)
    hh = [("heavyhitters", "HeavyHitters")]
    RA.rule_bind(ctx, hh)
    RH.rule_cachekey(ctx)
    RH.rule_mutators(ctx)
    RH.rule_filter(ctx)
    RH.rule_topk(ctx)
    RH.rule_report(ctx)
    RH.rule_skip_zero(ctx)
    RH.rule_keyid(ctx)
    RH.rule_maxcount(ctx)
    ks = RH.hh_kernels(F)
    RA.rule_nadd_once(ctx, [ks["add"]])
    RA.rule_sumcounters(ctx, [ks["merge"]])
    RT.rule_wrapper_once(ctx, hh)
    RT.rule_state_owner(ctx, hh, methods=("query", "generate_candidate_set", "add", "add_ngram", "merge", "__getitem__"))
    RH.rule_keynorm(ctx)           # "each count equal to hh[key]": the scan and __getitem__ hand the reader kernel the same normalised key
    RT.rule_post_load(ctx)         # "... equals the answer of a freshly loaded copy": the loader rebuilds the candidate cache
    RT.rule_observers(ctx, hh)
    ctx.floor("cachekey", 6)
    ctx.floor("mutators", 3)
    ctx.floor("filter", 4)
    ctx.floor("topk", 2)


# ---------------------------------------------------------------------------
from . import rules_tables as RT


@prop("C15", "proof",
      "Enumerated proof obligations over the five merge() methods, decided on the paths of the flow walk (helpers, flags, inverted "
      "branches and temporaries make no difference): (guard-set) on every path that reaches the merge kernel every required attribute -- "
      "the set derived from the constructor signature, minus phi, plus the counter-type discriminator -- was decided equal, and a refusal "
      "is reached only through an inequality of a required attribute (no extra comparison refuses compatible sketches); (guard-first) a "
      "refusal raises TypeError and nothing is written on its path, nor between the guard and the kernel; (guard-order) an attribute a "
      "linear sketch lacks is loaded from `other` only where the discriminator is already known equal, including inside the refusal "
      "message; (ctor-attr, attr-type) each compared attribute is the same-named constructor parameter as a NumPy scalar of the width "
      "its consumers expect. All obligations must be discharged.",
      trusted=("NumPy scalar != is value comparison", "Python `or` short-circuits left to right"))
def c15(ctx):
    RT.rule_mergeguard(ctx)
    # what merge() does once the guard has passed is C09/C01/C02's concern; here: the compared attributes have the types the guard relies on
    RA.rule_attr_type(ctx, narrowing=False)
    ctx.floor("guard-first", 20)
    ctx.floor("guard-set", 18 + 5)
    ctx.floor("guard-order", 2)
    ctx.floor("ctor-attr", 18)


@prop("C10", "other",
      "Writer/reader table agreement decided for all five classes (methods resolved through the MRO): every table allocated by the "
      "constructor in both branches is a member of save()'s np.savez and is restored by load() with np.copyto from the same member "
      "name; every member read was written; args lists the constructor parameters in constructor order and the loader feeds them back "
      "in that order with shared_memory forwarded; the args dtype represents unbounded parameters exactly; dtype dispatch of the module "
      "load(), the class loaders' TypeError checks and the table dtypes agree three ways; HeavyHitters.load rebuilds the candidate cache. "
      "Not decided: NumPy's own round trip; evolution of log sketches under identical draws.",
      trusted=("np.savez / np.load round-trip arrays exactly",))
def c10(ctx):
    RT.rule_persist(ctx)
    RA.rule_attr_type(ctx, narrowing=False)
    RT.rule_dispatch(ctx)
    RT.rule_post_load(ctx)
    RT.rule_reload_valid(ctx)
    RT.rule_args_private(ctx)
    RT.rule_observers(ctx)
    RT.rule_state_owner(ctx, methods=("save", "load", "__init__", "attach_existing_shm"))      # C10 is about save/load
    RT.rule_layout(ctx)             # load(..., shared_memory=True) copies the saved tables into a shared block: its segments must not overlap
    RH.rule_cachekey(ctx)          # "every query equals the original's": an answer depends on the persistent state only, not on what the
                                   # original happened to be asked before it was saved
    RA.rule_ceil(ctx)
    ctx.floor("persist-table", 30)
    ctx.floor("ctor-args", 20)
    ctx.floor("lossless-args", 14)
    ctx.floor("dispatch", 9)
    ctx.floor("fwd-shm", 8)


@prop("C20", "other",
      "Repository-side necessary conditions only: on every load path the file is read exclusively through `with np.load(filename)` "
      "(zip container whose end-of-central-directory record is written last; no allow_pickle, no mmap), known prefix-tolerant readers "
      "are violations and unknown readers make the check undecided; no exception handler on a load path swallows a failed read, and the "
      "loaders return only after all members were read; on the writer side each save() produces the file with exactly one np.savez call "
      "and nothing re-opens or appends to it afterwards (a trailing zip comment would make truncated copies loadable); for 'the complete "
      "file loads to the saved sketch' the writer/reader agreement clauses of persist (tables written, arguments written without loss and "
      "restored into their own constructor positions). That every strict "
      "prefix of an np.savez archive is rejected is a property of NumPy/zipfile and is trusted.",
      trusted=("zip container semantics: np.load of a strict prefix of an .npz raises",))
def c20(ctx):
    RT.rule_reader_api(ctx)
    RT.rule_no_swallow(ctx)
    RT.rule_writer_api(ctx)
    # "only the complete file loads, and it loads to the saved sketch": the tables and the constructor arguments are written without
    # loss and handed back in their own positions (the writer/reader agreement clauses of persist)
    with ctx.only({"lossless-args", "ctor-args", "persist-table"}):
        RT.rule_persist(ctx)
    ctx.floor("writer-api", 4)
    ctx.floor("reader-api", 9)
    ctx.floor("no-swallow", 6)


@prop("C16", "other",
      "Creator/attacher agreement decided symbolically (sizes and offsets as polynomials in width, depth, max_key_len, m): the ordered "
      "segment lists (attribute, dtype, start, end, shape) of the shared branch of __init__ and of attach_existing_shm are equal, each "
      "segment starts where the previous one ends, its byte length equals itemsize x shape, the requested block size is their sum + 16; "
      "the in-memory branch allocates the same dtypes/shapes; only the owner unlinks, views only close, arrays are deleted before close; "
      "self.args reconstructs the same class through the factory; tag<->factory tables of attach_shared_memory/parallel_merging are inverse. "
      "Alignment is deliberately not a rule (unaligned views work; DESIGN.md section 1). Not decided: OS segment lifetime.")
def c16(ctx):
    RT.rule_layout(ctx)
    RT.rule_owner(ctx)
    RT.rule_argsdict(ctx)
    RH.rule_cachekey(ctx)          # "all views observe one state": a handle's cached answer is keyed on the shared counters, not on a flag of its own
    RT.rule_factory(ctx)
    RT.rule_attach_table(ctx)
    RT.rule_state_owner(ctx)
    RA.rule_ceil(ctx)
    ctx.floor("layout", 60)
    ctx.floor("alloc-agree", 12)
    ctx.floor("owner", 20)
    ctx.floor("argsdict", 20)
    ctx.floor("attach-table", 10)


@prop("C12", "other",
      "Delegation shapes and the n-gram window schema, decided structurally: update(dict) is `for key, value in keys.items(): "
      "self.add(key, value)` (HLL: keys only), update(list) is `for key in keys: self.add(key)`, update_ngram is add_ngram per element, "
      "sketch[key] returns self.query(key), inherited entry points dispatch through the MRO to the subclass's own add; each of the five "
      "_add_ngram* kernels adds the whole key once iff len(key) <= n and otherwise exactly the windows key[i:i+n], i in range(len-n+1), "
      "each once with the sketch state forwarded unchanged; add() forwards key and (capped) multiplicity to one kernel call; for log "
      "sketches the bulk step is exactly `value` unit steps of _log_counter (+1 each, no shortcut that is not value-exact) with the draw "
      "pointer threaded linearly (logstep, randtoken), so add(key, v) consumes draws like v unit adds. "
      "Not decided: the algebraic composition 'bulk rule == v unit rules' for linear/heavy-hitter cells (hand argument from newcount/bm-table).")
def c12(ctx):
    RA.rule_bind(ctx)
    RA.rule_attr_type(ctx, methods=("add", "add_ngram", "update", "update_ngram"))
    RA.rule_call_range(ctx, only=RA.class_kernels(facts_of(ctx), SKETCH_CLASSES, ("add", "add_ngram")))
    RT.rule_deleg(ctx)
    RT.rule_window(ctx)
    RT.rule_value_fwd(ctx)
    RT.rule_wrapper_once(ctx, methods=("add", "add_ngram"))      # C12 is about the adding entry points
    RH.rule_bm_table(ctx)       # heavy hitters: add(key, v) is v unit steps of the Boyer-Moore cell update (weighted transition table)
    # add(key, v) == v unit adds, for log sketches under identical draws: the bulk step is literally v unit steps, each
    # drawing like a unit add, with the draw pointer threaded linearly; linear/HH bulk rules compose (hand argument)
    RA.rule_logstep(ctx)
    RM.rule_randtoken(ctx)
    RA.rule_newcount(ctx)
    RA.rule_nadd_once(ctx, RA.add_kernels(facts_of(ctx)))       # add(key, v) moves the bookkeeping counter by v, once: the same as v single adds
    RT.rule_observers(ctx)             # 'identical resulting state' is observed through n_added()/n_records() too
    ctx.floor("logstep", 8)
    ctx.floor("deleg", 12)
    ctx.floor("window", 20)
    ctx.floor("value-fwd", 12)


# ---------------------------------------------------------------------------
from . import rules_hll as RL


@prop("C02", "other",
      "The register file is shown to be a join-semilattice CRDT, structurally: every store into the registers is "
      "R[i] <- max(R[i], e) (join), in _merge with e = other[i] over range(m) (cover); in _add the index and the candidate rank "
      "have backward slices containing only (key, seed, p, m), fasthash64 and the leading-zero helper (indep); for every accepted "
      "precision the index is the low p bits of fasthash64(whole key, seed), in bounds, and the rank is nlz(hash >> p) - p + 1 without "
      "unsigned wrap (bits, hll-range); the leading-zero helper is exact on all 2^64 inputs by abstract interpretation over the 65 "
      "msb classes (nlz); multiplicities do not reach the kernel (ignore-mult); merge compares p and seed first (guard-set); the "
      "n-gram kernel adds exactly the windows (window); p is validated to [7,16] and m = 1 << p (ctor-range, bits); seed is stored "
      "as a full uint64 (attr-type). Hence state = pointwise max over the key set. Not decided: query()'s numeric value (C17) and the hash (C11).")
def c02(ctx):
    F = facts_of(ctx)
    hll = [("hyperloglog", "HyperLogLog")]
    RA.rule_bind(ctx, hll)
    RA.rule_attr_type(ctx, hll)
    RL.rule_p_range(ctx)
    RL.rule_nlz(ctx)
    RL.rule_join(ctx)
    RL.rule_indep(ctx)
    RL.rule_bits(ctx)
    RL.rule_hll_ignore_mult(ctx)
    ks = RL.hll_kernels(F)
    RA.rule_call_width(ctx, [ks["add"], ks["ngram"]])
    RA.rule_cover(ctx, [ks["merge"]])
    RA.rule_other_ro(ctx, [ks["merge"]])
    # (refusing sketches of another precision/seed is C15's; this property is stated for a fixed precision and seed)
    RT.rule_window(ctx, hll)
    RT.rule_deleg(ctx, hll)
    RT.rule_wrapper_once(ctx, hll)
    RT.rule_state_owner(ctx, hll)
    plumbing(ctx)
    ctx.floor("nlz", 66)
    ctx.floor("join", 3)
    ctx.floor("indep", 1)
    ctx.floor("bits", 40)
    ctx.floor("hll-range", 20)
    ctx.floor("window", 4)


@prop("C17", "other",
      "Decision structure, formulas, constants and tables of the HyperLogLog++ estimator decided structurally: _query's return paths "
      "are exactly the four regimes (zero registers & LC <= threshold -> LC; zero registers & LC > threshold -> EST - interp(EST; raw, bias); "
      "no zero register & EST <= 5m -> EST - bias; else EST), with strictness of each comparison checked on the path conditions; "
      "LC is m*ln(m/V), EST is alpha*m^2/sum(2^-r) over all registers, V = m - count_nonzero; alpha = 0.7213/(1+1.079/m); threshold, "
      "bias and raw-estimate are row p-7 of their tables with 7 <= p <= 16 enforced; the shipped tables have 10 rows of equal length, "
      "strictly increasing raw estimates, begin where the thresholds end and end at 5m; a shared block holds exactly m registers for "
      "owner and attacher alike (layout), since the estimator sums over every register it is handed. Not decided: floating-point accuracy.")
def c17(ctx):
    F = facts_of(ctx)
    hll = [("hyperloglog", "HyperLogLog")]
    RA.rule_bind(ctx, hll)
    RL.rule_p_range(ctx)
    RL.rule_qtree(ctx)
    RL.rule_alpha(ctx)
    RL.rule_tabidx(ctx)
    RL.rule_tables(ctx)
    # query() is the kernel's value of the CURRENT registers on every path (no cached answer)
    RT.rule_wrapper_once(ctx, hll, ("query",))
    RT.rule_state_owner(ctx, hll, methods=("query",))    # C17 is about query()
    RA.rule_attr_type(ctx, hll, methods=("query",))      # p, m, alpha, the threshold and the tables reach the estimator at full width
    RA.rule_call_range(ctx, only=RA.class_kernels(facts_of(ctx), hll, ("query",)))
    RT.rule_layout(ctx, hll)      # the estimator sums over every register it is handed: a shared block larger than m (or an attacher that
    #                               views more than m bytes) gives an attached sketch extra registers and another estimate
    ctx.floor("wrapper-once", 3)
    ctx.floor("qtree", 6)
    ctx.floor("forms", 7)
    ctx.floor("alpha", 1)
    ctx.floor("tabidx", 3)
    ctx.floor("tables", 40)


# ---------------------------------------------------------------------------
from . import rules_misc as RM


@prop("C14", "other",
      "Only the structural necessary condition is decided: at each of the five cell-addressing sites (three count-min query kernels, "
      "heavy-hitter _add and _max_count) fasthash64 is called once per row inside `for row in range(depth)` with a seed that is an "
      "injective function of the row, the result is reduced modulo the width parameter, and every table access of that iteration is "
      "[row, that column]; and the hash itself is computed from its seed on every path (seeddep: definite syntactic dependency of each "
      "return of fasthash64 on `seed`, loops followed to a fixed point); and the linear sketch's table integrity as in C01 (qmin, cons, newcount, msum, merge guard-set), without which the bound is void whatever the hashes do. The statistical statement (uniformity, independence across seeds, the exp(-depth) tail) is NOT decided.")
def c14(ctx):
    n = RM.rule_seedrow(ctx)
    RM.rule_seeddep(ctx)
    RA.rule_bind(ctx, [c for c in SKETCH_CLASSES if c[1] != "HyperLogLog"])
    # "estimate <= true + e*N/width except with probability exp(-depth)" is a statement about the LINEAR sketch's table: every cell
    # must hold only what keys hashing to it AT THIS WIDTH contributed, and the estimate must be the minimum over the d cells --
    # the table-integrity clauses of C01 (a merge that folds a narrower table in, or a query that skips rows, voids the bound
    # although every single hash is still uniform and independent)
    F = facts_of(ctx)
    lin = [("countmin", "CountMinLinear")]
    lcls = ctx.model.cls("countmin", "CountMinLinear")
    own = {c.callee.key for mname in ("query", "add") if mname in lcls.methods for c in F.calls_from(lcls.methods[mname]) if c.callee.is_kernel}
    own_all = RA.class_kernels(F, lin)
    RA.rule_qmin(ctx, [k for k in RA.query_kernels(F) if k.key in own])
    RA.rule_cons(ctx, [k for k in RA.add_kernels(F) if k.key in own])
    RA.rule_newcount(ctx, only=own_all)
    RA.rule_msum(ctx)
    with ctx.only({"guard-set"}):
        RT.rule_mergeguard(ctx, lin)
    RT.rule_observers(ctx, lin)        # N = n_added() in e*N/width
    ctx.floor("seedrow", 10)
    ctx.undecided_clauses.append("uniformity of FastHash within a row and independence across seeds; the exp(-depth) bound itself -- statistical, not decided")


@prop("C06", "other",
      "Three structural clauses only: (randtoken) the random-draw pointer is a linear token -- every function that takes it passes "
      "the current pointer on, rebinds it from every callee result (inside loops too) and returns the latest one, and the four methods "
      "store it back; (batchconst) one batch length N in the refill test, the refill, and both constructors, draws read at the "
      "pre-increment pointer, refill replaces the whole batch with np.random.rand(N); (expo) the increment probability base**(-(c - "
      "num_reserved)) and the decoder's base**(c - num_reserved) use opposite exponents, the decoder is the geometric sum, and the "
      "deterministic ranges of writer and reader match; (lossless-args, ctor-args) max_count and num_reserved, which determine the base, "
      "are saved without loss and restored into their own constructor positions. NOT decided: the numerical law (expectation, distribution), uniformity of the "
      "generator, the lower bound over histories.")
def c06(ctx):
    RM.rule_randtoken(ctx)
    RM.rule_batchconst(ctx)
    RM.rule_expo(ctx)
    RA.rule_logstep(ctx)
    # "on every history the estimate is at least min(true, num_reserved+1)": the add raises every cell of the key to the
    # stepped counter (cons, newcount) and steps below num_reserved are deterministic (logstep)
    F = facts_of(ctx)
    logk = RA.class_kernels(F, COUNTMIN[1:])        # C06 is about the log counters: kernels of the log classes' own methods
    RA.rule_cons(ctx, [k for k in RA.add_kernels(F) if k.key in logk])
    RA.rule_newcount(ctx, only=logk)
    RA.rule_call_range(ctx, only=RA.class_kernels(F, COUNTMIN[1:], ("add", "add_ngram", "query")))
    RA.rule_bind(ctx, COUNTMIN[1:])
    RT.rule_layout(ctx, COUNTMIN[1:])      # "exact in the reserved range": in a shared block the bookkeeping counters must not overlap the counter table
    RA.rule_attr_type(ctx, COUNTMIN[1:], methods=("add", "add_ngram", "update", "update_ngram", "query", "__getitem__"))        # num_reserved / base / ceiling reach every log kernel at full width
    # the base a reloaded sketch decodes (and steps) with is the base its counters were driven with: the two parameters that determine
    # it are written without loss and handed back to the constructor in their own positions
    with ctx.only({"lossless-args", "ctor-args"}):
        RT.rule_persist(ctx, COUNTMIN[1:])
    plumbing(ctx, mergetree=False)
    ctx.floor("randtoken", 10)
    ctx.floor("batchconst", 7)
    ctx.floor("expo", 5)
    ctx.undecided_clauses.append("unbiasedness / exact distribution of log counters; uniformity and independence of np.random draws -- numeric/statistical, not decided")


@prop("C09", "other",
      "Decided structurally: the merge kernels never write the second operand (other-ro, through the effect analysis and bind); the "
      "linear merge stores min(a + b, 2^32-1) in every cell exactly once over the whole table with prange bodies writing only their "
      "own row (msum, range, mono, cover); both bookkeeping counters are summed once (sumcounters); the log merges decode both operands "
      "with the same (num_reserved, base), store the exact sum in the reserved range, the ceiling at v >= max_count, and otherwise "
      "choose between clower and clower+1 by a half-way test, clower being the inverse of the decoder's geometric sum (logmerge-shape); "
      "the merge() wrappers run their kernel exactly once and neither rebind nor write the tables themselves (wrapper-once, state-owner). "
      "The property is stated for same-parameter sketches; refusing others is C15. NOT decided: floating-point accuracy of the re-encoding, "
      "monotonicity of merged log counters.")
def c09(ctx):
    F = facts_of(ctx)
    RA.rule_bind(ctx, COUNTMIN, methods=("merge",))
    RA.rule_ceil(ctx)
    mk = RA.merge_kernels(F, COUNTMIN)
    RA.rule_other_ro(ctx, mk)
    RA.rule_msum(ctx)
    mkeys = {k.key for k in mk} | {c.callee.key for k in mk for c in F.calls_from(k) if c.callee.is_kernel}
    RA.rule_attr_type(ctx, COUNTMIN, methods=("merge",))
    RA.rule_call_range(ctx, only=mkeys)
    RA.rule_range(ctx, {"cms"}, only=mkeys)        # C09 is about merging: the merge kernels only
    RA.rule_mono(ctx, {"cms"}, only=mkeys)
    RA.rule_cover(ctx, mk)
    RA.rule_sumcounters(ctx, mk)
    RM.rule_logmerge_shape(ctx)
    RT.rule_wrapper_once(ctx, COUNTMIN, ("merge",))
    RT.rule_state_owner(ctx, COUNTMIN, methods=("merge",))
    RT.rule_observers(ctx, COUNTMIN)
    RA.rule_findbase_post(ctx)       # decode/re-encode use self.base: it must be this sketch's own solved base (not a shared or cached one)
    ctx.floor("other-ro", 3)
    ctx.floor("msum", 3)
    ctx.floor("cover", 6)
    ctx.floor("sumcounters", 6)
    ctx.floor("logmerge-shape", 10)
    ctx.undecided_clauses.append("that log((v-r)(b-1)+1)/log b inverts _counter2value to the nearest counter in floating point; monotonicity of merged log counters -- numeric")


@prop("C11", "other",
      "Decided up to the trusted transcription of the published algorithms into the term language: for each public hash and each of the "
      "2B cases (len mod B, len >= B) -- an exhaustive partition of the inputs, B = 8 for fasthash64, 4 for murmur3 -- the kernel is "
      "abstractly interpreted over uninterpreted terms (helpers inlined through their typed signatures = truncation nodes, the block "
      "loop summarised as a fold of its body, loops bounded by the residue unrolled, data-dependent zero tests compared under their "
      "equation) and the normal form of the result (polynomial mod 2^W, AC xor/and/or, byte placement) equals the normal form of "
      "FastHash64 / MurmurHash3_x86_32 written in the same language; fasthash32 == uint32(h - (h >> 32)) of fasthash64 (dfg). Also: every "
      "hash kernel is pure -- no parameter written, no mutable global, no impure call (pure); helpers take and return the family's "
      "unsigned word and the public functions have the published seed/return widths (uwidth). Where dfg cannot compute a term the "
      "structural clauses blocksize / blockloop / bytes-once are consulted instead and the run is undecided.")
def c11(ctx):
    RM.rule_pure(ctx)
    RM.rule_uwidth(ctx)
    RM.rule_dfg(ctx)
    ctx.floor("dfg", 16 + 8 + 1)
    ctx.floor("pure", 20)
    ctx.floor("uwidth", 12)
    # the structural block rules (block size / block loop / every tail byte once) are implied by the term equality of rule dfg; they
    # are consulted only where dfg could not compute a term, as a weaker necessary condition that still reports a specific construct
    if any(o.rule == "dfg" and o.status == "undecided" for o in ctx.obs):
        RM.rule_blocks(ctx)
        ctx.note("dfg left cases undecided: structural block rules consulted")


# ---------------------------------------------------------------------------
from . import rules_par as RP


@prop("C08", "other",
      "Protocol clauses of 'every item exactly once, every worker's sketch merged exactly once, nothing merged before its worker "
      "finished', decided structurally: the filler puts each item once and then at least one pill per started worker (same n_workers "
      "binding) (pills); the worker loop takes one item per iteration, applies the callback exactly once to a non-None item and returns "
      "only on None (once); record counts accumulate once per item and are added once to slot 1 of each sketch, and every merge kernel "
      "sums both bookkeeping slots (nrecs, sumcounters); all workers are joined before the first merge and the per-worker arrays are "
      "what is merged (joinfirst); the pairwise merge schedule is interpreted on abstract slot sets for every worker count 1..64 "
      "(1..1024 thorough): disjoint pairs per round, only merged sources discarded, termination, result holds every sketch exactly once "
      "(mergetree); the return table covers all 7 sketch combinations in alphabetical order (rettable); prange bodies write only their "
      "own row (cover); descriptor tables agree (attach-table). Known finding F2: items is pickled by the spawn context (spawn-pickle). "
      "Not decided: OS scheduling; that merged sketches satisfy C01/C03/C04 (their own properties).",
      trusted=("multiprocessing.Queue delivers each put item to exactly one get", "spawn context pickles Process args"))
def c08(ctx):
    F = facts_of(ctx)
    RP.rule_pills(ctx)
    RP.rule_once(ctx)
    RP.rule_nrecs(ctx)
    RP.rule_joinfirst(ctx)
    RP.rule_mergetree(ctx)
    RP.rule_rettable(ctx)
    RP.rule_spawn_pickle(ctx)
    RT.rule_attach_table(ctx)
    RT.rule_argsdict(ctx)          # workers and mergers rebuild their views from `.args`: it must record the constructor's own arguments
    with ctx.only({"layout"}):
        RT.rule_layout(ctx)        # workers fill their sketches through attached views: owner and attacher must lay the block out identically
    RT.rule_owner(ctx)             # a worker's or merger's view going away must not take the owner's segment with it
    RT.rule_state_owner(ctx, methods=("add", "add_ngram", "update", "update_ngram", "merge"))   # ... and its writes must land in the block, not in a rebound private array
    mk = RA.merge_kernels(F)
    RA.rule_sumcounters(ctx, [k for k in mk if F.param_for(k, "n_added_records")], rule="nrecs")
    RA.rule_cover(ctx, [k for k in mk if k.parallel])
    RA.rule_other_ro(ctx, mk)
    RH.rule_cachekey(ctx)          # the sketch handed back was filled by OTHER processes through the block: what its query() caches must be keyed on
    #                               the shared counters, not on a flag only this object's own methods set
    RT.rule_observers(ctx)
    ctx.floor("pills", 5)
    ctx.floor("once", 6)
    ctx.floor("nrecs", 12)
    ctx.floor("joinfirst", 4)
    ctx.floor("mergetree", 3)
    ctx.floor("rettable", 10)
    ctx.floor("spawn-pickle", 1)


@prop("C19", "other",
      "Error discipline of the worker loop and a must-raise path rule for dead workers, decided structurally: the callback call is "
      "inside a try whose handler catches Exception and neither re-raises nor leaves the loop, and on every path that went through "
      "the handler the iteration ends normally having added exactly 0 records (cb-guard); the monitor inspects the exit code of every started worker "
      "and treats every non-zero, non-None code as failure (dead-detect); on failure all workers and the filler are killed before the "
      "unconditional joins (dead-cleanup); from the failure branch every path to a return passes through a raise -- explicit, or a put on "
      "a queue the branch closed (queue typestate open->closed; put on closed raises ValueError) (dead-raise); and the C08 protocol clauses that "
      "carry every successful item's contribution and record count into the returned sketches (once, nrecs, joinfirst, mergetree). Not decided: wall-clock "
      "termination bounds; a worker that hangs without dying.",
      trusted=("multiprocessing.Queue.put on a closed queue raises ValueError (CPython queues.py)",))
def c19(ctx):
    RP.rule_cb_guard(ctx)
    RP.rule_dead(ctx)
    # "... returns sketches that contain every other item's full contribution, with n_records() counting only the successful items":
    # the protocol clauses of C08 that carry a successful item's contribution and record count into the result
    RP.rule_once(ctx)
    RP.rule_nrecs(ctx)
    RP.rule_joinfirst(ctx)
    RP.rule_mergetree(ctx)
    F = facts_of(ctx)
    mk = RA.merge_kernels(F)
    RA.rule_sumcounters(ctx, [k for k in mk if F.param_for(k, "n_added_records")], rule="nrecs")
    ctx.floor("cb-guard", 5)
    ctx.floor("dead-detect", 3)
    ctx.floor("dead-cleanup", 3)
    ctx.floor("dead-raise", 1)
    # advisory, outside C19's anchors
    pm = ctx.model.func("helpers", "parallel_merging")
    import ast as _ast
    for n in _ast.walk(pm.node):
        if isinstance(n, _ast.Compare) and isinstance(n.left, _ast.Attribute) and n.left.attr == "exitcode" and isinstance(n.ops[0], _ast.Lt):
            ctx.note("advisory (not a C19 violation, outside its anchors): parallel_merging tests `exitcode < 0` only; a merge worker exiting with code 1 goes unnoticed")
