"""Per-property rule sets.  Each entry: run(ctx), level, explanation, trusted base."""
from __future__ import annotations

from . import rules_arith as RA
from .facts import COUNTMIN, SKETCH_CLASSES, facts_of

TRUST_NUMBA = ("CPython ast is a faithful view of the working tree",
               "Numba: explicit @njit signatures cast arguments/returns; stores into uintN arrays truncate; "
               "uint32 arithmetic is carried out in 64 bits")

PROPS = {}


def prop(pid, level, explanation, trusted=()):
    def deco(fn):
        PROPS[pid] = {"run": fn, "level": level, "explanation": explanation, "trusted": TRUST_NUMBA + tuple(trusted)}
        return fn
    return deco


# ---------------------------------------------------------------------------

@prop("C18", "other",
      "Checked-arithmetic discipline decided statically: every value stored into a uint32/uint16/uint8 counter cell "
      "(count-min tables, heavy-hitter counts) is proven to lie in [0, ceiling] from the guards that dominate the store "
      "(difference-bound entailment over the structured flow walk of every kernel that writes such a table); every "
      "unsigned subtraction on counters is proven non-negative; every count-min store is proven non-decreasing; the "
      "Python-level multiplicity is proven capped before it reaches a uint32 parameter; ceilings/table dtypes/kernel "
      "signatures agree. Not decided: the _find_base clause and the float-derived re-encoding stores of _merge_log*.")
def c18(ctx):
    F = facts_of(ctx)
    RA.rule_bind(ctx, [c for c in SKETCH_CLASSES if c[1] != "HyperLogLog"])
    RA.rule_ceil(ctx)
    ns, nsub = RA.rule_range(ctx)
    nm = RA.rule_mono(ctx, {"cms"})
    RA.rule_cap(ctx)
    RA.rule_logstep(ctx)
    ctx.floor("range", 2 * 15 + 8, "15 decidable counter stores x2 bounds + 8 unsigned subtractions")
    ctx.floor("mono", 6)
    ctx.floor("cap", 2)
    ctx.floor("ceil", 4 * 3)
    ctx.undecided_clauses.append("'for every accepted log configuration the ceiling decodes to max_count, otherwise ValueError' "
                                 "(_find_base: convergence of a 200-step floating-point Newton iteration) -- numeric, not decided")
    ctx.assumptions.append("_counter2value(...) >= 0 (base > 1 is enforced by _find_base raising otherwise)")


# ---------------------------------------------------------------------------

@prop("C01", "other",
      "Structural necessary conditions of the count-min bounds, decided on every path of the three linear kernels: the "
      "estimate is a running minimum over range(depth) of exactly the cells cms[row, fasthash64(key,row) % width] (qmin, addr); "
      "the add raises only those cells, only upward, all to the same min(old_min + v, 2^32-1) (cons, newcount, mono, range); "
      "the Python multiplicity is capped before the uint32 parameter (cap); the merge stores min(a + b, 2^32-1) in every "
      "cell, once, over the whole table, reading but never writing the second operand (msum, cover, other-ro). "
      "Not decided: the arithmetic induction from these facts to the two bounds (hand argument in DESIGN.md) and FastHash itself (C11).")
def c01(ctx):
    F = facts_of(ctx)
    lin = [("countmin", "CountMinLinear")]
    RA.rule_bind(ctx, lin)
    RA.rule_attr_type(ctx, lin)
    RA.rule_ceil(ctx)
    ks = [k for k in RA.query_kernels(F) if k.name.endswith("linear")]
    aks = [k for k in RA.add_kernels(F) if k.name.endswith("linear")]
    if not ks or not aks:
        from .model import AnalysisError
        raise AnalysisError("linear query/add kernels not found through CountMinLinear.query/add")
    RA.rule_qmin(ctx, ks)
    RA.rule_cons(ctx, aks)
    RA.rule_newcount(ctx)
    RA.rule_cap(ctx, lin)
    RA.rule_range(ctx, {"cms"})
    RA.rule_mono(ctx, {"cms"})
    RA.rule_msum(ctx)
    mk = RA.merge_kernels(F, lin)
    RA.rule_cover(ctx, mk)
    RA.rule_other_ro(ctx, mk)
    RA.rule_sumcounters(ctx, mk)
    ctx.floor("qmin", 5)
    ctx.floor("cons", 3)
    ctx.floor("msum", 3)
    ctx.floor("cap", 1)
    ctx.undecided_clauses.append("the inductive arithmetic from (cons, qmin, msum) to 'true <= estimate <= classic count-min value' is a hand argument (DESIGN.md C01)")


@prop("C05", "other",
      "Conservative-update shape decided for all three counter types: one table store site per add kernel, inside one "
      "loop over range(depth), indexed [row, buckets[row]] with buckets freshly produced by the dominating query of the same "
      "key; the store is guarded so that it never lowers a cell; the stored value is the same new_count for every row, equal "
      "to min(old_min + v, ceiling) (linear) or to the _log_counter step of (old_min, v) (log); _log_counter moves by +1 per "
      "step, at most v steps, deterministically exactly when counter < num_reserved; n_added grows once by the multiplicity applied. "
      "Not decided: the distribution of log steps (C06).")
def c05(ctx):
    F = facts_of(ctx)
    RA.rule_bind(ctx, COUNTMIN)
    RA.rule_ceil(ctx)
    RA.rule_qmin(ctx)
    RA.rule_cons(ctx)
    RA.rule_newcount(ctx)
    RA.rule_mono(ctx, {"cms"})
    RA.rule_logstep(ctx)
    RA.rule_nadd_once(ctx, RA.add_kernels(F))
    ctx.floor("qmin", 15)
    ctx.floor("cons", 9)
    ctx.floor("addr", 3)
    ctx.floor("newcount", 3)
    ctx.floor("nadd-once", 6)
    ctx.undecided_clauses.append("the step num_reserved -> num_reserved+1 being certain relies on rand < base**0 (numeric); distribution of log steps (C06)")
