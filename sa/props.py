"""Per-property rule sets.  Each entry: run(ctx), level, explanation, trusted base."""
from __future__ import annotations

from . import rules_arith as RA
from .facts import COUNTMIN, SKETCH_CLASSES, facts_of

TRUST_NUMBA = ("CPython ast is a faithful view of the working tree",
               "Numba: explicit @njit signatures cast arguments/returns; stores into uintN arrays truncate; "
               "uint32 arithmetic is carried out in 64 bits")

PROPS = {}


def prop(pid, level, explanation, trusted=()):
    def deco(fn):
        PROPS[pid] = {"run": fn, "level": level, "explanation": explanation, "trusted": TRUST_NUMBA + tuple(trusted)}
        return fn
    return deco


# ---------------------------------------------------------------------------

@prop("C18", "other",
      "Checked-arithmetic discipline decided statically: every value stored into a uint32/uint16/uint8 counter cell "
      "(count-min tables, heavy-hitter counts) is proven to lie in [0, ceiling] from the guards that dominate the store "
      "(difference-bound entailment over the structured flow walk of every kernel that writes such a table); every "
      "unsigned subtraction on counters is proven non-negative; every count-min store is proven non-decreasing; the "
      "Python-level multiplicity is proven capped before it reaches a uint32 parameter; ceilings/table dtypes/kernel "
      "signatures agree. Not decided: the _find_base clause and the float-derived re-encoding stores of _merge_log*.")
def c18(ctx):
    F = facts_of(ctx)
    RA.rule_bind(ctx, [c for c in SKETCH_CLASSES if c[1] != "HyperLogLog"])
    RA.rule_ceil(ctx)
    ns, nsub = RA.rule_range(ctx)
    nm = RA.rule_mono(ctx, {"cms"})
    RA.rule_cap(ctx)
    RA.rule_logstep(ctx)
    ctx.floor("range", 2 * 15 + 8, "15 decidable counter stores x2 bounds + 8 unsigned subtractions")
    ctx.floor("mono", 6)
    ctx.floor("cap", 2)
    ctx.floor("ceil", 4 * 3)
    ctx.undecided_clauses.append("'for every accepted log configuration the ceiling decodes to max_count, otherwise ValueError' "
                                 "(_find_base: convergence of a 200-step floating-point Newton iteration) -- numeric, not decided")
    ctx.assumptions.append("_counter2value(...) >= 0 (base > 1 is enforced by _find_base raising otherwise)")
