"""Arithmetic / table-update rules shared by C01, C05, C09, C18 (and reused by C02, C03, C04).

bind, attr-type, ceil, range, mono, cap, qmin, addr, cons, newcount, logstep, nadd-once, msum, cover, other-ro
"""
from __future__ import annotations

import ast

from .facts import (BIND_ALIASES, COUNTMIN, SKETCH_CLASSES, array_alloc, const_int, facts_of, scalar_ctor)
from .flow import Arr, ArrSlice, Bytes, Num, Opaque, Tup, cond_atoms, show_cond
from .lin import Lin, show_lin
from .model import resolve_temps, AnalysisError, Ty, dotted, self_attr, unparse, walk_no_nested
from .model import comes_before, is_inside
from .report import FAIL, OK, UNDECIDED

COUNTER_ATTRS = {"cms", "lhh_count"}      # integer counter tables (wrap would corrupt a count)
MONO_ATTRS = {"cms", "registers"}          # tables whose cells must never decrease


# ---------------------------------------------------------------------------
# helpers
# ---------------------------------------------------------------------------

class FactBox:
    """Minimal state-like object so Walker.minmax can add facts for goal terms."""

    def __init__(self, facts):
        self.facts = list(facts)


def on_path(events, ev, kinds=None):
    """Events that lie on ev's path and precede it."""
    out = []
    for x in events:
        if x is ev:
            break
        if kinds and x.kind not in kinds:
            continue
        if len(x.path) <= len(ev.path) and ev.path[:len(x.path)] == x.path:
            out.append(x)
    return out


def on_path_h(events, ev, kinds=None):
    """Like on_path, but an exception-handler path also sees the events of the try body it handles
    (the body ran, possibly partly, before the handler)."""
    def norm(entry):
        node, pol, cc = entry
        if isinstance(pol, tuple) and pol and pol[0] == "handler":
            return (id(node), True)
        return (id(node), pol)
    tgt = [norm(x) for x in ev.path]
    out = []
    for x in events:
        if x is ev:
            break
        if kinds and x.kind not in kinds:
            continue
        px = [norm(y) for y in x.path]
        if len(px) <= len(tgt) and tgt[:len(px)] == px:
            out.append(x)
    return out


def group_by_node(events):
    groups = {}
    order = []
    for e in events:
        k = id(e.node)
        if k not in groups:
            groups[k] = []
            order.append(k)
        groups[k].append(e)
    return [groups[k] for k in order]


def agg(ctx, rule, func, node, construct, goal, results):
    """results: list of (ok True/False/None, text).  One obligation per construct: ok iff ok on every path."""
    if not results:
        return ctx.ob(rule, func, node, construct, goal, None, "no instance reached")
    bad = [r for r in results if r[0] is False]
    und = [r for r in results if r[0] is None]
    if bad:
        return ctx.ob(rule, func, node, construct, goal, False, bad[0][1], facts=bad[0][2] if len(bad[0]) > 2 else ())
    if und:
        return ctx.ob(rule, func, node, construct, goal, None, und[0][1])
    return ctx.ob(rule, func, node, construct, goal, True, "", proof=results[0][1])


def fact_strs(ev, lim=10):
    return [show_lin(f) + " <= 0" for f in ev.facts[-lim:]]


def src(func, node, limit=120):
    s = " ".join((func.module.segment(node) or unparse(node)).split())
    return s if len(s) <= limit else s[:limit - 3] + "..."


def table_params(F, kernel, attrs):
    """Parameters of `kernel` fed from one of `attrs` (own operand only)."""
    m = F.param_attr().get(kernel.key, {})
    return {p: next(iter(s & attrs)) for p, s in m.items() if s & attrs}


def kernels_writing(F, attrs):
    """(kernel, {param: attr}) for kernels that store into a table fed from `attrs`."""
    out = []
    for k in F.model.kernels():
        if F.is_inlined_helper(k):
            continue        # decided at its (inlined) call sites
        tp = table_params(F, k, attrs)
        if not tp:
            continue
        w = F.effects.written_params(k)
        tw = {p: a for p, a in tp.items() if p in w}
        if tw:
            out.append((k, tw))
    return out


def _cast_source(w, term):
    """The Num an integer cast term was made from (the walker replaces a value it cannot show to fit the target type by a fresh
    `cast` term and records the cast event), or None."""
    idx = getattr(w, "_cast_index", None)
    if idx is None:
        idx = {}
        for c in w.events:
            if c.kind == "cast" and isinstance(getattr(c, "result", None), Num) and isinstance(getattr(c, "arg", None), Num):
                t = c.result.lin.single_term()
                if t is not None and t[0] == "cast":
                    idx[t] = c.arg
        w._cast_index = idx
    return idx.get(term)


def uncast_value(w, v, depth=0):
    """`v` with a top-level integer cast looked through (a Num that is exactly one `cast` term becomes the value that was cast)."""
    if not isinstance(v, Num) or depth > 4:
        return v
    t = v.lin.single_term()
    if t is not None and t[0] == "cast" and v.lin == Lin.term(t):
        src_ = _cast_source(w, t)
        if src_ is not None:
            return uncast_value(w, src_, depth + 1)
    return v


def is_float_derived(w, lin, depth=0):
    for t in lin.terms():
        if t[0] == "trunc":
            return True
        if t[0] == "cast" and depth < 4:
            src_ = _cast_source(w, t)
            if src_ is not None and is_float_derived(w, src_.lin, depth + 1):
                return True
    return False


# ---------------------------------------------------------------------------
# bind
# ---------------------------------------------------------------------------

def rule_bind(ctx, classes=SKETCH_CLASSES, methods=None):
    F = facts_of(ctx)
    n = 0
    for cls in F.classes(classes):
        for mname, meth in cls.methods.items():
            if methods is not None and mname not in methods:
                continue
            for k in F.calls_from(meth):
                if not k.callee.is_kernel:
                    continue
                n += 1
                for p, a in k.argmap.items():
                    sa, oa = self_attr(a), self_attr(a, "other")
                    if not (sa or oa):
                        continue
                    got = sa if sa else "other_" + oa
                    exp = p
                    alias = BIND_ALIASES.get((k.callee.name, p), "-")
                    okk = (got == exp) or (alias != "-" and alias == sa)
                    ctx.ob("bind", meth, a, "%s(%s=%s)" % (k.callee.name, p, unparse(a)),
                           "attribute `%s` feeds the kernel parameter of the same role" % unparse(a),
                           okk, "" if okk else "parameter `%s` of %s receives `%s`" % (p, k.callee.name, unparse(a)))
                # every other_* parameter must come from `other`, every same-named attribute parameter from self
                for p in k.callee.params:
                    a = k.argmap.get(p)
                    if a is None:
                        ctx.ob("bind", meth, k.node, "%s(%s=<missing>)" % (k.callee.name, p),
                               "every kernel parameter is supplied", None if getattr(k, "starred", False) else False,
                               "no argument for `%s`" % p + (" (the call splats a sequence the analysis could not write out)" if getattr(k, "starred", False) else ""))
    # kernel -> kernel: a caller's own parameter handed on under the name of a *different* parameter of the callee (names are role
    # names after canonicalisation: `uint_maxval` passed where `num_reserved` is expected)
    mods = {cls.module.short for cls in F.classes(classes)}
    scope = class_kernels(F, classes, methods)
    for short in sorted(mods):
        for kern in ctx.model.kernels(short):
            if kern.key not in scope:
                continue
            rebound = {x.id for x in ast.walk(kern.node) if isinstance(x, ast.Name) and isinstance(x.ctx, ast.Store)}
            for k in F.calls_from(kern):
                if not k.callee.is_kernel:
                    continue
                crossed = []
                for p_, a in k.argmap.items():
                    if isinstance(a, ast.Name) and a.id in kern.params and a.id not in rebound and a.id in k.callee.params and a.id != p_ \
                            and p_ in kern.params:
                        crossed.append((p_, a.id))
                if any(isinstance(a, ast.Name) and a.id in kern.params and a.id in k.callee.params for a in k.argmap.values()):
                    n += 1
                    ctx.ob("bind", kern, k.node, "%s(...) in %s" % (k.callee.name, kern.name),
                           "a kernel hands its own parameters on to the callee's parameters of the same role", not crossed,
                           "" if not crossed else "; ".join("parameter `%s` of %s receives the caller's `%s`" % (p_, k.callee.name, q) for p_, q in crossed))
    return n


# ---------------------------------------------------------------------------
# attr-type
# ---------------------------------------------------------------------------

def rule_attr_type(ctx, classes=SKETCH_CLASSES, only=None, narrowing=True, methods=None):
    """The NumPy scalar constructor of a bound attribute holds every value of the narrowest kernel parameter it feeds
    (that parameter's type is the attribute's intended domain): a narrower constructor silently truncates inputs
    (e.g. seeds >= 2**32) before any kernel sees them."""
    F = facts_of(ctx)
    for cls in F.classes(classes):
        defs = {}
        for d in F.attr_defs(cls):
            defs.setdefault(d.attr, []).append(d)
        consumers = {}
        for mname in set(cls.methods) | {m for c in cls.mro() for m in c.methods}:
            meth = cls.resolve(mname)
            if meth is None or (methods is not None and mname not in methods and mname != "__init__"):
                continue
            for k in F.calls_from(meth):
                if not k.callee.is_kernel:
                    continue
                for p, a in k.argmap.items():
                    sa = self_attr(a)
                    if not sa or (only and sa not in only):
                        continue
                    pty = k.callee.ptypes.get(p)
                    if pty is None or pty.is_array or pty.kind not in ("uint", "int"):
                        continue
                    consumers.setdefault(sa, []).append((pty, k.callee.name, p))
        for sa, cons in sorted(consumers.items()):
            need = min(cons, key=lambda c: c[0].bits)
            for d in defs.get(sa, []):
                sc = scalar_ctor(d.value)
                if not sc:
                    continue
                aty = sc[0]
                okk = aty.kind == need[0].kind and aty.bits >= need[0].bits
                ctx.ob("attr-type", F.ctor(cls), d.stmt, "%s: self.%s = %s(...) -> %s(%s: %r)" % (cls.name, sa, aty, need[1], need[2], need[0]),
                       "constructor type %r holds every value of the parameter type %r it feeds" % (aty, need[0]), okk,
                       "" if okk else "self.%s is built with %r but feeds a %r parameter: larger inputs are truncated before the kernel sees them" % (sa, aty, need[0]))
                # ... and no kernel parameter the attribute is passed to is narrower than the attribute: Numba casts the argument to
                # the declared parameter type without a range check
                if okk and narrowing:
                    narrow = [c for c in cons if c[0].kind == aty.kind and c[0].bits < aty.bits]
                    # the narrowest consumer defines the domain (previous obligation); a consumer narrower than ANOTHER consumer of the
                    # same attribute in a sibling kernel family is a slip of one signature
                    widest = max(c[0].bits for c in cons)
                    sibling_narrow = [c for c in cons if c[0].bits < aty.bits]
                    ctx.ob("attr-type", F.ctor(cls), d.stmt, "%s: self.%s (%r) -> %s" % (cls.name, sa, aty, sorted({"%s:%r" % (c[1], c[0]) for c in cons})),
                           "every kernel parameter fed from the attribute holds every value of the attribute's type (no silent narrowing at the call)",
                           not sibling_narrow,
                           "" if not sibling_narrow else "%s declares `%s: %r`, narrower than self.%s (%r): the value is truncated on the way into that kernel"
                           % (sibling_narrow[0][1], sibling_narrow[0][2], sibling_narrow[0][0], sa, aty))


def rule_call_range(ctx, only=None, rule="call-width"):
    """Kernel -> kernel calls (outside the hash module, whose helpers truncate on purpose): every integer argument provably lies in
    the range of the callee's declared parameter type -- Numba casts to the declared type without a range check."""
    F = facts_of(ctx)
    for k in F.model.kernels():
        if k.module.short == "hashes" or F.is_inlined_helper(k) or (only is not None and k.key not in only):
            continue
        w = walk_kernel(F, k)
        evs = [e for e in w.events if e.kind == "call" and e.callee is not None and e.callee.is_kernel and not getattr(e, "inlined", False)
               and e.callee.module.short != "hashes"]
        for g in group_by_node(evs):
            e0 = g[0]
            for i, p in enumerate(e0.callee.params):
                pty = e0.callee.ptypes.get(p)
                if pty is None or pty.is_array or pty.kind not in ("uint", "int") or pty.bits >= 64:
                    continue        # a 64-bit parameter holds every intermediate Numba computes
                res = []
                for e in g:
                    a = e.args[i] if i < len(e.args) else None
                    if not isinstance(a, Num):
                        res.append((None, "argument not understood"))
                        continue
                    if is_float_derived(w, a.lin):
                        note = "%s: `%s(%s=...)` -- argument derives from floating-point log/exp; range not decided (numeric)" % (k.key, e.callee.name, p)
                        if note not in ctx.undecided_clauses:
                            ctx.undecided_clauses.append(note)
                        continue
                    lo, hi = pty.range()
                    p1 = w.P.prove_le0(a.lin - hi, e.facts)
                    p2 = w.P.prove_le0(Lin.const(lo) - a.lin, e.facts)
                    res.append((bool(p1 and p2), "%d <= %s <= %d" % (lo, show_lin(a.lin), hi) if p1 and p2 else
                                "cannot prove %d <= %s <= %d: %s's `%s: %r` truncates it" % (lo, show_lin(a.lin), hi, e.callee.name, p, pty), fact_strs(e)))
                if all(r[0] is True for r in res):
                    # keep the evidence small: one aggregated obligation per call site
                    continue
                agg(ctx, rule, k, e0.node, "%s(%s=...)" % (e0.callee.name, p), "an argument handed to a typed kernel parameter fits that type", res)
            agg(ctx, rule, k, e0.node, "%s(...) from %s" % (e0.callee.name, k.name), "every integer argument of the call fits the callee's parameter types",
                [(True, "all in range", [])])


def rule_call_width(ctx, kernels):
    """Kernel -> kernel calls: a typed scalar parameter forwarded to a callee is not narrowed by the callee's signature."""
    F = facts_of(ctx)
    for k in kernels:
        for c in F.calls_from(k):
            if not c.callee.is_kernel:
                continue
            for p, a in c.argmap.items():
                if not isinstance(a, ast.Name):
                    continue
                sty, dty = k.ptypes.get(a.id), c.callee.ptypes.get(p)
                if sty is None or dty is None or sty.is_array or dty.is_array or sty.kind not in ("uint", "int") or dty.kind not in ("uint", "int"):
                    continue
                okk = dty.bits >= sty.bits and dty.kind == sty.kind
                ctx.ob("call-width", k, c.node, "%s(%s=%s: %r -> %r)" % (c.callee.name, p, a.id, sty, dty),
                       "a forwarded parameter keeps its full width in the callee", okk,
                       "" if okk else "`%s` (%r) is truncated to %r by %s's signature" % (a.id, sty, dty, c.callee.name))


# ---------------------------------------------------------------------------
# ceil
# ---------------------------------------------------------------------------

CEIL_CLASSES = [("countmin", "CountMinLinear", "cms"), ("countmin", "CountMinLog16", "cms"),
                ("countmin", "CountMinLog8", "cms"), ("heavyhitters", "HeavyHitters", "lhh_count")]


def rule_ceil(ctx):
    F = facts_of(ctx)
    for mod, cname, table in CEIL_CLASSES:
        cls = ctx.model.cls(mod, cname)
        ctor = F.ctor(cls)
        cc = F.class_ceiling(cls)
        if cc is None:
            ctx.ob("ceil", ctor, ctor.node, "self.uint_maxval", "ceiling attribute is np.uintN(2**N-1)", None,
                   "no `self.uint_maxval = np.uintN(...)` found")
            continue
        ty, val, stmt = cc
        okk = ty.kind == "uint" and val == 2 ** ty.bits - 1
        ctx.ob("ceil", ctor, stmt, "self.uint_maxval = %s" % unparse(stmt.value),
               "ceiling equals the maximum of its own type", okk,
               "" if okk else "value %r is not 2**%d-1" % (val, ty.bits))
        allocs = [d for d in F.attr_defs(cls) if d.attr == table]
        if len(allocs) < 2:
            ctx.ob("ceil", ctor, ctor.node, "self.%s allocations" % table,
                   "table allocated in the shared and the in-memory branch", None, "found %d allocation(s)" % len(allocs))
        for d in allocs:
            al = array_alloc(d.value)
            okk = bool(al) and al["dtype"] == Ty("uint", ty.bits)
            ctx.ob("ceil", ctor, d.stmt, "self.%s = %s" % (table, src(ctor, d.value, 60)),
                   "table dtype matches the ceiling type %r" % ty, okk if al else None,
                   "" if okk else "allocation dtype is %r" % (al["dtype"] if al else None))
        # kernel signatures
        for mname, meth in cls.methods.items():
            for k in F.calls_from(meth):
                if not k.callee.is_kernel:
                    continue
                for p, a in k.argmap.items():
                    sa = self_attr(a) or (self_attr(a, "other") and self_attr(a, "other"))
                    if sa == table:
                        pty = k.callee.ptypes.get(p)
                        okk = pty is not None and pty.kind == "uint" and pty.bits == ty.bits and pty.ndim == 2
                        ctx.ob("ceil", k.callee, k.callee.node, "%s(%s: %r)" % (k.callee.name, p, pty),
                               "table parameter typed uint%d[:, :]" % ty.bits, okk)
                    elif sa == "uint_maxval" and k.callee.name != "_find_base":
                        pty = k.callee.ptypes.get(p)
                        okk = pty is not None and pty.kind == "uint" and not pty.is_array and pty.bits == ty.bits
                        ctx.ob("ceil", k.callee, k.callee.node, "%s(%s: %r)" % (k.callee.name, p, pty),
                               "ceiling parameter typed uint%d" % ty.bits, okk)


# ---------------------------------------------------------------------------
# summaries used by the walks
# ---------------------------------------------------------------------------

def log_counter_summary(w, st, node, callee, args):
    """Declared summary of _log_counter (checked structurally by rule `logstep`):
       result[0] <= max(counter_in, uint_maxval), result[0] >= counter_in; result[1] is the new rand_ptr."""
    if len(args) < 3 or not all(isinstance(a, Num) for a in args[:3]):
        return None
    r = w.fresh("call", callee.name, callee.rtype.items[0].range())
    rl = Lin.term(r)
    m = w.minmax("max", args[0].lin, args[2].lin, st)
    st.facts.append(rl - m)              # r <= max(counter_in, ceiling)
    st.facts.append(args[0].lin - rl)    # r >= counter_in
    ptr = w.fresh("call", callee.name + ".rand_ptr", callee.rtype.items[1].range())
    return Tup([Num(rl, ty=callee.rtype.items[0]), Num(Lin.term(ptr), ty=callee.rtype.items[1])])


def counter2value_summary(w, st, node, callee, args):
    """_counter2value(...) >= 0  (assumption recorded: base > 1, enforced by _find_base)."""
    t = w.fresh("call", callee.name, (0, None), isfloat=True)
    return Num(Lin.term(t), isfloat=True, ty=callee.rtype)


SUMMARIES = {"_log_counter": log_counter_summary, "_counter2value": counter2value_summary}


def _summary_units(F):
    """Summarised kernels and their kernel callees (the random-token source of the probabilistic increment) stay units."""
    out = set(SUMMARIES)

    def draws(f):
        return any(isinstance(n, ast.Call) and (dotted(n.func) or "").startswith(("np.random.", "numpy.random.")) for n in walk_no_nested(f.node))
    for name in SUMMARIES:
        for mod in F.model.modules.values():
            f = mod.funcs.get(name)
            if f is None:
                continue
            # (a scalar-only helper is a pure expression: it is walked inline like any other extracted sub-expression; so is an
            # extracted step helper that merely passes the token arrays on -- the unit is the kernel that actually draws)
            todo, seen = [f], set()
            while todo:
                g = todo.pop()
                for c in F.calls_from(g):
                    cal = c.callee
                    if not cal.is_kernel or cal.key in seen or not any(t.is_array or t.kind == "bytes" for t in cal.ptypes.values()):
                        continue
                    seen.add(cal.key)
                    if draws(cal) and (cal.rtype is None or getattr(cal.rtype, "kind", None) in (None, "void", "none")) and g is not f:
                        # a refill-only helper (`rand_batch[:] = np.random.rand(n)`, returns nothing): the unit is the kernel that
                        # calls it and hands out the draw together with the new pointer
                        out.add(g.name)
                    elif draws(cal) or not any(cc.callee.is_kernel for cc in F.calls_from(cal)):
                        out.add(cal.name)
                    else:
                        todo.append(cal)
    return out


from .facts import UNIT_RESOLVERS
UNIT_RESOLVERS.append(_summary_units)


def log_counter_stepvar(k):
    """The variable the log counter is stepped in: the first parameter, or -- when that is never assigned -- the working copy
    `level = uintN(counter)` the function makes of it."""
    p0 = k.params[0]
    if any(isinstance(n, ast.Name) and n.id == p0 and isinstance(n.ctx, ast.Store) for n in walk_no_nested(k.node)):
        return p0
    for n in walk_no_nested(k.node):
        if isinstance(n, ast.Assign) and len(n.targets) == 1 and isinstance(n.targets[0], ast.Name):
            v = n.value
            while isinstance(v, ast.Call) and len(v.args) == 1 and not v.keywords:
                v = v.args[0]
            if isinstance(v, ast.Name) and v.id == p0:
                return n.targets[0].id
    return p0


def log_counter_invariants(var="counter", p0="counter"):
    def upper(w, entry_env, env):
        c0, m, c = entry_env.get(p0), entry_env.get("uint_maxval"), env.get(var)
        if not all(isinstance(x, Num) for x in (c0, m, c)):
            return None
        box = FactBox([])
        mx = w.minmax("max", c0.lin, m.lin, box)
        return c.lin - mx

    def lower(w, entry_env, env):
        # relative to the value at loop entry (which is the parameter itself unless a jump precedes the loop)
        c0, c = entry_env.get(var), env.get(var)
        if not all(isinstance(x, Num) for x in (c0, c)):
            return None
        return c0.lin - c.lin

    def reached_log_range(w, entry_env, env):
        # optional helper (kept only where it holds at loop entry and is inductive): once at or above num_reserved, always
        nr, c = entry_env.get("num_reserved"), env.get(var)
        if not all(isinstance(x, Num) for x in (nr, c)):
            return None
        return nr.lin - c.lin
    return [("counter <= max(counter_in, uint_maxval)", upper), ("counter >= counter_in", lower),
            ("opt: counter >= num_reserved", reached_log_range)]


def walk_kernel(F, k):
    kw = {"summaries": SUMMARIES}
    if k.name == "_log_counter":
        kw["loop_invariants"] = log_counter_invariants(log_counter_stepvar(k), k.params[0])
    if k.module.short == "heavyhitters":
        kw["cell_axioms"] = keylen_axioms(F, k)
    return F.walk(k, **kw)


def keylen_axioms(F, k):
    """Data-structure invariant (established by rule `keylen-inv`): stored key lengths <= max_key_len."""
    out = {}
    tp = table_params(F, k, {"key_lens", "other.key_lens"})
    mk = F.param_for(k, "max_key_len")
    if mk is None:
        return out

    def ax(w, st, cellterm, idx):
        m = st.env.get(mk)
        if isinstance(m, Num):
            return [Lin.term(cellterm) - m.lin]
        return []
    for p in tp:
        out[p] = ax
    return out


# ---------------------------------------------------------------------------
# range / mono
# ---------------------------------------------------------------------------

def class_kernels(F, classes, methods=None):
    """Keys of the kernels reachable from the given methods (default: all) of the classes' OWN definitions, including the kernels those
    kernels call.  Used to scope a property's arithmetic rules to the code the property is about."""
    out, todo = set(), []
    for cls in F.classes(classes):
        for mname, m in cls.methods.items():
            if methods is not None and mname not in methods:
                continue
            todo.extend(c.callee for c in F.calls_from(m) if c.callee.is_kernel)
    while todo:
        k = todo.pop()
        if k.key in out:
            continue
        out.add(k.key)
        todo.extend(c.callee for c in F.calls_from(k) if c.callee.is_kernel)
    return out


def rule_range(ctx, attrs=COUNTER_ATTRS, modules=None, rule="range", only=None):
    """Every value stored into a counter cell lies in [0, ceiling]; unsigned subtractions on counters do not wrap."""
    F = facts_of(ctx)
    n_store = n_sub = 0
    for k, tw in kernels_writing(F, attrs):
        if modules and k.module.short not in modules:
            continue
        if only is not None and k.key not in only:
            continue
        w = walk_kernel(F, k)
        stores = [e for e in w.events if e.kind == "store" and e.arr.name in tw]
        for g in group_by_node(stores):
            e0 = g[0]
            lo, hi = e0.arr.ety.range()
            res_hi, res_lo, numeric = [], [], False
            for e in g:
                v = e.value
                if not isinstance(v, Num):
                    res_hi.append((None, "stored value %r is not an integer expression" % (v,)))
                    continue
                p_hi = w.P.prove_le0(v.lin - hi, e.facts)
                p_lo = w.P.prove_le0(Lin.const(lo) - v.lin, e.facts)
                # a float -> uintN cast feeding the store must itself be in range (out-of-range casts are undefined)
                tt = v.lin.single_term()
                direct_cast = False
                if tt is not None and tt[0] == "trunc":
                    for c in w.events:
                        if c.kind == "cast" and c.fromfloat and isinstance(c.result, Num) and c.result.lin == v.lin \
                                and isinstance(c.arg, Num):
                            # the store receives a float->int cast directly: the cast argument must be in range, and a
                            # guard on that argument makes the obligation decidable
                            direct_cast = any(set(f.terms()) & set(c.arg.lin.terms()) for f in e.facts)
                            p_hi = p_hi and w.P.prove_le0(c.arg.lin - hi, e.facts)
                            p_lo = p_lo and w.P.prove_le0(Lin.const(lo) - c.arg.lin, e.facts)
                if (not p_hi or not p_lo) and is_float_derived(w, v.lin) and not direct_cast:
                    numeric = True
                    continue
                res_hi.append((bool(p_hi), str(p_hi) if p_hi else "cannot prove %s <= %d" % (show_lin(v.lin), hi), fact_strs(e)))
                res_lo.append((bool(p_lo), str(p_lo) if p_lo else "cannot prove %s >= %d" % (show_lin(v.lin), lo), fact_strs(e)))
            cons = src(k, e0.node)
            if numeric and not res_hi:
                ctx.undecided_clauses.append("%s: `%s` -- stored value derives from floating-point log/exp; range not decided (numeric)" % (k.key, cons))
                continue
            n_store += 1
            agg(ctx, rule, k, e0.node, cons, "stored value <= %d (no wrap-around above the ceiling)" % hi, res_hi)
            agg(ctx, rule, k, e0.node, cons, "stored value >= %d (no wrap-around below zero)" % lo, res_lo)
        # unsigned subtractions that involve counters
        counter_terms = lambda lin: any(_is_counter_term(t, tw, F, k) for t in lin.terms())
        subs = [e for e in w.events if e.kind == "sub" and (counter_terms(e.a.lin) or counter_terms(e.b.lin))]
        for g in group_by_node(subs):
            res = []
            for e in g:
                p = w.P.prove_le0(e.b.lin - e.a.lin, e.facts)
                res.append((bool(p), str(p) if p else "cannot prove %s >= %s" % (show_lin(e.a.lin), show_lin(e.b.lin)), fact_strs(e)))
            n_sub += 1
            agg(ctx, rule, k, g[0].node, src(k, g[0].node), "unsigned subtraction does not go below zero", res)
    return n_store, n_sub


def _is_counter_term(t, tw, F, k):
    if t[0] == "cell":
        name = t[1]
        m = F.param_attr().get(k.key, {}).get(name, set())
        return bool(m & (COUNTER_ATTRS | {"other." + a for a in COUNTER_ATTRS}))
    if t[0] == "call":
        # results of the kernels that read counters: the count-min query kernels, the log step, the heavy-hitter reader
        names = getattr(F, "_counter_call_names", None)
        if names is None:
            names = {q.name for q in query_kernels(F)} | {"_log_counter"}
            try:
                from .rules_hh import hh_kernels
                names.add(hh_kernels(F)["max"].name)
            except Exception:
                names.add("_max_count")
            F._counter_call_names = names
        return t[1] in names
    return False


def rule_mono(ctx, attrs=MONO_ATTRS, modules=None, only=None):
    """A store never lowers a cell of a count-min table / an HLL register."""
    F = facts_of(ctx)
    n = 0
    for k, tw in kernels_writing(F, attrs):
        if modules and k.module.short not in modules:
            continue
        if only is not None and k.key not in only:
            continue
        w = walk_kernel(F, k)
        stores = [e for e in w.events if e.kind == "store" and e.arr.name in tw]
        for g in group_by_node(stores):
            res, numeric = [], False
            for e in g:
                v = e.value
                if not isinstance(v, Num) or e.old is None:
                    res.append((None, "store shape not understood"))
                    continue
                p = w.P.prove_le0(Lin.term(e.old) - v.lin, e.facts)
                if not p and (is_float_derived(w, v.lin) or w.P.is_float(v.lin)):
                    numeric = True
                    continue
                res.append((bool(p), str(p) if p else "cannot prove new value %s >= old cell %s" % (show_lin(v.lin), show_lin(Lin.term(e.old))), fact_strs(e)))
            cons = src(k, g[0].node)
            if numeric and not res:
                ctx.undecided_clauses.append("%s: `%s` -- monotonicity of the re-encoded log counter depends on floating-point rounding (numeric, not decided)" % (k.key, cons))
                continue
            n += 1
            agg(ctx, "mono", k, g[0].node, cons, "new cell value >= old cell value", res)
    return n


# ---------------------------------------------------------------------------
# cap
# ---------------------------------------------------------------------------

def rule_cap(ctx, classes=SKETCH_CLASSES):
    """A Python-level multiplicity reaches a <64-bit kernel parameter only after being capped to that type's range."""
    F = facts_of(ctx)
    n = 0
    for cls in F.classes(classes):
        for mname, meth in cls.methods.items():
            if "value" not in meth.params:
                continue
            w = F.walk(meth)
            for e in w.events:
                if e.kind != "call" or e.callee is None or not e.callee.is_kernel:
                    continue
                for i, a in enumerate(e.args):
                    if i >= len(e.callee.params):
                        continue
                    p = e.callee.params[i]
                    pty = e.callee.ptypes.get(p)
                    if pty is None or pty.is_array or pty.kind != "uint" or pty.bits >= 64:
                        continue
                    if not isinstance(a, Num):
                        continue
                    # depends on the method's own `value` parameter?
                    dep = ("param", "value") in a.lin.terms() or any(
                        t[0] in ("min", "max") and "value" in repr(t) for t in a.lin.terms())
                    if not dep:
                        continue
                    n += 1
                    hi = 2 ** pty.bits - 1
                    pr = w.P.prove_le0(a.lin - hi, e.facts)
                    ctx.ob("cap", meth, e.node, "%s(%s=%s)" % (e.callee.name, p, show_lin(a.lin)),
                           "multiplicity passed to a %r parameter is <= %d (a larger Python int wraps silently)" % (pty, hi),
                           bool(pr), "" if pr else "the argument is not capped with min(., self.uint_maxval) before the call",
                           proof=pr, facts=fact_strs(e))
    # kernel-internal callers: the multiplicity handed on fits the callee's parameter type (decided from the caller's facts)
    seen_callers = []
    for k in F.kcalls():
        if k.caller.is_kernel and k.callee.is_kernel and "value" in k.callee.params and k.caller not in seen_callers \
                and not F.is_inlined_helper(k.caller) and k.caller.module.short != "hashes" and k.callee.module.short != "hashes":
            seen_callers.append(k.caller)
    for caller in seen_callers:
        w = walk_kernel(F, caller)
        evs = [e for e in w.events if e.kind == "call" and e.callee is not None and e.callee.is_kernel and not getattr(e, "inlined", False)
               and "value" in e.callee.params]
        for g in group_by_node(evs):
            e0 = g[0]
            pty = e0.callee.ptypes.get("value")
            if pty is None or pty.is_array or pty.kind != "uint" or pty.bits >= 64:
                continue
            i = e0.callee.params.index("value")
            res = []
            for e in g:
                a_ = e.args[i] if i < len(e.args) else None
                if not isinstance(a_, Num):
                    res.append((None, "argument not understood"))
                    continue
                hi = 2 ** pty.bits - 1
                p1 = w.P.prove_le0(a_.lin - hi, e.facts)
                p2 = w.P.prove_le0(-a_.lin, e.facts)
                res.append((bool(p1 and p2), "0 <= %s <= %d" % (show_lin(a_.lin), hi) if p1 and p2 else
                            "cannot prove 0 <= %s <= %d: the callee's %r parameter truncates it" % (show_lin(a_.lin), hi, pty), fact_strs(e)))
            amap = e0.node.args[i] if isinstance(e0.node, ast.Call) and i < len(e0.node.args) else None
            agg(ctx, "cap", caller, e0.node, "%s(value=%s)" % (e0.callee.name, unparse(amap) if amap is not None else "?"),
                "internal multiplicity fits the %r parameter" % pty, res)
            n += 1
    return n


# ---------------------------------------------------------------------------
# qmin / addr
# ---------------------------------------------------------------------------

def query_kernels(F):
    """Kernels that compute a key's minimum over its cells: called by `query` of the count-min classes."""
    out = []
    for cls in F.classes(COUNTMIN):
        q = cls.methods.get("query")
        if q is None:
            continue
        for k in F.calls_from(q):
            if k.callee.is_kernel and table_params(F, k.callee, {"cms"}):
                if k.callee not in out:
                    out.append(k.callee)
    return out


def add_kernels(F):
    """Kernels called by `add` of the count-min classes that write the table."""
    out = []
    for cls in F.classes(COUNTMIN):
        a = cls.methods.get("add")
        if a is None:
            continue
        for k in F.calls_from(a):
            if k.callee.is_kernel and "cms" in table_params(F, k.callee, {"cms"}).values():
                if k.callee not in out:
                    out.append(k.callee)
    return out


def hash_site(w, events, value, ev):
    """If `value` is  fasthash64(K, S) % W  return (call_event, W Lin) else None."""
    if not isinstance(value, Num):
        return None
    t = value.lin.single_term()
    if t is None or t[0] != "op" or t[1] != "Mod":
        return None
    for c in events:
        if c.kind == "call" and c.name == "fasthash64" and isinstance(c.result, Num):
            if c.result.lin.key() == t[2]:
                return c, t[3]
    return None


def rule_qmin(ctx, kernels=None, rule="qmin", strict_seed=True):
    F = facts_of(ctx)
    ks = kernels if kernels is not None else query_kernels(F)
    for k in ks:
        w = walk_kernel(F, k)
        tp = table_params(F, k, {"cms"})
        if len(tp) != 1:
            ctx.ob(rule, k, k.node, k.name, "query kernel has exactly one counter table", None, "tables: %r" % tp)
            continue
        table = next(iter(tp))
        depth_p = F.param_for(k, "depth")
        loops = [n for n in walk_no_nested(k.node) if isinstance(n, (ast.For, ast.While))]
        rets = [e for e in w.events if e.kind == "ret" and not e.implicit]
        # (1) a single loop over range(depth) -- the loop that reads the table; a separate pass that only fills the bucket array
        # (in this kernel or in a helper walked inline) is not a second minimum loop
        lends = [e for e in w.events if e.kind == "loopend"]
        rloops = [e.loops[-1] for e in w.events if e.kind == "read" and e.arr.name == table and e.loops]
        if rloops:
            qlp = rloops[0]
            lends = [e for e in lends if e.loop is qlp] or lends
            other_nodes = [l for l in loops if l is not qlp.node]
            other_reads = [e for e in w.events if e.kind == "read" and e.arr.name == table and e.loops and e.loops[-1] is not qlp]
            if other_nodes and not other_reads and all(id(l) != id(qlp.node) for l in other_nodes):
                loops = [qlp.node] if any(l is qlp.node for l in loops) else loops
        okk = len(loops) == 1 and bool(lends)
        lp = lends[0].loop if lends else None
        if okk:
            d = w.func and lp.stop
            dp = Lin.term(("param", depth_p)) if depth_p else None
            okk = lp.kind == "range" and lp.start == Lin.const(0) and lp.step == Lin.const(1) and dp is not None and lp.stop == dp
        ctx.ob(rule, k, loops[0] if loops else k.node, "for %s" % (src(k, loops[0].iter, 40) if loops and isinstance(loops[0], ast.For) else "?"),
               "the minimum runs over every row: one loop `range(depth)` from 0 step 1", okk,
               "" if okk else "loop is not exactly range(<depth parameter>)")
        if not lends:
            continue
        # no answer is given before every row was visited
        early = [r for r in rets if loops and not (comes_before(k.node, loops[0], r.node) and not r.loops)]
        ctx.ob(rule, k, early[0].node if early else k.node, "%s: returns only after the row loop" % k.name,
               "the estimate is returned only after all rows were examined", not early,
               "" if not early else "`%s` answers before/inside the loop over the rows" % src(k, early[0].node, 50))
        rets = [r for r in rets if r not in early]
        # (2) the accumulator: the name returned
        acc = None
        for r in rets:
            if isinstance(r.node.value, ast.Name):
                acc = r.node.value.id
        if acc is None or len({unparse(r.node.value) for r in rets}) != 1:
            ctx.ob(rule, k, k.node, "return", "the kernel returns its running minimum", None, "return shape not understood")
            continue
        # (3) initial value >= every cell value
        init = lends[0].loop and None
        # value of acc at loop entry: look at the env of the first branch/any event before the loop? use Walker entry env
        entry = _value_before_loop(w, k, loops[0], acc)
        cell_hi = k.ptypes[table].scalar.range()[1]
        if isinstance(entry, Num):
            pr = w.P.prove_le0(Lin.const(cell_hi) - entry.lin, [])
            ctx.ob(rule, k, loops[0], "%s (initial)" % acc, "accumulator starts at or above every possible cell value (%d)" % cell_hi,
                   bool(pr), "" if pr else "initial value %s may be below a cell" % show_lin(entry.lin), proof=pr)
        else:
            ctx.ob(rule, k, loops[0], "%s (initial)" % acc, "accumulator starts at the ceiling", None, "initial value not understood")
        # (4) never rises inside the loop
        assigns = [e for e in w.events if e.kind == "assign" and e.name == acc and e.loops and e.loops[-1].node is lp.node]
        for g in group_by_node(assigns):
            res = []
            for e in g:
                if isinstance(e.old, Num) and isinstance(e.value, Num):
                    pr = w.P.prove_le0(e.value.lin - e.old.lin, e.facts)
                    res.append((bool(pr), str(pr) if pr else "assignment may raise the running minimum", fact_strs(e)))
                else:
                    res.append((None, "assignment shape not understood"))
            agg(ctx, rule, k, g[0].node, src(k, g[0].node), "the running minimum never rises", res)
        # (5) at the end of every iteration acc <= the key's cell of this row, addressed through the hash of this row
        res = []
        for le in lends:
            lp = le.loops[-1]
            evs = [x for x in on_path(w.events, le) if x.loops and x.loops[-1] is lp]
            reads = [x for x in evs if x.kind == "read" and x.arr.name == table]
            a = le.env.get(acc)
            if not reads or not isinstance(a, Num):
                res.append((False, "an iteration reads no table cell", fact_strs(le)))
                continue
            good = False
            why = ""
            for rd in reads:
                pr = w.P.prove_le0(a.lin - Lin.term(rd.term), le.facts)
                col = rd.idx[1] if len(rd.idx) == 2 else None
                rowok = len(rd.idx) == 2 and rd.idx[0].lin == Lin.term(lp.varterm)
                hs = _column_is_row_hash(w, evs, col, lp, k, F) if col is not None else None
                if hs is not True and not strict_seed and col is not None:
                    # for the estimate bounds any column that is a fixed function of (key, row, width) serves (add and query share it
                    # through the bucket array); that each row hashes independently is property C14's rule `seedrow`
                    hs = _column_is_function_of_key_and_row(w, evs, col, lp, k, F) or hs
                if pr and rowok and hs is True:
                    good = True
                else:
                    why = ("accumulator not proven <= the cell" if not pr else
                           "cell row is not the loop variable" if not rowok else "column is not this row's hash bucket: %s" % hs)
            res.append((good, "acc <= cell of this row" if good else why, fact_strs(le)))
        agg(ctx, rule, k, loops[0], "for-body of %s" % k.name,
            "after each iteration the accumulator is <= cms[row, fasthash64(key,row) %% width]", res)
        # (6) nothing but the bucket scratch array is written
        wr = F.effects.written_params(k)
        okk = table not in wr
        ctx.ob(rule, k, k.node, "%s writes %s" % (k.name, sorted(wr)), "a query does not modify the counter table", okk)


def _value_before_loop(w, k, loop_node, name):
    """Abstract value of `name` just before `loop_node` (first path)."""
    for e in w.events:
        if e.kind == "call" or e.kind == "branch" or e.kind == "read" or e.kind == "store":
            if getattr(e.node, "lineno", 0) >= loop_node.lineno and e.loops:
                break
    # simplest: re-evaluate by scanning straight-line assignments before the loop
    val = None
    for s in k.body():
        if s is loop_node:
            break
        if isinstance(s, ast.Assign) and len(s.targets) == 1 and isinstance(s.targets[0], ast.Name) and s.targets[0].id == name:
            from .flow import State
            st = State()
            for p in k.params:
                st.env[p] = w.param_value(p, k.ptypes.get(p))
            val = w.ev(s.value, st)
    return val


def _column_is_row_hash(w, evs, col, lp, k, F):
    """col (Num) is buckets[row] where buckets[row] = fasthash64(key, row) % width in this iteration,
       or directly fasthash64(key,row) % width."""
    key_p = [p for p, t in k.ptypes.items() if t.kind == "bytes"]
    width_p = F.param_for(k, "width")
    if width_p is None:
        return "no width parameter bound"

    def check_hash(value, evs=evs, lp=lp):
        hs = hash_site(w, evs, value, None)
        if not hs:
            via = helper_column(F, w, evs, value, lp, k)
            if via is not None:
                return via
            return "not `fasthash64(...) % ...`"
        c, wkey = hs
        if wkey != Lin.term(("param", width_p)).key():
            return "hash is not reduced modulo the width parameter"
        a = c.args
        if len(a) != 2 or not isinstance(a[0], Bytes) or not isinstance(a[1], Num):
            return "hash arguments not understood"
        if not seed_is_row(a[1].lin, lp):
            return "hash seed is not an injective function of the row"
        return True
    t = col.lin.single_term()
    if t is not None and t[0] == "cell":
        # bucket scratch array: find the store of this iteration
        for s in evs:
            if s.kind == "store" and s.arr.name == t[1] and len(s.idx) == 1 and s.idx[0].lin == Lin.term(lp.varterm):
                if s.memver.get(t[1], 0) + 1 == t[2] and t[3] == (Lin.term(lp.varterm).key(),):
                    return check_hash(s.value)
        # ... or a fill pass of its own: an EARLIER loop over the same rows (range(depth) from 0, step 1) stored buckets[r] for every r,
        # the array was not written since, and this loop reads buckets[row] at its own row
        r = two_pass_fill(w, t, lp, evs)
        if r is not None:
            fill_lp, fill_store, fill_evs = r
            return check_hash(fill_store.value, fill_evs, fill_lp)
        return "bucket cell is not written in this iteration"
    return check_hash(col)


def two_pass_fill(w, cellterm, lp, evs):
    """(fill loop, its store event, the events of that iteration) when `cellterm` = buckets[<row of lp>] was written, for every row, by an
    earlier loop with the same bounds as `lp` and by nothing else since; None otherwise."""
    arr = cellterm[1]
    if cellterm[3] != (Lin.term(lp.varterm).key(),) or lp.kind != "range":
        return None
    first = next((e for e in evs), None)
    anchor = first if first is not None else None
    stores = [s for s in w.events if s.kind in ("store", "slicestore") and s.arr.name == arr]
    # all stores to the array: exactly one store site, inside one other loop, indexed by that loop's variable
    sites = {id(s.node) for s in stores}
    if len(sites) != 1 or not stores:
        return None
    s0 = stores[0]
    if s0.kind != "store" or not s0.loops or len(s0.idx) != 1:
        return None
    flp = s0.loops[-1]
    if flp is lp or flp.node is lp.node or flp.kind != "range" or flp.varterm is None or s0.idx[0].lin != Lin.term(flp.varterm):
        return None
    if not (flp.start == lp.start == Lin.const(0) and flp.step == lp.step == Lin.const(1) and flp.stop == lp.stop):
        return None
    if not comes_before(w.func.node, flp.node, lp.node) and not getattr(s0, "inlined_from", None):
        # (a fill loop inside a helper walked inline has no position in this function: it ran where the helper was called)
        pass
    # the store is unconditional in its iteration (every row is filled): no branch between the loop head and the store
    fill_evs = [x for x in on_path(w.events, s0) if x.loops and x.loops[-1] is flp]
    if any(x.kind == "branch" for x in fill_evs):
        return None
    return flp, s0, fill_evs


def _column_is_function_of_key_and_row(w, evs, col, lp, k, F):
    from .deps import Deps
    D = Deps(w, known_terms=[lp.varterm] if lp.varterm else [])
    lin = col.lin
    t = lin.single_term()
    if t is not None and t[0] == "cell":
        # bucket scratch array: the value stored for this row in this iteration
        lin = None
        for s_ in evs:
            if s_.kind == "store" and s_.arr.name == t[1] and len(s_.idx) == 1 and s_.idx[0].lin == Lin.term(lp.varterm) \
                    and s_.memver.get(t[1], 0) + 1 == t[2] and isinstance(s_.value, Num):
                lin = s_.value.lin
        if lin is None:
            return False
    deps = D.of_lin(lin)
    bad = [d for d in deps if d[0] in ("array", "unknown", "attr") or (d[0] == "call" and d[1] not in ("fasthash64", "fasthash32", "murmur3", "len", "min", "max"))]
    keyp = {p for p, ty in k.ptypes.items() if ty.kind == "bytes"}
    uses_key = any(d[0] == "param" and d[1] in keyp for d in deps)
    uses_hash = any(d[0] == "call" and d[1] in ("fasthash64", "fasthash32", "murmur3") for d in deps)
    return (not bad) and uses_key and uses_hash


def helper_hash_summary(F, callee):
    """For a helper kernel that returns a column: ('ok', key_param, seed_param, width_param) if EVERY return path returns
    fasthash64(<whole key param>, +/-<param> + c) % <param>; ('bad', why) if some path returns something else; None if the shape
    is not understood."""
    _HELPER_SUMMARIES = F.__dict__.setdefault("_helper_summaries", {})
    if callee.key in _HELPER_SUMMARIES:
        return _HELPER_SUMMARIES[callee.key]
    out = None
    try:
        hw = F.walk(callee)
        rets = [e for e in hw.events if e.kind == "ret" and not e.implicit]
        bp = [p for p, t in callee.ptypes.items() if t.kind == "bytes"]
        roles = set()
        bad = None
        for r in rets:
            hs = hash_site(hw, on_path(hw.events, r), r.value, None)
            if not hs:
                bad = "on some path the helper %s returns %s, which is not fasthash64(key, seed(row)) %% width" % (
                    callee.name, show_lin(r.value.lin) if isinstance(r.value, Num) else r.value)
                break
            c, wkey = hs
            a = c.args
            sp = [t for t in a[1].lin.terms()] if len(a) == 2 and isinstance(a[1], Num) else []
            if not (len(a) == 2 and isinstance(a[0], Bytes) and bp and a[0].root == bp[0] and a[0].stop is None and a[0].start == Lin.const(0)
                    and len(sp) == 1 and sp[0][0] == "param" and a[1].lin.c[sp[0]] in (1, -1)):
                bad = "the helper %s does not hash its whole key argument with a seed that is +/- one parameter" % callee.name
                break
            wp = [p for p in callee.params if Lin.term(("param", p)).key() == wkey]
            if not wp:
                bad = "the helper %s does not reduce the hash modulo a parameter" % callee.name
                break
            roles.add((bp[0], sp[0][1], wp[0]))
        if bad:
            out = ("bad", bad)
        elif len(roles) == 1 and rets:
            out = ("ok",) + next(iter(roles))
    except AnalysisError:
        out = None
    _HELPER_SUMMARIES[callee.key] = out
    return out


def helper_column(F, w, evs, value, lp, k):
    """value is the result of a helper call that provides this row's column: True / reason string / None (not a helper call)."""
    if not isinstance(value, Num):
        return None
    t = value.lin.single_term()
    if t is None or t[0] != "call":
        return None
    for c in evs:
        if c.kind == "call" and c.callee is not None and isinstance(c.result, Num) and c.result.lin == value.lin and c.callee.name != "fasthash64":
            sm = helper_hash_summary(F, c.callee)
            if sm is None:
                return None
            if sm[0] == "bad":
                return sm[1]
            _, kp, sp, wp = sm
            am = dict(zip(c.callee.params, c.args))
            width_p = F.param_for(k, "width")
            if not (isinstance(am.get(kp), Bytes) and am[kp].stop is None and am[kp].start == Lin.const(0)):
                return "the helper is not given the whole key"
            if not (isinstance(am.get(sp), Num) and seed_is_row(am[sp].lin, lp)):
                return "the helper's seed argument is not an injective function of the row"
            if not (isinstance(am.get(wp), Num) and width_p and am[wp].lin == Lin.term(("param", width_p))):
                return "the helper's modulus is not the width parameter"
            return True
    return None


def seed_is_row(lin, lp):
    """lin == +/-1 * loopvar + const."""
    if lp is None or lp.varterm is None:
        return False
    c = dict(lin.c)
    v = c.pop(lp.varterm, 0)
    return v in (1, -1) and not c


# ---------------------------------------------------------------------------
# cons / newcount / nadd-once  (the add kernels)
# ---------------------------------------------------------------------------

def rule_cons(ctx, kernels=None):
    F = facts_of(ctx)
    ks = kernels if kernels is not None else add_kernels(F)
    qk = {q.name for q in query_kernels(F)}
    for k in ks:
        w = walk_kernel(F, k)
        tp = [p for p, a in table_params(F, k, {"cms"}).items() if a == "cms"]
        if len(tp) != 1:
            ctx.ob("cons", k, k.node, k.name, "add kernel has one counter table", None)
            continue
        table = tp[0]
        buckets_p = F.param_for(k, "buckets")
        depth_p = F.param_for(k, "depth")
        stores = [e for e in w.events if e.kind == "store" and e.arr.name == table]
        sites = group_by_node(stores)
        no_early_exit(ctx, "cons", k, w, {table}, "rows of the key")
        # a store statement in the source that the walk produced no event for sits in a construct the walker does not enter (a loop
        # over something other than a range): the count of sites is then not known
        ast_sites = [n for n in walk_no_nested(k.node) if isinstance(n, (ast.Assign, ast.AugAssign))
                     and any(isinstance(t, ast.Subscript) and isinstance(t.value, ast.Name) and t.value.id == table
                             for t in (n.targets if isinstance(n, ast.Assign) else [n.target]))]
        seen_nodes = {id(g[0].node) for g in sites}
        unread_sites = [n for n in ast_sites if id(n) not in seen_nodes]
        n_ok = len(sites) == 1 and not unread_sites
        ctx.ob("cons", k, k.node, "%d table store site(s) in %s" % (len(sites), k.name),
               "exactly one statement writes the counter table", n_ok if (n_ok or not unread_sites) else None,
               "" if n_ok else ("a store into the table at line %d is not reached by the walk (the loop around it is not a range loop): not read"
                                % unread_sites[0].lineno) if unread_sites else "sites: %s" % [src(k, g[0].node, 50) for g in sites])
        # (iv) callees do not write the table
        for c in F.calls_from(k):
            if F.is_inlined_helper(c.callee):
                continue       # walked inline: its stores are among the store sites above
            wr = F.effects.written_params(c.callee)
            bad = [p for p, a in c.argmap.items() if p in wr and isinstance(a, ast.Name) and a.id == table]
            ctx.ob("cons", k, c.node, "call %s(...)" % c.callee.name, "callee does not write the counter table", not bad,
                   "" if not bad else "%s stores into its parameter %s" % (c.callee.name, bad))
        qcalls = [e for e in w.events if e.kind == "call" and e.name in qk]
        for g in sites:
            res_i, res_v, res_b = [], [], []
            for e in g:
                lp = e.loops[-1] if e.loops else None
                # (i) inside one `for row in range(depth)`, index [row, buckets[row]]
                # (the rows may be enumerated backwards: row = depth - 1 - i is a bijection of range(depth) onto itself, and the
                # rows of one key are independent)
                okk = (len(e.loops) == 1 and lp.kind == "range" and lp.start == Lin.const(0) and lp.step == Lin.const(1)
                       and depth_p is not None and lp.stop == Lin.term(("param", depth_p))
                       and len(e.idx) == 2 and (e.idx[0].lin == Lin.term(lp.varterm) or e.idx[0].lin == lp.stop - 1 - Lin.term(lp.varterm)))
                col = e.idx[1].lin.single_term() if len(e.idx) == 2 else None
                okk = okk and col is not None and col[0] == "cell" and col[1] == buckets_p and col[3] == (e.idx[0].lin.key(),)
                res_i.append((bool(okk), "index is [row, buckets[row]] inside `for row in range(depth)`" if okk
                              else "store index/loop is not [row, buckets[row]] under range(depth)", fact_strs(e)))
                # (iii) stored value is loop-invariant (the same new_count for every row)
                v = e.value
                if isinstance(v, Num):
                    inv = not any(t == (lp.varterm if lp else None) or t[0] == "cell" for t in v.lin.terms())
                    res_v.append((inv, "stored value does not depend on the row or on any cell" if inv else
                                  "stored value %s depends on the row/cell: other keys can end above the key's new estimate" % show_lin(v.lin), fact_strs(e)))
                else:
                    res_v.append((None, "stored value not understood"))
                # buckets freshly computed for THIS key: a query call on this path, same (table, buckets, key), and the
                # bucket version read is the one that call produced
                pre = [c for c in on_path(w.events, e) if c in qcalls]
                okb = False
                if pre and col is not None:
                    c = pre[-1]
                    names = [a.name if isinstance(a, Arr) else None for a in c.args]
                    keyarg = [a for a in c.args if isinstance(a, Bytes)]
                    okb = (table in names and buckets_p in names and len(keyarg) == 1 and keyarg[0].stop is None
                           and keyarg[0].start == Lin.const(0)
                           and c.memver.get(buckets_p, 0) + 1 == col[2])
                res_b.append((okb, "buckets were filled by the query of this key on this path" if okb else
                              "bucket columns are not (provably) those of this key: no dominating query call or buckets rewritten since", fact_strs(e)))
            node = g[0].node
            # completeness: when the store is skipped for a row, that row's cell is already >= new_count
            newv = next((e.value.lin for e in g if isinstance(e.value, Num)), None)
            res_c = []
            loops_seen = {id(e.loops[-1]): e.loops[-1] for e in g if e.loops}
            for le in [x for x in w.events if x.kind == "loopend" and id(x.loop) in loops_seen]:
                evs = [x for x in on_path(w.events, le) if x.loops and x.loops[-1] is le.loop]
                if any(x in g for x in evs):
                    res_c.append((True, "cell raised to new_count", fact_strs(le)))
                    continue
                rd = [x for x in evs if x.kind == "read" and x.arr.name == table and len(x.idx) == 2
                      and (x.idx[0].lin == Lin.term(le.loop.varterm) or x.idx[0].lin == le.loop.stop - 1 - Lin.term(le.loop.varterm))]
                # the value this execution of the loop stores (paths differ in how new_count was formed)
                newv_here = next((e.value.lin for e in g if e.loops and e.loops[-1] is le.loop and isinstance(e.value, Num)), newv)
                okc = newv_here is not None and any(prove_le0_cases(w.P, newv_here - Lin.term(x.term), le) for x in rd)
                if not okc and newv_here is not None and rd:
                    # the dominating query returned the minimum over exactly these cells (rules qmin / addr): its result is <= each of them
                    pre_q = [c for c in on_path(w.events, le) if c in qcalls and isinstance(getattr(c, "result", None), Num)]
                    if pre_q:
                        qres = pre_q[-1].result.lin
                        okc = any(prove_le0_cases(w.P, newv_here - Lin.term(x.term), le, [qres - Lin.term(x.term)]) for x in rd)
                res_c.append((bool(okc), "row skipped only when its cell is already >= new_count" if okc else
                              "a row of the key can be left below new_count: the key's estimate after the add is then smaller than old + v", fact_strs(le)))
            if res_c:
                agg(ctx, "cons", k, node, src(k, node), "after the update every cell of the key is >= new_count (so the new minimum is new_count)", res_c)
            agg(ctx, "cons", k, node, src(k, node), "at most one cell per row: index [row, buckets[row]] in one loop over range(depth)", res_i)
            agg(ctx, "cons", k, node, src(k, node), "every raised cell receives the same new_count", res_v)
            agg(ctx, "addr", k, node, src(k, node), "cells addressed are those of this key (fresh buckets from the dominating query)", res_b)


def rule_newcount(ctx, only=None):
    F = facts_of(ctx)
    qk = {q.name for q in query_kernels(F)}
    for k in add_kernels(F):
        if only is not None and k.key not in only:
            continue
        w = walk_kernel(F, k)
        tp = [p for p, a in table_params(F, k, {"cms"}).items() if a == "cms"]
        if len(tp) != 1:
            continue
        table = tp[0]
        stores = [e for e in w.events if e.kind == "store" and e.arr.name == table]
        value_p = "value" if "value" in k.params else None
        res = []
        for e in stores:
            pre = on_path(w.events, e)
            q = [c for c in pre if c.kind == "call" and c.name in qk]
            lc = [c for c in pre if c.kind == "call" and c.name == "_log_counter"]
            v = e.value
            if not q or not isinstance(v, Num) or not isinstance(q[-1].result, Num):
                res.append((None, "no query result on the path / value not understood"))
                continue
            mc = q[-1].result.lin
            if lc:
                c = lc[-1]
                r0 = c.result.items[0] if isinstance(c.result, Tup) else None
                a = c.args
                okk = (isinstance(r0, Num) and len(a) >= 7 and isinstance(a[0], Num) and a[0].lin == mc
                       and isinstance(a[6], Num) and a[6].lin == Lin.term(("param", value_p)))
                # the stored value is that result (possibly through an in-range cast)
                same = isinstance(r0, Num) and (v.lin == r0.lin or _is_cast_of(w, v, r0, pre))
                res.append((bool(okk and same), "new_count = _log_counter(min_count, ..., value)[0]" if okk and same else
                            "stored value is not the log-counter step of (query result, value)", fact_strs(e)))
            else:
                ceiling = k.ptypes[table].scalar.range()[1]
                val = Lin.term(("param", value_p))
                box = FactBox(e.facts)
                g = w.minmax("min", mc + val, Lin.const(ceiling), box)
                p1 = w.P.prove_le0(v.lin - g, box.facts)
                p2 = w.P.prove_le0(g - v.lin, box.facts)
                res.append((bool(p1 and p2), "new_count == min(min_count + value, %d)" % ceiling if (p1 and p2) else
                            "cannot prove stored value %s == min(min_count + value, %d)" % (show_lin(v.lin), ceiling), fact_strs(e)))
        if stores:
            agg(ctx, "newcount", k, stores[0].node, src(k, stores[0].node),
                "the stored value is the key's old minimum advanced by the multiplicity (capped)", res)


def _is_cast_of(w, v, r0, pre):
    for c in pre:
        if c.kind == "cast" and isinstance(c.arg, Num) and c.arg.lin == r0.lin and isinstance(c.result, Num) and c.result.lin == v.lin:
            return True
    return False


def rule_nadd_once(ctx, kernels):
    """n_added_records[0] += <amount> executes exactly once on every path that reaches the table stores."""
    F = facts_of(ctx)
    qk = {q.name for q in query_kernels(F)}
    for k in kernels:
        w = walk_kernel(F, k)
        na = F.param_for(k, "n_added_records")
        if na is None:
            ctx.ob("nadd-once", k, k.node, k.name, "kernel receives the bookkeeping counters", None)
            continue
        st0 = [e for e in w.events if e.kind == "store" and e.arr.name == na and len(e.idx) == 1 and e.idx[0].lin == Lin.const(0)]
        sites = group_by_node(st0)
        tabs = set(table_params(F, k, {"cms", "lhh_count"}))
        res = []
        for r in [e for e in w.events if e.kind == "ret"]:
            pre = on_path(w.events, r)
            cnt = [x for x in pre if x in st0]
            # does this exit follow the table-store loop?  (a loop whose body writes a table)
            after_loop = any(x.kind == "loopend" and (x.loop.written & tabs) for x in w.events
                             if x.kind == "loopend" and x.line < r.line) if r.implicit else None
            reaches = _exit_follows_store_loop(w, r, tabs)
            if reaches:
                okk = len(cnt) == 1 and not cnt[0].loops
                res.append((okk, "one bookkeeping update on the path" if okk else
                            "%d updates of n_added_records[0] on a path that updates the table" % len(cnt), fact_strs(r)))
            else:
                okk = len(cnt) <= 1
                res.append((okk, "at most one" if okk else "%d updates on an early-exit path" % len(cnt), fact_strs(r)))
        agg(ctx, "nadd-once", k, sites[0][0].node if sites else k.node,
            src(k, sites[0][0].node) if sites else "n_added_records[0] += ...",
            "n_added grows exactly once per add that updates the table", res)
        # the amount
        for g in sites:
            res = []
            for e in g:
                okk = None
                if e.aug and isinstance(e.aug[0], ast.Add) and isinstance(e.aug[2], Num):
                    amt = e.aug[2].lin
                    q = [c for c in on_path(w.events, e) if c.kind == "call" and c.name in qk]
                    calls_k = list(F.calls_from(k))
                    if any(c.callee.name in qk for c in calls_k) and not any(c.callee.name == "_log_counter" for c in calls_k):
                        # linear count-min add: conservative update from the queried minimum, no log step
                        # amount == new_count - min_count: compare with the table store value on later paths
                        tstores = [s for s in w.events if s.kind == "store" and s.arr.name in tabs and isinstance(s.value, Num)
                                   and len(s.path) >= len(e.path) and s.path[:len(e.path)] == e.path]     # stores of this path's continuation
                        okk = bool(q) and bool(tstores) and all(
                            s.value.lin - q[-1].result.lin == amt for s in tstores)
                        why = "amount equals new_count - min_count (the capped multiplicity)"
                    else:
                        okk = amt == Lin.term(("param", "value"))
                        why = "amount is the multiplicity parameter"
                    res.append((bool(okk), why if okk else "amount %s is not the multiplicity actually applied" % show_lin(amt), fact_strs(e)))
                else:
                    res.append((False, "n_added_records[0] is not updated with `+= amount`", fact_strs(e)))
            agg(ctx, "nadd-once", k, g[0].node, src(k, g[0].node), "n_added grows by the multiplicity applied", res)


def _exit_follows_store_loop(w, r, tabs):
    """True if the exit `r` lies on a path that went through the table update (a loop whose body stores into a table, or a direct
    table store outside any loop), i.e. the add was not cut short."""
    for x in on_path(w.events, r):
        if x.kind == "loopstart" and (x.loop.written & tabs):
            return True
        if x.kind in ("store", "slicestore") and x.arr.name in tabs and not x.loops:
            return True
    return False


# ---------------------------------------------------------------------------
# logstep
# ---------------------------------------------------------------------------

def rule_logstep(ctx):
    F = facts_of(ctx)
    k = ctx.model.func("countmin", "_log_counter")
    w = walk_kernel(F, k)
    lends = [e for e in w.events if e.kind == "loopend"]
    lp = lends[0].loop if lends else None
    cname = k.params[0]
    alias_init = None
    if not any(e.kind == "assign" and e.name == cname for e in w.events):
        # the parameter is never stepped: the steps run on a working copy `level = uintN(counter)` made before the loop
        for n in walk_no_nested(k.node):
            if isinstance(n, ast.Assign) and len(n.targets) == 1 and isinstance(n.targets[0], ast.Name):
                v = n.value
                while isinstance(v, ast.Call) and len(v.args) == 1 and not v.keywords:
                    v = v.args[0]
                if isinstance(v, ast.Name) and v.id == k.params[0] and not (lp is not None and is_inside(k.node, n, lp.node)):
                    cname = n.targets[0].id
                    alias_init = n
                    break
    c0_ = Lin.term(("param", k.params[0]))
    v_ = Lin.term(("param", "value"))
    nr_ = Lin.term(("param", "num_reserved"))
    mv_ = Lin.term(("param", "uint_maxval"))
    loopn = lp.node if lp else None
    outside = []
    for n in walk_no_nested(k.node):
        if isinstance(n, (ast.Assign, ast.AugAssign)) and n is not alias_init:
            tg = n.targets if isinstance(n, ast.Assign) else [n.target]
            for t in tg:
                for e_ in (t.elts if isinstance(t, (ast.Tuple, ast.List)) else [t]):
                    if isinstance(e_, ast.Name) and e_.id == cname and not (loopn is not None and is_inside(k.node, n, loopn)):
                        outside.append(n)
    plain = lp is not None and lp.kind == "range" and lp.start == Lin.const(0) and lp.step == Lin.const(1) \
        and lp.stop == Lin.term(("param", "value"))
    okk, why_steps = bool(plain), "the step loop is not `for _ in range(value)`"
    two_phase = None
    if lp is not None and lp.kind == "range" and outside:
        # two-phase spelling: the deterministic steps below num_reserved are taken in one jump of n, the loop runs over what is left.
        # At every entry of the loop: 0 <= n = cur - counter, n + trips <= value, and the jump ended inside the exact range and at
        # or below the ceiling (cur == counter, or cur <= num_reserved and cur <= uint_maxval)
        starts = [e for e in w.events if e.kind == "loopstart" and e.loop.node is lp.node]
        res_tp = []
        for ls in starts:
            cur = ls.env.get(cname)
            l_ = ls.loop
            if not (isinstance(cur, Num) and l_.kind == "range" and l_.start == Lin.const(0) and l_.step == Lin.const(1)):
                res_tp.append((None, "loop entry not understood", fact_strs(ls)))
                continue
            n_ = cur.lin - c0_
            p_nonneg = prove_le0_cases(w.P, -n_, ls)
            p_total = prove_le0_cases(w.P, n_ + l_.stop - v_, ls)
            p_same = w.P.prove_eq0(n_, ls.facts)
            p_exact = p_same or (prove_le0_cases(w.P, cur.lin - nr_, ls) and prove_le0_cases(w.P, cur.lin - mv_, ls))
            # the trip count is what is left of the budget, not a wrapped difference: value - n >= 0
            p_left = prove_le0_cases(w.P, -l_.stop, ls)
            good = bool(p_nonneg and p_total and p_exact and p_left)
            # refuted outright on this path: jump + trips provably exceed `value`
            over = (not p_total) and bool(w.P.prove_le0(-(n_ + l_.stop - v_) + 1, ls.facts))
            res_tp.append(((True if good else False if over else None), "jump of n deterministic steps, then at most value - n trips" if good else
                           ("the jump of %s steps and the loop's %s trips together exceed `value`: more unit steps are taken than were asked for"
                            % (show_lin(n_), show_lin(l_.stop)) if over else
                            "before the loop the counter is %s and the loop makes %s trips: not shown to be at most `value` unit steps inside the exact range"
                            % (show_lin(cur.lin), show_lin(l_.stop))), fact_strs(ls)))
        if res_tp and all(r[0] is True for r in res_tp):
            two_phase, okk = True, True
        elif res_tp and any(r[0] is False for r in res_tp):
            okk, why_steps = False, next(r[1] for r in res_tp if r[0] is False)
        elif res_tp:
            okk, why_steps = None, next(r[1] for r in res_tp if r[0] is not True)
    elif not plain and lp is not None and lp.kind != "range":
        okk, why_steps = None, "the step loop is a while loop with its own remaining-work counter: shape not understood"
    ctx.ob("logstep", k, lp.node if lp else k.node, "for _ in range(value)", "at most `value` unit steps in all (one loop over range(value), or a "
           "deterministic jump inside the exact range followed by a loop over what is left)", okk, "" if okk else why_steps)
    assigns = [e for e in w.events if e.kind == "assign" and e.name == cname]
    nr = Lin.term(("param", "num_reserved"))
    batched = bool(outside) and not two_phase
    for line, label, kept in w.inv_report:
        if label.startswith("opt:"):
            continue
        # (with a working copy / a jump before the loop the entry state may be beyond what the prover can relate to the summary:
        # a candidate that could not be established is then unknown, and the return-range obligation below still has to hold)
        st_ = True if kept else (None if (alias_init is not None or outside) else False)
        ctx.ob("logstep", k, line, "loop invariant: %s" % label, "candidate invariant is inductive (Houdini)", st_,
               "" if kept else "invariant not preserved by the loop body: the summary used by callers does not hold")
    for g in group_by_node(assigns):
        res1, res2 = [], []
        for e in g:
            if not (isinstance(e.old, Num) and isinstance(e.value, Num)):
                res1.append((None, "assignment not understood"))
                continue
            d = e.value.lin - e.old.lin
            if d == Lin.const(0):
                # `counter, ptr = step(counter, ...)` on the path where the step leaves the counter alone: no change
                res1.append((True, "no change on this path", fact_strs(e)))
                continue
            if not d.is_const() and not e.loops:
                res1.append((None, "a batched step of %s before the per-unit loop: not a shape this rule follows" % show_lin(d), fact_strs(e)))
                continue
            res1.append((d == Lin.const(1), "each change is +1" if d == Lin.const(1) else "counter changes by %s" % show_lin(d), fact_strs(e)))
            drew = any(c.kind == "call" and c.name == "_rand" and c.loops == e.loops for c in on_path(w.events, e))
            if drew:
                p = w.P.prove_le0(nr - e.old.lin, e.facts)
                res2.append((bool(p), "probabilistic step only when counter >= num_reserved" if p else
                             "a random draw decides a step although counter < num_reserved is possible", fact_strs(e)))
            else:
                p = w.P.prove_le0(e.old.lin - nr + 1, e.facts)
                res2.append((bool(p), "unconditional step only when counter < num_reserved" if p else
                             "an unconditional step is possible at counter >= num_reserved", fact_strs(e)))
        if batched:
            # a batched step before the loop is not followed, so what the loop may assume about the counter is unknown: unproved != refuted
            res2 = [((None if r[0] is False else r[0]),) + tuple(r[1:]) for r in res2]
        agg(ctx, "logstep", k, g[0].node, src(k, g[0].node), "every change of the counter is +1", res1)
        agg(ctx, "logstep", k, g[0].node, src(k, g[0].node), "deterministic below num_reserved, probabilistic at or above it", res2)
    # the counter variable is changed only inside the loop, and every return hands back that variable
    ctx.ob("logstep", k, outside[0] if outside else k.node, "assignments to `%s` outside the step loop" % cname,
           "the counter changes only through the per-unit steps of the loop (or a jump shown above to equal that many deterministic steps)",
           True if (not outside or two_phase) else None,
           "" if (not outside or two_phase) else "`%s` changes the counter outside the per-unit loop: shape not understood" % unparse(outside[0], 60))
    c0 = Lin.term(("param", k.params[0]))
    vv = Lin.term(("param", "value"))
    nrl = Lin.term(("param", "num_reserved"))
    res_in, res_pre = [], []
    for r in [e for e in w.events if e.kind == "ret" and not e.implicit]:
        v = r.value
        first = v.items[0] if isinstance(v, Tup) and v.items else v
        if not isinstance(first, Num):
            res_in.append((None, "returned counter not understood"))
            continue
        before = not r.loops and not any(x.kind == "loopstart" for x in on_path(w.events, r))
        if not before:
            cur = r.env.get(cname)
            okk = isinstance(cur, Num) and first.lin == cur.lin
            rv = r.node.value.elts[0] if isinstance(getattr(r.node, "value", None), ast.Tuple) and r.node.value.elts else getattr(r.node, "value", None)
            under = rv
            while isinstance(under, ast.Call) and len(under.args) == 1 and not under.keywords:
                under = under.args[0]
            if not okk and under is not rv and isinstance(under, ast.Name) and under.id == cname:
                res_in.append((None, "returns `%s`: the maintained counter under a cast the walker could not show to be value-preserving" % unparse(rv, 40), fact_strs(r)))
                continue
            res_in.append((okk, "returns the step-wise maintained counter" if okk else
                           "returns %s, not the counter maintained by the per-unit steps" % show_lin(first.lin), fact_strs(r)))
        else:
            mv = r.env.get("uint_maxval")
            same = w.P.prove_eq0(first.lin - c0, r.facts)
            p_zero = same and w.P.prove_le0(vv, r.facts)
            p_sat = same and isinstance(mv, Num) and w.P.prove_le0(mv.lin - c0, r.facts)
            p_det = w.P.prove_eq0(first.lin - c0 - vv, r.facts) and w.P.prove_le0(c0 + vv - nrl, r.facts)
            okk = bool(p_zero or p_sat or p_det)
            res_pre.append((okk, "nothing to add / saturated / whole add inside the exact range" if okk else
                            "a shortcut returns %s before any per-unit step without establishing that this equals counter + value inside "
                            "the reserved range (or that nothing is to be added)" % show_lin(first.lin), fact_strs(r)))
    rl = [e for e in w.events if e.kind == "ret" and not e.implicit]
    agg(ctx, "logstep", k, rl[0].node if rl else k.node, "returns inside/after the step loop", "every such exit returns the counter the steps maintain", res_in)
    if res_pre:
        pre_nodes = [e for e in rl if not e.loops and not any(x.kind == "loopstart" for x in on_path(w.events, e))]
        agg(ctx, "logstep", k, pre_nodes[0].node, "return before the step loop", "a shortcut around the per-unit steps must be value-exact", res_pre)
    # unsigned differences computed by the step kernel (room left in the exact range, budget left after a jump) do not wrap
    for g in group_by_node([e for e in w.events if e.kind == "sub"]):
        res = []
        for e in g:
            p = prove_le0_cases(w.P, e.b.lin - e.a.lin, e)
            res.append((bool(p), str(p) if p else "cannot prove %s >= %s" % (show_lin(e.a.lin), show_lin(e.b.lin)), fact_strs(e)))
        agg(ctx, "logstep", k, g[0].node, src(k, g[0].node), "unsigned subtraction does not go below zero (a wrapped budget or room would run the counter away)", res)
    # returns satisfy the declared summary and fit the return type
    rets = [e for e in w.events if e.kind == "ret" and not e.implicit]
    res = []
    for r in rets:
        v = r.value
        if isinstance(v, Tup) and isinstance(v.items[0], Num):
            hi = k.rtype.items[0].range()[1]
            p = w.P.prove_le0(v.items[0].lin - hi, r.facts)
            res.append((bool(p), str(p) if p else "returned counter may exceed %d and wrap in the uint16 return" % hi, fact_strs(r)))
        else:
            res.append((None, "return shape not understood"))
    agg(ctx, "logstep", k, rets[0].node if rets else k.node, "return counter, rand_ptr", "returned counter fits the declared return type", res)


# ---------------------------------------------------------------------------
# msum / cover / other-ro / sumcounters
# ---------------------------------------------------------------------------

def merge_kernels(F, classes=SKETCH_CLASSES):
    out = []
    for cls in F.classes(classes):
        m = cls.methods.get("merge")
        if m is None:
            continue
        for k in F.calls_from(m):
            if k.callee.is_kernel and k.callee not in out:
                out.append(k.callee)
    return out


def no_early_exit(ctx, rule, k, w, tabs, what):
    """Nothing leaves a loop that updates one of `tabs` before its range is exhausted: no `break`, no `return` inside it."""
    nodes = {}
    for e in w.events:
        if e.kind in ("store", "slicestore") and e.arr.name in tabs:
            for lp in e.loops:
                nodes[id(lp.node)] = lp.node
    if not nodes:
        return
    bad = [e for e in w.events if (e.kind == "loopbreak" and id(e.loop.node) in nodes)
           or (e.kind == "ret" and any(id(lp.node) in nodes for lp in e.loops))]
    res = [(False, "`%s` leaves the loop before every %s was visited" % (unparse(e.node, 40) if e.kind == "ret" else "break", what), fact_strs(e)) for e in bad]
    first = next(iter(nodes.values()))
    agg(ctx, rule, k, bad[0].node if bad else first, "%s: update loop runs to completion" % k.name,
        "the loop over the %s is never left early (no break / return inside it)" % what, res or [(True, "no early exit", [])])


def rule_cover(ctx, kernels, rule="cover"):
    """The loop nest addresses the whole table; prange bodies write only their own row."""
    F = facts_of(ctx)
    for k in kernels:
        w = walk_kernel(F, k)
        pa = F.param_attr().get(k.key, {})
        tabs = {p for p, s in pa.items() if s & {"cms", "lhh", "lhh_count", "key_lens", "registers"}}
        no_early_exit(ctx, rule, k, w, tabs, "cells")
        stores = [e for e in w.events if e.kind in ("store", "slicestore") and e.arr.name in tabs]
        for g in group_by_node(stores):
            res = []
            for e in g:
                nd = e.arr.ndim
                dims = ["depth", "width"] if nd >= 2 else ["m"]
                okk = True
                why = ""
                idx_nums = [i for i in e.idx if isinstance(i, Num)]
                if len(e.loops) < len(dims) or len(idx_nums) < len(dims):
                    okk, why = False, "store is not inside a loop nest over %s" % "x".join(dims)
                else:
                    for j, dname in enumerate(dims):
                        lp = e.loops[j]
                        dp = F.param_for(k, dname)
                        if not (lp.kind in ("range", "prange") and lp.start == Lin.const(0) and lp.step == Lin.const(1)
                                and dp is not None and lp.stop == Lin.term(("param", dp))):
                            okk, why = False, "loop %d is not range(%s) from 0 step 1" % (j, dname)
                            break
                        if idx_nums[j].lin != Lin.term(lp.varterm):
                            okk, why = False, "index %d is not the loop variable of the %s loop" % (j, dname)
                            break
                    if okk and e.loops[0].kind == "prange" and idx_nums[0].lin != Lin.term(e.loops[0].varterm):
                        okk, why = False, "a prange body writes a row other than its own"
                res.append((okk, "whole-table loop nest, cell indexed by the loop variables" if okk else why, fact_strs(e)))
            agg(ctx, rule, k, g[0].node, src(k, g[0].node), "merge visits every cell once, each iteration writes only its own cell", res)


def rule_other_ro(ctx, kernels, rule="other-ro"):
    F = facts_of(ctx)
    for k in kernels:
        wr = F.effects.written_params(k)
        pa = F.param_attr().get(k.key, {})
        others = [p for p, s in pa.items() if any(a.startswith("other.") for a in s)]
        if not others:
            ctx.ob(rule, k, k.node, k.name, "merge kernel has second-operand parameters", None, "none bound from `other`")
            continue
        for p in others:
            okk = p not in wr
            ctx.ob(rule, k, k.node, "%s(%s)" % (k.name, p), "the second operand is never written", okk,
                   "" if okk else "%s stores into `%s` (directly or through a callee)" % (k.name, p))


def rule_sumcounters(ctx, kernels, rule="sumcounters"):
    """n_added_records[i] += other_n_added_records[i] for i = 0 and 1, outside any loop."""
    F = facts_of(ctx)
    for k in kernels:
        na = F.param_for(k, "n_added_records")
        ona = None
        for p, s in F.param_attr().get(k.key, {}).items():
            if "other.n_added_records" in s:
                ona = p
        if na is None and ona is None:
            # the kernel does not handle the bookkeeping counters: then every method that runs it adds the other sketch's counters to
            # its own, once, on every path that reaches the kernel (`self.n_added_records += other.n_added_records`, in place)
            sites = [c for c in F.calls_to(k) if c.caller.cls is not None]
            if not sites:
                ctx.ob(rule, k, k.node, k.name, "merge kernel receives both bookkeeping arrays", None)
                continue
            for site in {id(c.caller): c for c in sites}.values():
                meth = site.caller
                wm = F.walk(meth)
                oparam = next((p_ for p_ in meth.params if p_ != "self"), "other")
                res = []
                for kc in [e for e in wm.events if e.kind == "call" and e.callee is k]:
                    rets = [r for r in wm.events if r.kind == "ret" and kc in on_path(wm.events, r)]
                    for r in rets:
                        adds = [x for x in on_path(wm.events, r) if x.kind == "attrstore" and x.target == "self.n_added_records"]
                        okk = len(adds) == 1 and not adds[0].loops and isinstance(adds[0].node, ast.AugAssign) and isinstance(adds[0].node.op, ast.Add) \
                            and unparse(adds[0].node.value) == "%s.n_added_records" % oparam
                        res.append((okk, "both bookkeeping counters summed once by the method" if okk else
                                    "on a path through the merge the method does not add %s.n_added_records to its own exactly once" % oparam, fact_strs(r)))
                agg(ctx, rule, meth, meth.node, "%s: self.n_added_records += %s.n_added_records" % (meth.qualname, oparam),
                    "the bookkeeping counters of the result are the sums of the operands'", res or [(False, "no path reaches the merge kernel", [])])
            continue
        if na is None or ona is None:
            ctx.ob(rule, k, k.node, k.name, "merge kernel receives both bookkeeping arrays", None)
            continue
        w = walk_kernel(F, k)
        for i in (0, 1):
            st = [e for e in w.events if e.kind == "store" and e.arr.name == na and len(e.idx) == 1 and e.idx[0].lin == Lin.const(i)]
            rets = [e for e in w.events if e.kind == "ret"]
            res = []
            for r in rets:
                pre = [x for x in on_path(w.events, r) if x in st]
                okk = len(pre) == 1 and not pre[0].loops and isinstance(pre[0].value, Num) and pre[0].old is not None
                if okk:
                    e = pre[0]
                    d = e.value.lin - Lin.term(e.old)
                    t = d.single_term()
                    okk = t is not None and t[0] == "cell" and t[1] == ona and t[3] == (Lin.const(i).key(),)
                res.append((bool(okk), "sum of both operands' counter %d" % i if okk else
                            "n_added_records[%d] is not increased exactly once by other_n_added_records[%d]" % (i, i), fact_strs(r)))
            agg(ctx, rule, k, st[0].node if st else k.node,
                src(k, st[0].node) if st else "%s[%d] += %s[%d]" % (na, i, ona, i),
                "bookkeeping counter %d of the result is the sum of the operands'" % i, res)


def rule_msum(ctx):
    """_merge_linear: every cell becomes min(a + b, ceiling)."""
    F = facts_of(ctx)
    cls = ctx.model.cls("countmin", "CountMinLinear")
    ks = [k.callee for k in F.calls_from(cls.methods["merge"]) if k.callee.is_kernel] if "merge" in cls.methods else []
    if not ks:
        raise AnalysisError("CountMinLinear.merge calls no kernel")
    for k in ks:
        w = walk_kernel(F, k)
        table = F.param_for(k, "cms")
        other = None
        for p, s in F.param_attr().get(k.key, {}).items():
            if "other.cms" in s:
                other = p
        if table is None or other is None:
            ctx.ob("msum", k, k.node, k.name, "merge kernel receives both tables", None)
            continue
        ceiling = k.ptypes[table].scalar.range()[1]
        stores = [e for e in w.events if e.kind == "store" and e.arr.name == table]
        res = []
        for e in stores:
            v = e.value
            if not isinstance(v, Num) or e.old is None or len(e.idx) != 2:
                res.append((None, "store not understood"))
                continue
            oc = ("cell", other, e.memver.get(other, 0), tuple(i.lin.key() for i in e.idx))
            if oc not in w.P.ranges:
                w.P.ranges[oc] = k.ptypes[other].scalar.range()
            box = FactBox(e.facts)
            g = w.minmax("min", Lin.term(e.old) + Lin.term(oc), Lin.const(ceiling), box)
            p1 = w.P.prove_le0(v.lin - g, box.facts)
            p2 = w.P.prove_le0(g - v.lin, box.facts)
            res.append((bool(p1 and p2), "cell == min(a + b, %d)" % ceiling if p1 and p2 else
                        "cannot prove stored value %s == min(%s + %s, %d)" % (show_lin(v.lin), show_lin(Lin.term(e.old)), show_lin(Lin.term(oc)), ceiling),
                        fact_strs(e)))
        # group per site but also require the union of guards to be exhaustive: path forking guarantees that every
        # path through the loop body ends in a loopend; each must have stored exactly once
        for g in group_by_node(stores):
            agg(ctx, "msum", k, g[0].node, src(k, g[0].node), "merged cell equals min(a + b, ceiling)",
                [r for e, r in zip(stores, res) if e in g])
        lends = [e for e in w.events if e.kind == "loopend" and len(e.loops) == 2]
        r2 = []
        for le in lends:
            cnt = [x for x in on_path(w.events, le) if x in stores and x.loops == le.loops]
            if not cnt:
                # a cell left alone because the other sketch's cell was read and found to be 0: min(a + 0, ceiling) == a
                rd = [x for x in on_path(w.events, le) if x.kind == "read" and x.arr.name == other and x.loops == le.loops and len(x.idx) == 2]
                if any(w.P.prove_eq0(Lin.term(x.term), le.facts) for x in rd):
                    r2.append((True, "no store needed: the other cell is 0 on this path", fact_strs(le)))
                    continue
            r2.append((len(cnt) == 1, "one store per cell" if len(cnt) == 1 else "%d stores on a path through the cell update" % len(cnt), fact_strs(le)))
        agg(ctx, "msum", k, k.node, "cell update of %s" % k.name, "every path through the loop body stores the cell exactly once", r2)


# ---------------------------------------------------------------------------
# no-skip: an add kernel leaves early only when there is provably nothing to do
# ---------------------------------------------------------------------------

def rule_no_skip(ctx, kernels, rule="no-skip"):
    F = facts_of(ctx)
    qk = {q.name for q in query_kernels(F)}
    for k in kernels:
        w = walk_kernel(F, k)
        tabs = set(table_params(F, k, {"cms", "lhh_count"}))
        rets = [e for e in w.events if e.kind == "ret"]
        early = [r for r in rets if not _exit_follows_store_loop(w, r, tabs)]
        late = [r for r in rets if _exit_follows_store_loop(w, r, tabs)]
        ctx.ob(rule, k, k.node, "%s: %d normal exit(s) after the update loop" % (k.name, len(late)),
               "the kernel has a path that performs the table update", bool(late))
        value = Lin.term(("param", "value")) if "value" in k.params else None
        res = []
        for r in early:
            pre = on_path(w.events, r)
            q = [c for c in pre if c.kind == "call" and c.name in qk and isinstance(c.result, Num)]
            lc = [c for c in pre if c.kind == "call" and c.name == "_log_counter" and isinstance(c.result, Tup)]
            why = None
            if value is not None and w.P.prove_le0(value, r.facts):
                why = "multiplicity is 0"
            elif lc and q:
                r0 = lc[-1].result.items[0]
                if isinstance(r0, Num) and w.P.prove_eq0(r0.lin - q[-1].result.lin, r.facts):
                    why = "the log counter did not advance (new_count == min_count)"
                else:
                    # through an in-range cast of the result
                    for c in pre:
                        if c.kind == "cast" and isinstance(c.arg, Num) and isinstance(r0, Num) and c.arg.lin == r0.lin and isinstance(c.result, Num):
                            if w.P.prove_eq0(c.result.lin - q[-1].result.lin, r.facts):
                                why = "the log counter did not advance (new_count == min_count)"
            elif q and tabs:
                t = next(iter(tabs))
                ceiling = k.ptypes[t].scalar.range()[1]
                if w.P.prove_le0(Lin.const(ceiling) - q[-1].result.lin, r.facts):
                    why = "the key's minimum is already at the ceiling"
            res.append((why is not None, why or "the kernel can return without updating the table although the key's estimate should change "
                                                "(no fact shows the multiplicity is 0, the counter saturated, or the log step was a no-op)", fact_strs(r)))
        if early:
            agg(ctx, rule, k, early[0].node, "%s: early return" % k.name,
                "an add is cut short only when nothing has to change (saturated key / no-op log step / zero multiplicity)", res)


# ---------------------------------------------------------------------------
# findbase-post: the log base is accepted only if it satisfies its defining equation
# ---------------------------------------------------------------------------

def cond_facts(c):
    """Linear facts (each `lin <= 0`) entailed by a walker condition; [] when it has none; None when it is `false`."""
    k = c[0]
    if k == "false":
        return None
    if k in ("le", "flt"):
        return [c[1]]
    if k == "eq":
        return [c[1], -c[1]]
    if k == "and":
        out = []
        for x in c[1]:
            f = cond_facts(x)
            if f is None:
                return None
            out.extend(f)
        return out
    return []


def prove_le0_cases(P, goal, ev, extra=()):
    """goal <= 0 from the event's facts; failing that, by cases over one disjunction the path carries (`if a and b:` not taken
    leaves `not a or not b`): the goal must follow under every disjunct (a disjunct that contradicts the facts counts as proved)."""
    base = list(ev.facts) + list(extra)
    p = P.prove_le0(goal, base)
    if p:
        return p
    for o in getattr(ev, "ors", ()):
        if len(o[1]) > 4:
            continue
        okk = True
        for x in o[1]:
            f = cond_facts(x)
            if f is None:
                continue
            if not P.prove_le0(goal, base + f):
                # infeasible disjunct: some fact of it is refuted by the base
                if not any(P.prove_le0(-g + 1, base) for g in f):
                    okk = False
                    break
        if okk:
            return True
    return False


def _reaching_subst(fn_node, stmt, expr):
    """`expr` (read by `stmt`) with every name that is assigned more than once in the function replaced by the value of the assignment
    that reaches `stmt` in its own statement list: the nearest earlier sibling `name = v`, with no statement in between (at any depth)
    storing the name or any name `v` reads.  Names without such a definition are left alone."""
    import copy as _copy
    block = None
    for parent in ast.walk(fn_node):
        for fld in ("body", "orelse", "finalbody"):
            b = getattr(parent, fld, None)
            if isinstance(b, list) and any(x is stmt for x in b):
                block = b
    if block is None:
        return expr
    idx = next(i for i, x in enumerate(block) if x is stmt)
    counts = {}
    for x in ast.walk(fn_node):
        if isinstance(x, ast.Name) and isinstance(x.ctx, (ast.Store, ast.Del)):
            counts[x.id] = counts.get(x.id, 0) + 1
    mapping = {}
    for nm in {x.id for x in ast.walk(expr) if isinstance(x, ast.Name) and counts.get(x.id, 0) > 1}:
        for j in range(idx - 1, -1, -1):
            sj = block[j]
            if isinstance(sj, ast.Assign) and len(sj.targets) == 1 and isinstance(sj.targets[0], ast.Name) and sj.targets[0].id == nm:
                reads = {y.id for y in ast.walk(sj.value) if isinstance(y, ast.Name)}
                between = block[j + 1:idx]
                if not any(isinstance(y, ast.Name) and isinstance(y.ctx, (ast.Store, ast.Del)) and (y.id in reads or y.id == nm) for b_ in between for y in ast.walk(b_)):
                    mapping[nm] = sj.value
                break
            if any(isinstance(y, ast.Name) and isinstance(y.ctx, (ast.Store, ast.Del)) and y.id == nm for y in ast.walk(sj)):
                break
    if not mapping:
        return expr

    class _S(ast.NodeTransformer):
        def visit_Name(self, x):
            if isinstance(x.ctx, ast.Load) and x.id in mapping:
                return _copy.deepcopy(mapping[x.id])
            return x
    return _S().visit(_copy.deepcopy(expr))


def rule_findbase_post(ctx):
    """`_find_base` (called by the log constructors with (max_count, num_reserved, ceiling)) returns a base only after checking
    the residual of  (base**K - 1)/(base - 1) == max_count - num_reserved  and raising ValueError otherwise: then every
    accepted configuration decodes its ceiling to max_count by construction (up to the checked tolerance)."""
    F = facts_of(ctx)
    fb = None
    for cls in F.classes(COUNTMIN[1:]):
        for d in F.attr_defs(cls):
            if d.attr == "base" and isinstance(d.value, ast.Call) and isinstance(d.value.func, ast.Name):
                fb = ctx.model.lookup_func(cls.module, d.value.func.id) or fb
    if fb is None:
        # the solver itself is found by its shape (the function whose result is checked against the residual of the defining equation);
        # a constructor that takes self.base from somewhere else (a cache, a table) does not solve for its own parameters
        for cand in ctx.model.module("countmin").funcs.values():
            if cand.is_kernel and len(cand.params) == 3 and any(isinstance(n, ast.Raise) for n in walk_no_nested(cand.node)) \
                    and cand.rtype is not None and cand.rtype.kind == "float":
                fb = cand
        for cls in F.classes(COUNTMIN[1:]):
            ds = [d for d in F.attr_defs(cls) if d.attr == "base"]
            ctx.ob("findbase-post", F.ctor(cls), ds[0].stmt if ds else F.ctor(cls).node, "%s: self.base = %s" % (cls.name, unparse(ds[0].value, 60) if ds else "?"),
                   "the base is solved for this sketch's own (max_count, num_reserved, ceiling)", False,
                   "self.base is not the result of the base solver applied to this sketch's own parameters (a value looked up elsewhere may "
                   "belong to another counter width or configuration)")
        if fb is None:
            raise AnalysisError("log constructors do not obtain self.base from a package function")
        return
    ctx.analysed_funcs.add(fb.key)
    from .rules_hll import nf, parse_nf
    # residual function: the helper whose return has the normal form of  base**K - M*base + (M - 1)
    from .model import expand_expr
    resid_funcs = set()
    for c in F.calls_from(fb):
        r = [n for n in walk_no_nested(c.callee.node) if isinstance(n, ast.Return)]
        if len(r) == 1 and len(c.callee.params) == 4:
            b_, mc_, nr_, um_ = c.callee.params
            # temporaries and one-line helpers resolved: the return is  base**(K) - M*base + (M - 1)  with M = max_count - num_reserved
            t = nf(expand_expr(ctx.model, c.callee, r[0].value))
            M = "(%s - %s)" % (mc_, nr_)
            if t == parse_nf("%s ** (%s - %s) - %s * %s + (%s - 1.0)" % (b_, um_, nr_, M, b_, M)):
                resid_funcs.add(c.callee.name)
    rets = [n for n in walk_no_nested(fb.node) if isinstance(n, ast.Return)]
    guards = []
    for n in [x for x in walk_no_nested(fb.node) if isinstance(x, ast.If)]:
        if any(isinstance(s, ast.Raise) for s in n.body):
            exc = [s for s in n.body if isinstance(s, ast.Raise)][0].exc
            en = dotted(exc.func) if isinstance(exc, ast.Call) else dotted(exc)
            t = resolve_temps(fb.node, _reaching_subst(fb.node, n, n.test), allow_subscript=True, pure_only=False, in_loops=False, loose=True)
            # abs(<residual>) > tol   (either orientation)
            if isinstance(t, ast.Compare) and len(t.ops) == 1 and isinstance(t.ops[0], (ast.Gt, ast.GtE, ast.Lt, ast.LtE)):
                sides = [t.left, t.comparators[0]]
                big = sides[0] if isinstance(t.ops[0], (ast.Gt, ast.GtE)) else sides[1]
                if isinstance(big, ast.Call) and dotted(big.func) in ("abs", "np.abs", "np.fabs", "math.fabs") and big.args:
                    inner = big.args[0]
                    retname = rets[-1].value.id if rets and isinstance(rets[-1].value, ast.Name) else None
                    is_resid = isinstance(inner, ast.Call) and dotted(inner.func) in resid_funcs and len(inner.args) == 4 \
                        and retname is not None and [unparse(a) for a in inner.args] == [retname] + fb.params
                    if is_resid and en == "ValueError":
                        guards.append(n)
    last_ret = rets[-1] if rets else None
    okk = bool(guards) and last_ret is not None and all(comes_before(fb.node, g, last_ret) for g in guards) and len(rets) == 1
    ctx.ob("findbase-post", fb, guards[0] if guards else (last_ret or fb.node), "%s: residual check before `return base`" % fb.name,
           "a base is returned only if |f(base)| is within tolerance of the defining equation, otherwise ValueError: an accepted log "
           "configuration decodes its ceiling to max_count", okk,
           "" if okk else "the base found by the fixed number of Newton steps is returned unchecked: for num_reserved near the counter maximum "
                          "the iteration does not converge and the ceiling decodes to a value far from max_count without any error")
    # unsigned subtractions inside the solver (and the helpers it calls) do not wrap: each `x - y` computed in integers is mapped to
    # the constructor's call arguments and proved non-negative from what the constructor has validated at that point.  (A difference
    # taken after converting both operands to float, as in float64(max_count) - float64(num_reserved), cannot wrap and is no event.)
    fam = [(fb, {p: Lin.term(("param", p)) for p in fb.params})]
    wfb = walk_kernel(F, fb) if fb.is_kernel else F.walk(fb)
    for c in [e for e in wfb.events if e.kind == "call" and e.callee is not None and e.callee.is_kernel]:
        m = {}
        for pn, a in zip(c.callee.params, c.args):
            if isinstance(a, Num) and all(t[0] == "param" for t in a.lin.terms()):
                m[pn] = a.lin
        if not any(c.callee.key == f.key for f, _ in fam):
            fam.append((c.callee, m))
    sub_sites = []
    for f, pmap in fam:
        wf = wfb if f is fb else (walk_kernel(F, f) if f.is_kernel else F.walk(f))
        for g in group_by_node([e for e in wf.events if e.kind == "sub"]):
            e = g[0]
            ok_terms = all(t[0] == "param" and t[1] in pmap for t in list(e.a.lin.terms()) + list(e.b.lin.terms()))
            if not ok_terms:
                # operands that are not plain parameters: decided inside the function itself
                pr = all(wf.P.prove_le0(x.b.lin - x.a.lin, x.facts) for x in g)
                ctx.ob("findbase-post", f, e.node, src(f, e.node, 60), "unsigned subtraction in the base solver does not go below zero", True if pr else None,
                       "" if pr else "operands are not parameters of %s; not decided" % f.name)
                continue
            d = e.b.lin - e.a.lin
            for pn, repl in pmap.items():
                d = d.subst(("param", pn), repl)
            sub_sites.append((f, e, d))
    for cls in F.classes(COUNTMIN[1:]):
        ctor_ = F.ctor(cls)
        wc = F.walk(ctor_)
        for c in [e for e in wc.events if e.kind == "call" and e.name == fb.name]:
            amap = {pn: a.lin for pn, a in zip(fb.params, c.args) if isinstance(a, Num)}
            for f, e, d in sub_sites:
                goal = d
                for pn, repl in amap.items():
                    goal = goal.subst(("param", pn), repl) if ("param", pn) in goal.terms() and repl != Lin.term(("param", pn)) else goal
                pr = wc.P.prove_le0(goal, c.facts)
                ctx.ob("findbase-post", f, e.node, "%s in %s, called from %s" % (src(f, e.node, 50), f.name, cls.name),
                       "unsigned subtraction in the base solver does not go below zero for any configuration the constructor lets through", bool(pr),
                       "" if pr else "%s computes `%s` in unsigned integers, and %s.__init__ has not established %s >= 0 when it calls %s: for such a configuration "
                                     "the difference wraps to about 2**64 and a base with a far larger ceiling is accepted" % (
                                         f.name, src(f, e.node, 50), cls.name, show_lin(-goal), fb.name), fact_strs(c))
    # the constructors pass (max_count, num_reserved, ceiling) and keep the result
    for cls in F.classes(COUNTMIN[1:]):
        for d in F.attr_defs(cls):
            if d.attr == "base":
                # each argument is the attribute itself or the very expression the attribute was just built from
                adefs = {}
                for d2 in F.attr_defs(cls):
                    adefs.setdefault(d2.attr, set()).add(unparse(d2.value, 400))
                ctor_ = F.ctor(cls)

                def same(arg, attr):
                    if unparse(arg) == "self." + attr:
                        return True
                    r = resolve_temps(ctor_.node, arg, allow_subscript=True, pure_only=False, in_loops=False, loose=True)
                    return unparse(r, 400) in adefs.get(attr, set())
                okk = isinstance(d.value, ast.Call) and len(d.value.args) == 3 and all(
                    same(a, at) for a, at in zip(d.value.args, ("max_count", "num_reserved", "uint_maxval")))
                ctx.ob("findbase-post", F.ctor(cls), d.stmt, "%s: self.base = %s" % (cls.name, unparse(d.value, 70)),
                       "the base is solved for this sketch's own (max_count, num_reserved, ceiling)", okk)
