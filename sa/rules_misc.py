"""seedrow (C14); randtoken, batchconst, expo (C06); logmerge-shape (C09);
pure, blocksize, blockloop, bytes-once, uwidth (C11)."""
from __future__ import annotations

import ast

from .facts import COUNTMIN, const_int, facts_of
from .flow import Arr, ArrSlice, Bytes, Num, Opaque, Tup, cast_target, conjuncts, show_cond
from .lin import Lin, show_lin
from .model import resolve_temps, AnalysisError, Ty, call_name, dotted, self_attr, unparse, walk_no_nested
from .rules_arith import (uncast_value, SUMMARIES, agg, fact_strs, group_by_node, hash_site, on_path, query_kernels, seed_is_row, src,
                          table_params, walk_kernel)

# ---------------------------------------------------------------------------
# C14 seedrow
# ---------------------------------------------------------------------------


def rule_seedrow(ctx):
    F = facts_of(ctx)
    from .rules_hh import hh_kernels, hh_walk, _maxcount_pre
    sites = []
    for k in query_kernels(F):
        sites.append((k, walk_kernel(F, k)))
    hk = hh_kernels(F)
    sites.append((hk["add"], hh_walk(ctx, hk["add"])))
    sites.append((hk["max"], hh_walk(ctx, hk["max"], _maxcount_pre(F, hk["max"]), tag="pre")))
    n = 0
    for k, w in sites:
        width_p, depth_p = F.param_for(k, "width"), F.param_for(k, "depth")
        pa = F.param_attr().get(k.key, {})
        tabs = {p for p, s in pa.items() if s & {"cms", "lhh", "lhh_count", "key_lens"}}
        hcalls = [e for e in w.events if e.kind == "call" and e.name == "fasthash64"]
        if not hcalls:
            # hashing delegated to a helper: every return path of the helper must be this row's hash
            from .rules_arith import helper_hash_summary
            helpers = [(e, helper_hash_summary(F, e.callee)) for e in w.events if e.kind == "call" and e.callee is not None
                       and e.callee.is_kernel and e.loops]
            prov = [(e, sm) for e, sm in helpers if sm is not None]
            if not prov:
                ctx.ob("seedrow", k, k.node, k.name, "cell-addressing kernel hashes the key", None if helpers else False,
                       "no fasthash64 call and no helper recognised as the column provider")
                continue
            for e, sm in prov:
                n += 1
                okk = sm[0] == "ok"
                ctx.ob("seedrow", k, e.node, "%s via %s" % (src(k, e.node, 60), e.callee.name), "each row hashes with its own seed and the column is hash % width",
                       okk, "" if okk else sm[1])
        for g in group_by_node(hcalls):
            n += 1
            res = []
            for c in g:
                lp = c.loops[-1] if c.loops else None
                ok1 = lp is not None and lp.kind == "range" and depth_p and lp.stop == Lin.term(("param", depth_p)) and lp.start == Lin.const(0)
                ok2 = ok1 and len(c.args) == 2 and isinstance(c.args[1], Num) and seed_is_row(c.args[1].lin, lp)
                # the value used as a column is result % width
                modt = ("op", "Mod", c.result.lin.key(), Lin.term(("param", width_p)).key()) if isinstance(c.result, Num) and width_p else None
                ok3 = modt is not None and modt in w.P.ranges
                why = ("hash is not computed once per row inside `for row in range(depth)`" if not ok1 else
                       "the seed %s does not vary injectively with the row: every row would use the same hash function" % show_lin(c.args[1].lin)
                       if not ok2 else "hash is not reduced modulo the table's column count (width)")
                res.append((bool(ok1 and ok2 and ok3), "seed is an injective function of the row; reduced % width" if ok1 and ok2 and ok3 else why, fact_strs(c)))
            agg(ctx, "seedrow", k, g[0].node, src(k, g[0].node), "each row hashes with its own seed and the column is hash % width", res)
        # every table access in the loop uses [row, that column]
        acc = [e for e in w.events if e.kind in ("read", "store", "slicestore") and e.arr.name in tabs and e.loops]
        res = []
        for e in acc:
            lp = e.loops[-1]
            nums = [i for i in e.idx if isinstance(i, Num)]
            evs = [x for x in on_path(w.events, e) if x.loops == e.loops]
            okk = len(nums) >= 2 and lp.varterm is not None and nums[0].lin == Lin.term(lp.varterm)
            if okk:
                from .rules_arith import helper_column
                col = nums[1]
                t = col.lin.single_term()
                if t is not None and t[0] == "cell":
                    st = [s for s in evs if s.kind == "store" and s.arr.name == t[1] and len(s.idx) == 1 and s.idx[0].lin == Lin.term(lp.varterm)]
                    okk = bool(st) and (hash_site(w, evs, st[-1].value, e) is not None or helper_column(F, w, evs, st[-1].value, lp, k) is True)
                    if not st:
                        # the bucket array filled by an earlier pass over the same rows (rules_arith.two_pass_fill)
                        from .rules_arith import two_pass_fill
                        tp_ = two_pass_fill(w, t, lp, evs)
                        if tp_ is not None:
                            flp, fst, fevs = tp_
                            okk = hash_site(w, fevs, fst.value, fst) is not None or helper_column(F, w, fevs, fst.value, flp, k) is True
                else:
                    okk = hash_site(w, evs, col, e) is not None or helper_column(F, w, evs, col, lp, k) is True
            res.append((bool(okk), "table cell is [row, this row's hash column]" if okk else "table access is not [row, hash(key,row) % width]", fact_strs(e)))
        if acc:
            agg(ctx, "seedrow", k, acc[0].node, "%s: table accesses" % k.name, "cells are addressed [row, fasthash64(key, seed(row)) % width]", res)
    return n


# ---------------------------------------------------------------------------
# C06 randtoken
# ---------------------------------------------------------------------------

def token_functions(F):
    """kernel -> (token param, return position | None) for kernels threading the random-draw pointer."""
    out = {}
    names = {F.param_for(k, "rand_ptr") for k in F.model.kernels("countmin")} - {None}
    for k in F.model.kernels("countmin"):
        tp = F.param_for(k, "rand_ptr")
        if tp is None and F.param_for(k, "rand_nums") is not None:
            # fed the batch but (on this tree) not the pointer by name: fall back to the pointer's parameter name
            tp = next((p for p in k.params if p in names), None)
        if tp is None:
            continue
        pos = None
        if k.rtype is not None and k.rtype.kind == "tuple":
            # the position whose declared type equals the token's type and whose returned name is the token
            for r in [n for n in walk_no_nested(k.node) if isinstance(n, ast.Return)]:
                if isinstance(r.value, ast.Tuple):
                    for i, e in enumerate(r.value.elts):
                        if isinstance(e, ast.Name) and e.id == tp:
                            pos = i
            if pos is None:
                # not returned under its own name: the one position whose declared type is the token's type
                tty = k.ptypes.get(tp)
                cand = [i for i, t in enumerate(k.rtype.items) if tty is not None and t == tty]
                pos = cand[0] if len(cand) == 1 else -1
        out[k.key] = (k, tp, pos)
    return out


def _carried_var(w, lp, inner_calls, toks):
    """Name of the variable whose value at the head of loop `lp` is the pointer the first token call of the body receives."""
    c = inner_calls[0]
    k, tp, pos = toks[c.callee.key]
    a = dict(zip(k.params, c.args)).get(tp)
    if not isinstance(a, Num):
        return None
    for name, v in lp.head_env.items():
        if isinstance(name, str) and isinstance(v, Num) and v.lin == a.lin:
            return name
    return None


def rule_randtoken(ctx):
    F = facts_of(ctx)
    toks = token_functions(F)
    if not toks:
        raise AnalysisError("no kernel threads self.rand_ptr")

    def produced(callev):
        k, tp, pos = toks[callev.callee.key]
        r = callev.result
        if pos is None:
            return r if isinstance(r, Num) else None
        if isinstance(r, Tup) and 0 <= pos < len(r.items) and isinstance(r.items[pos], Num):
            return r.items[pos]
        return None

    def check(func, w, tokname, entry_lin, get_env_tok, is_method):
        """Token discipline over every segment of `func`."""
        ends = [e for e in w.events if e.kind in ("ret", "loopend")]
        results = {}
        for end in ends:
            carried = None          # the local that carries the pointer through this loop, when it is not the token's own name
            if end.loops:
                lp = end.loops[-1]
                hv = get_env_tok(lp.head_env) if not is_method else lp.head_env.get("@" + tokname)
                if is_method and hv is None:
                    hv = Num(entry_lin)
                if not is_method:
                    inner0 = [x for x in w.events if x.kind == "call" and x.callee is not None and x.callee.key in toks and lp in x.loops
                              and not getattr(x, "inlined", False)]
                    alt = _carried_var(w, lp, inner0, toks) if inner0 else None
                    if alt is not None and alt != tokname and isinstance(lp.head_env.get(alt), Num):
                        carried, hv = alt, lp.head_env[alt]
                cur = hv.lin if isinstance(hv, Num) else None
            else:
                cur = entry_lin
            if cur is None:
                results.setdefault(id(end.node), []).append((end, None, "token at segment start not understood"))
                continue
            bad = None
            ncalls = 0
            for ev in on_path(w.events, end):
                if ev.loops != end.loops:
                    continue
                if ev.kind == "call" and ev.callee is not None and ev.callee.key in toks and not getattr(ev, "inlined", False):
                    # (a helper walked inline is judged by the token calls inside it, which are on this path too)
                    k, tp, pos = toks[ev.callee.key]
                    am = dict(zip(k.params, ev.args))
                    a = am.get(tp)
                    ncalls += 1
                    if not isinstance(a, Num) or a.lin != cur:
                        bad = (ev, "%s receives a stale or foreign draw pointer (%s, current is %s): draws are re-used"
                               % (k.name, show_lin(a.lin) if isinstance(a, Num) else a, show_lin(cur)))
                        break
                    p = produced(ev)
                    if p is None:
                        bad = (ev, "result of %s not understood" % k.name)
                        break
                    cur = p.lin
                elif ev.kind == "loopstart":
                    lp2 = ev.loop
                    inner = [x for x in w.events if x.kind == "call" and x.callee is not None and x.callee.key in toks and lp2 in x.loops
                             and not getattr(x, "inlined", False)]
                    if not inner:
                        # the loop does not touch the pointer: it is the same after the loop.  (Where the pointer is assigned only by
                        # statements the walker found unreachable on this path, the loop head still carries a forgotten copy of it:
                        # that copy IS the unchanged pointer -- provided no feasible assignment to it exists in the loop.)
                        if not is_method and tokname in getattr(lp2, "assigned", ()) and not any(
                                x.kind == "assign" and x.name == tokname and lp2 in x.loops for x in w.events):
                            hv0 = get_env_tok(lp2.head_env)
                            tv0 = get_env_tok(ev.envsnap)
                            if isinstance(hv0, Num) and isinstance(tv0, Num) and tv0.lin == cur:
                                cur = hv0.lin
                        continue
                    tv = get_env_tok(ev.envsnap)
                    if not isinstance(tv, Num) or tv.lin != cur:
                        # the loop may carry the pointer in another variable: the one whose loop-head value the first call receives
                        alt = _carried_var(w, lp2, inner, toks)
                        tv2 = ev.envsnap.get(alt) if alt else None
                        if not (isinstance(tv2, Num) and tv2.lin == cur):
                            bad = (ev, "the pointer held when entering the loop is not the latest one returned: the result of a call was dropped")
                            break
                    hv = get_env_tok(lp2.head_env) if not is_method else lp2.head_env.get("@" + tokname)
                    alt2 = _carried_var(w, lp2, inner, toks) if not is_method else None
                    if alt2 is not None and alt2 != tokname and isinstance(lp2.head_env.get(alt2), Num):
                        hv = lp2.head_env[alt2]          # the loop carries the pointer in that local: after the loop it holds the latest one
                    if isinstance(hv, Num):
                        cur = hv.lin
            if bad is None:
                tv = get_env_tok(end.env) if carried is None else end.env.get(carried)
                if end.kind == "ret" and not is_method:
                    tv = Num(cur)         # a kernel hands the pointer on through its return value (checked next), whatever the local is called
                if not isinstance(tv, Num) or tv.lin != cur:
                    bad = (end, "at the end of this path `%s` does not hold the latest pointer returned by the callee: the call's result was "
                                "not rebound%s" % (tokname, " inside the loop" if end.loops else ""))
                elif end.kind == "ret" and not is_method:
                    k, tp, pos = toks[func.key]
                    v = end.value
                    rv = v if pos is None else (v.items[pos] if isinstance(v, Tup) and 0 <= pos < len(v.items) else None)
                    if not isinstance(rv, Num) or rv.lin != cur:
                        bad = (end, "the function does not return the latest draw pointer")
            results.setdefault(id(end.node), []).append((end, bad is None, bad[1] if bad else "pointer threaded linearly"))
        return results

    n = 0
    for key, (k, tp, pos) in sorted(toks.items()):
        if not any(c.callee.key in toks for c in F.calls_from(k)):
            continue        # the draw function itself produces the pointer: rule batchconst
        w = walk_kernel(F, k)
        def env_tok(env, tp=tp):
            while tp not in env and "^caller" in env:      # inside an inlined helper that does not handle the token
                env = env["^caller"]
            return env.get(tp)
        res = check(k, w, tp, Lin.term(("param", tp)), env_tok, False)
        for nid, rs in res.items():
            n += 1
            agg(ctx, "randtoken", k, rs[0][0].node, "%s: %s" % (k.name, src(k, rs[0][0].node, 60) if rs[0][0].kind == "ret" else "loop body"),
                "the draw pointer is a linear token: passed on current, rebound from every result, returned latest",
                [(okk, why, fact_strs(e)) for e, okk, why in rs])
    # methods
    for cls in F.classes(COUNTMIN):
        for mname, meth in cls.methods.items():
            calls = [c for c in F.calls_from(meth) if c.callee.key in toks]
            if not calls:
                continue
            w = F.walk(meth)
            res = check(meth, w, "self.rand_ptr", Lin.term(("attr", "self", "rand_ptr")),
                        lambda env: env.get("@self.rand_ptr", Num(Lin.term(("attr", "self", "rand_ptr")))), True)
            for nid, rs in res.items():
                n += 1
                agg(ctx, "randtoken", meth, rs[0][0].node, "%s: self.rand_ptr = %s(...)" % (meth.qualname, calls[0].callee.name),
                    "the method passes self.rand_ptr and stores the returned pointer back",
                    [(okk, why, fact_strs(e)) for e, okk, why in rs])
    return n


# ---------------------------------------------------------------------------
# C06 batchconst
# ---------------------------------------------------------------------------

def rule_batchconst(ctx):
    F = facts_of(ctx)
    toks = token_functions(F)
    # the draw function: token function that has no token callee and indexes the batch
    draw = None
    for key, (k, tp, pos) in toks.items():
        if not any(c.callee.key in toks for c in F.calls_from(k)):
            draw = (k, tp, pos)
    if draw is None:
        raise AnalysisError("draw function (_rand) not identified")
    k, tp, pos = draw
    w = walk_kernel(F, k)
    batch = F.param_for(k, "rand_nums")
    rets = [e for e in w.events if e.kind == "ret" and not e.implicit]
    entry = Lin.term(("param", tp))
    N = None
    consts = {}
    for r in rets:
        v = r.value
        if not (isinstance(v, Tup) and len(v.items) == 2):
            ctx.ob("batchconst", k, r.node, "return", "returns (draw, pointer)", None)
            continue
        val, ptr = v.items[1 - pos] if pos in (0, 1) else v.items[0], v.items[pos]
        pre = on_path(w.events, r)
        refill = [x for x in pre if x.kind == "slicestore" and x.arr.name == batch]
        reads = [x for x in pre if x.kind == "read" and x.arr.name == batch]
        rd = reads[-1] if reads else None
        if refill:
            # refill path: test ptr == N, whole batch rewritten with N fresh draws, pointer restarts at 1, element 0 returned
            eqs = [c for (_, _, cc) in r.path for c in conjuncts(cc) if c[0] == "eq"]
            n_test = None
            for c in eqs:
                d = c[1] - entry
                if d.is_const():
                    n_test = -d.k
                d = -c[1] - entry
                if d.is_const():
                    n_test = -d.k
            consts["refill test"] = n_test
            sl = refill[-1]
            whole = len(sl.idx) == 1 and isinstance(sl.idx[0], tuple) and sl.idx[0][1] is None and sl.idx[0][2] is None
            call = sl.node.value if isinstance(sl.node, ast.Assign) else None
            fresh = isinstance(call, ast.Call) and dotted(call.func) in ("np.random.rand", "np.random.random", "np.random.random_sample") and len(call.args) == 1
            n_new = const_int(call.args[0]) if fresh else None
            consts["refill size"] = n_new
            okk = whole and fresh and n_test is not None and n_test == n_new
            ctx.ob("batchconst", k, sl.node, src(k, sl.node), "an exhausted batch (pointer == N) is replaced entirely by N fresh uniform draws", bool(okk),
                   "" if okk else "refill test N=%r, whole=%s, fresh=%s, new size=%r" % (n_test, whole, fresh, n_new))
            okk = isinstance(ptr, Num) and ptr.lin == Lin.const(1) and rd is not None and rd.idx[0].lin == Lin.const(0)
            ctx.ob("batchconst", k, r.node, "refill path: pointer := 1, returns batch[0]", "after a refill the first fresh draw is returned and the pointer restarts at 1", bool(okk))
        else:
            okk = isinstance(ptr, Num) and ptr.lin == entry + 1 and rd is not None and rd.idx[0].lin == entry
            ctx.ob("batchconst", k, r.node, "normal path: returns batch[pointer], pointer += 1", "each draw is read at the pre-increment pointer and consumed exactly once", bool(okk),
                   "" if okk else "index %s, new pointer %s" % (show_lin(rd.idx[0].lin) if rd else None, show_lin(ptr.lin) if isinstance(ptr, Num) else ptr))
    # constructors: batch of N draws, pointer 0
    for cls in F.classes(COUNTMIN):
        ctor = cls.methods.get("__init__")
        if ctor is None:
            continue
        defs = {d.attr: d for d in F.attr_defs(cls)}
        if "rand_nums" not in defs:
            continue
        d = defs["rand_nums"]
        v = d.value
        n_ctor = const_int(v.args[0]) if isinstance(v, ast.Call) and isinstance(v.func, ast.Attribute) and v.func.attr == "random" and len(v.args) == 1 else None
        consts["%s batch" % cls.name] = n_ctor
        okk = n_ctor is not None and n_ctor == consts.get("refill size") == consts.get("refill test")
        ctx.ob("batchconst", ctor, d.stmt, "%s: self.rand_nums = %s" % (cls.name, unparse(v)), "the initial batch has the same length N as the refill test and the refill", bool(okk),
               "" if okk else "sizes: %r" % consts)
        dp = defs.get("rand_ptr")
        okk = dp is not None and const_int(dp.value) == 0
        ctx.ob("batchconst", ctor, dp.stmt if dp else ctor.node, "%s: self.rand_ptr = 0" % cls.name, "a fresh sketch starts at the first draw of its batch", bool(okk))
        # the generator is seeded from OS entropy (fresh draws per object), not a constant
        dr = defs.get("rng")
        if dr is not None:
            c = dr.value
            seeded_const = isinstance(c, ast.Call) and c.args and const_int(c.args[0]) is not None
            ctx.ob("batchconst", ctor, dr.stmt, "%s: self.rng = %s" % (cls.name, unparse(c, 60)), "the batch generator is not seeded with a constant", not seeded_const)
            # ... nor with anything all sketches of the process share (a module-level seed object): two sketches built from one
            # shared seed replay the same draws
            shared = None
            if isinstance(c, ast.Call) and c.args:
                a0 = c.args[0]
                modnames = set(cls.module.tree_names()) if hasattr(cls.module, "tree_names") else \
                    {t.id for st_ in cls.module.tree.body if isinstance(st_, ast.Assign) for t in st_.targets if isinstance(t, ast.Name)}
                locals_ = {n.id for n in ast.walk(ctor.node) if isinstance(n, ast.Name) and isinstance(n.ctx, ast.Store)} | set(ctor.params)
                # (the object itself handed over as the seed; deriving per-sketch children from it, e.g. `.spawn(1)[0]`, is fine)
                if isinstance(a0, ast.Name) and a0.id in modnames and a0.id not in locals_:
                    shared = a0.id
            ctx.ob("batchconst", ctor, dr.stmt, "%s: seed of self.rng" % cls.name, "every sketch seeds its generator from entropy of its own", shared is None,
                   "" if shared is None else "the generator is seeded from the module-level `%s`, which every sketch built in the process shares: "
                                            "they all start with the same batch of draws" % shared)


# ---------------------------------------------------------------------------
# C06 expo
# ---------------------------------------------------------------------------

def _pow_terms(w):
    out = []
    for t in list(w.P.ranges) + list(w.P.floats):
        if isinstance(t, tuple) and t and t[0] == "op" and t[1] == "Pow" and t not in out:
            out.append(t)
    return out


def rule_expo(ctx):
    F = facts_of(ctx)
    lc = ctx.model.func("countmin", "_log_counter")
    c2v = None
    for cls in F.classes(COUNTMIN):
        q = cls.methods.get("query")
        for k in (F.calls_from(q) if q else []):
            if k.callee.is_kernel and k.callee.rtype is not None and k.callee.rtype.kind == "float":
                c2v = k.callee
    if c2v is None:
        raise AnalysisError("decode kernel (_counter2value) not identified through query()")
    w1 = walk_kernel(F, lc)
    w2 = F.walk(c2v)
    base1 = Lin.term(("param", "base")).key()
    # writer: rand < base ** (-(counter - num_reserved))
    pw1 = [t for t in _pow_terms(w1) if t[2] == base1]
    # reader: base ** (counter - num_reserved)
    pw2 = [t for t in _pow_terms(w2) if t[2] == Lin.term(("param", "base")).key()]
    ctx.analysed_funcs.update([lc.key, c2v.key])
    if not pw1:
        drawn = [e for e in w1.events if e.kind == "branch" and any(t[0] == "call" and str(t[1]).startswith("_rand") for t in _cond_terms(e.cond))]
        if not drawn:
            ctx.ob("expo", lc, lc.node, "increment test of %s" % lc.name, "beyond the reserved range a step is taken when a fresh draw is below the increment probability",
                   False, "no decision of the counter kernel depends on a random draw: the counter never advances (or always advances) beyond the reserved range")
            return
    from .rules_arith import log_counter_stepvar
    stepvar = log_counter_stepvar(lc)

    def _norm_key(key):
        items, const = key
        out = {}
        for name, coef in items:
            nm = name.split("#")[0]
            if nm == stepvar:
                nm = lc.params[0]          # the working copy the counter is stepped in stands for the counter
            out[nm] = out.get(nm, 0) + coef
        return tuple(sorted(out.items())), const
    # the same power met on several paths (the loop is walked once per way of reaching it) is one power
    seen_, uniq = set(), []
    for t in pw1:
        kk = _norm_key(t[3])
        if kk not in seen_:
            seen_.add(kk)
            uniq.append(t)
    pw1_all, pw1 = pw1, uniq
    if len(pw1) != 1 or len(pw2) != 1:
        ctx.ob("expo", lc, lc.node, "base ** exponent", "one power of base in the increment test and one in the decoder", None,
               "found %d / %d" % (len(pw1), len(pw2)))
        return
    e1, e2 = pw1[0][3], pw2[0][3]
    # exponents as keys over parameter terms: writer -(counter#k - num_reserved), reader counter - num_reserved
    def norm(key):
        items, const = key
        out = {}
        for name, coef in items:
            nm = name.split("#")[0]
            if nm == stepvar:
                nm = lc.params[0]
            out[nm] = out.get(nm, 0) + coef
        return out, const
    n1, n2 = norm(e1), norm(e2)
    neg = ({k: -v for k, v in n1[0].items()}, -n1[1])
    okk = neg == n2 and n2[0] == {"counter": 1, "num_reserved": -1} and n2[1] == 0
    ctx.ob("expo", lc, lc.node, "increment probability base**(%s) vs decoded step base**(%s)" % (_show(n1), _show(n2)),
           "probability exponent is the negative of the decoder's exponent c - num_reserved (probability x value step == 1)", okk,
           "" if okk else "writer and reader disagree on the exponent")
    # the draw is compared as  rand < base**(-c')  (increment iff below)
    br = [e for e in w1.events if e.kind == "branch" and any(t in pw1_all for t in _cond_terms(e.cond))]
    res = []
    incs = [e for e in w1.events if e.kind == "assign" and e.name == stepvar and isinstance(getattr(e, "old", None), Num) and isinstance(e.value, Num)
            and e.value.lin - e.old.lin == Lin.const(1)]
    for b in br:
        c = b.cond
        pt = next((t for t in pw1_all if t in _cond_terms(c)), pw1[0])      # this path's instance of the power
        # `if draw < p: step` -- or the same decision spelled from the other side: `if not (draw < p): <no step>` / `if p <= draw: <no step>`,
        # i.e. the test is  p - draw <= 0  and the step sits on its FALSE arm
        okc = c[0] == "flt" and len(c[1].c) == 2 and c[1].c.get(pt) == -1 and c[1].k == 0
        want_pol = True
        if not okc and c[0] in ("fle", "le") and len(c[1].c) == 2 and c[1].c.get(pt) == 1 and c[1].k == 0:
            okc, want_pol = True, False
        rt = [t for t in c[1].c if t != pt] if okc else []
        pols = {pol for e in incs for (nd, pol, _) in e.path if nd is b.node}
        okd = okc and rt and rt[0][0] == "call" and rt[0][1].startswith("_rand") and pols == {want_pol}
        res.append((bool(okd), "increment iff draw < base**(-c')" if okd else "the increment test is not `draw < base ** (-c')`: %s" % show_cond(c), fact_strs(b)))
    agg(ctx, "expo", lc, br[0].node if br else lc.node, "if rand < base ** (-cprime)", "a step is taken exactly when a fresh draw is below the increment probability", res)
    # decoder shape: (base**c' - 1)/(base - 1) + num_reserved ; deterministic range counter <= num_reserved -> counter
    from .rules_hll import nf, parse_nf
    rets = [n for n in walk_no_nested(c2v.node) if isinstance(n, ast.Return)]
    from .model import expand_expr
    shapes = [nf(r.value) for r in rets]
    try:
        shapes += [nf(expand_expr(ctx.model, c2v, r.value)) for r in rets]      # temporaries resolved
    except (AnalysisError, RecursionError):
        pass
    # ... and the value returned on each syntactic path (`d = float64(counter); if nr < counter: d = <geometric>; return d`)
    from .model import path_returns
    for e_ in path_returns(c2v.node) or []:
        try:
            shapes.append(nf(e_))
        except (AnalysisError, RecursionError, TypeError, ValueError):
            pass
    cp = None
    for n in walk_no_nested(c2v.node):
        if isinstance(n, ast.Assign) and isinstance(n.targets[0], ast.Name) and nf(n.value) == parse_nf("counter - num_reserved"):
            cp = n.targets[0].id
    want = parse_nf("(base ** %s - 1.0) / (base - 1.0) + num_reserved" % (cp or "cprime"))
    ok1 = want in shapes or parse_nf("(base ** (counter - num_reserved) - 1.0) / (base - 1.0) + num_reserved") in shapes
    ok2 = parse_nf("counter") in shapes
    ctx.ob("expo", c2v, rets[-1] if rets else c2v.node, "%s: geometric-sum decode" % c2v.name,
           "decoded value is (base**c' - 1)/(base - 1) + num_reserved (sum of the expected waiting times 1/p)", ok1)
    ctx.ob("expo", c2v, rets[0] if rets else c2v.node, "%s: identity on the reserved range" % c2v.name, "counters in the reserved range decode to themselves", ok2)
    w2b = [e for e in w2.events if e.kind == "branch"]
    res = []
    for r in [e for e in w2.events if e.kind == "ret" and not e.implicit]:
        v = r.value
        c, nr = Lin.term(("param", "counter")), Lin.term(("param", "num_reserved"))
        if isinstance(v, Num) and v.lin == c:
            p = w2.P.prove_le0(c - nr, r.facts)
            res.append((bool(p), "identity only when counter <= num_reserved" if p else "identity decode used above the reserved range", fact_strs(r)))
        else:
            p = w2.P.prove_le0(nr - c + 1, r.facts)
            res.append((bool(p), "geometric decode only when counter > num_reserved" if p else "geometric decode reachable inside the reserved range", fact_strs(r)))
    agg(ctx, "expo", c2v, c2v.node, "%s: range split" % c2v.name, "the decoder's deterministic range is counter <= num_reserved, matching the writer's counter < num_reserved steps", res)


def _show(n):
    return " ".join("%+d*%s" % (v, k) for k, v in sorted(n[0].items())) + (" %+d" % n[1] if n[1] else "")


def _cond_terms(c):
    if c[0] in ("le", "flt", "eq", "ne"):
        return list(c[1].terms())
    if c[0] in ("and", "or"):
        out = []
        for x in c[1]:
            out.extend(_cond_terms(x))
        return out
    if c[0] == "not":
        return _cond_terms(c[1])
    return []


# ---------------------------------------------------------------------------
# C09 logmerge-shape
# ---------------------------------------------------------------------------

def rule_logmerge_shape(ctx, rounding=True):
    """rounding=False: only the clauses about the reserved range and the ceiling (what a saturation property needs); the choice
    between the two neighbouring counters and the re-encoding formula are left to the merge property."""
    F = facts_of(ctx)
    from .rules_hll import nf, parse_nf
    for mod, cname in COUNTMIN[1:]:
        cls = ctx.model.cls(mod, cname)
        m = cls.methods.get("merge")
        ks = [c.callee for c in F.calls_from(m) if c.callee.is_kernel] if m else []
        if len(ks) != 1:
            raise AnalysisError("%s.merge: merge kernel not identified" % cname)
        k = ks[0]
        w = walk_kernel(F, k)
        def _V(ev, w=w):
            # the stored value with integer casts looked through (`cms[r, c] = uintN(clower)`, or a per-cell helper whose typed return
            # truncates): which counter is stored is this rule's business, whether it fits the cell is rule range's
            return uncast_value(w, ev.value)
        table = F.param_for(k, "cms")
        other = next((p for p, s in F.param_attr().get(k.key, {}).items() if "other.cms" in s), None)
        nr_p, mc_p, base_p = F.param_for(k, "num_reserved"), F.param_for(k, "max_count"), F.param_for(k, "base")
        if not all((table, other, nr_p, mc_p, base_p)):
            ctx.ob("logmerge-shape", k, k.node, k.name, "kernel receives both tables, num_reserved, max_count, base", None)
            continue
        NR, MC = Lin.term(("param", nr_p)), Lin.term(("param", mc_p))
        stores = [e for e in w.events if e.kind == "store" and e.arr.name == table]
        seen = set()
        for g in group_by_node(stores):
            # one event per (store statement, stored value): a single `cms[r, c] = helper(...)` statement is reached once per case
            first_of = {}
            for e_ in g:
                v_ = _V(e_)
                first_of.setdefault(v_.lin.key() if isinstance(v_, Num) else id(e_), e_)
            for e in (list(first_of.values()) if len(first_of) > 1 else g[:1]):
                pre = [x for x in on_path(w.events, e) if x.loops == e.loops]
                dec = [c for c in pre if c.kind == "call" and c.name == "_counter2value"]
                if len(dec) < 2:
                    ctx.ob("logmerge-shape", k, e.node, src(k, e.node), "merged value is decode(a) + decode(b)", False, "fewer than two decode calls")
                    continue
                d0, d1 = dec[0], dec[1]
                idxkey = tuple(i.lin.key() for i in e.idx)

                def is_cell(a, arr):
                    t = a.lin.single_term() if isinstance(a, Num) else None
                    return t is not None and t[0] == "cell" and t[1] == arr and t[3] == idxkey
                same = all(isinstance(c.args[1], Num) and c.args[1].lin == NR and isinstance(c.args[2], Num)
                           and c.args[2].lin == Lin.term(("param", base_p)) for c in (d0, d1))
                okv = same and ((is_cell(d0.args[0], table) and is_cell(d1.args[0], other)) or (is_cell(d0.args[0], other) and is_cell(d1.args[0], table)))
                V = d0.result.lin + d1.result.lin
                conds = [cc for (_, _, cc) in e.path]
                v = _V(e)
                kind = None
                if isinstance(v, Num) and v.lin.single_term() is not None and v.lin.single_term()[0] == "trunc":
                    # store of uintN(v): exact sum inside the reserved range
                    cast = [c for c in pre if c.kind == "cast" and c.fromfloat and isinstance(c.result, Num) and c.result.lin == v.lin]
                    okc = bool(cast) and isinstance(cast[-1].arg, Num) and cast[-1].arg.lin == V
                    okg = _path_has(conds, "le", V - NR)
                    if okc:
                        kind = "reserved"
                        ctx.ob("logmerge-shape", k, e.node, src(k, e.node), "v = decode(a)+decode(b) <= num_reserved  =>  counter = v (exact sum in the reserved range)",
                               bool(okv and okg), "" if okv and okg else ("operands of the sum are not decode(cms[r,c]) and decode(other_cms[r,c])" if not okv else
                                                                          "guard is not `v <= num_reserved`: %s" % " and ".join(show_cond(c) for c in conds)))
                if kind is None and isinstance(v, Num) and (v.lin.is_const() or v.lin == Lin.term(("param", F.param_for(k, "uint_maxval") or "uint_maxval"))):
                    kind = "ceiling"
                    okg = _path_has(conds, "le", MC - V) and _path_has(conds, "gt", V - NR)
                    ctx.ob("logmerge-shape", k, e.node, src(k, e.node), "v >= max_count  =>  maximum counter", bool(okv and okg),
                           "" if okv and okg else "guard is not `v > num_reserved and v >= max_count`")
                if kind is None:
                    kind = "reencode"
                seen.add(kind)
        if not rounding:
            for need in ("reserved", "ceiling"):
                if need not in seen:
                    ctx.ob("logmerge-shape", k, k.node, "%s: %s case" % (k.name, need), "three-way split reserved / ceiling / re-encode", False, "case missing")
            continue
        # re-encode: nearest of clower / clower+1
        lows = [e for e in stores if isinstance(_V(e), Num) and any(t[0] == "trunc" for t in _V(e).lin.terms()) and _V(e).lin.single_term() is None]
        ups = {}
        for e in lows:
            # one store statement per candidate -- or a single `cms[r, c] = clower + offset` reached with offset 0 on one path and 1 on another
            ups.setdefault((id(e.node), _V(e).lin.key()), e)
        re_stores = list(ups.values())
        if len(re_stores) != 2:
            ctx.ob("logmerge-shape", k, k.node, "%s: re-encode stores" % k.name, "re-encoding chooses between two adjacent counters", False,
                   "found %d re-encode stores" % len(re_stores))
            continue
        a, b = sorted(re_stores, key=lambda e: _V(e).lin.k)
        adj = (_V(b).lin - _V(a).lin) == Lin.const(1)
        ctx.ob("logmerge-shape", k, a.node, "%s / %s" % (src(k, a.node, 40), src(k, b.node, 40)), "the two candidates are clower and clower + 1", adj)
        # clower = uintN(log((v - nr)*(base-1)+1)/log(base)) + nr   (inverse of the decoder)
        want = parse_nf("log((v - %s) * (%s - 1.0) + 1.0) / log(%s)" % (nr_p, base_p, base_p))
        # temporaries are resolved first (within one iteration every single-assignment local denotes its defining expression)
        found = False
        dec2 = "_counter2value"
        # (the assignment may sit in a per-cell helper the kernel calls: those are searched too, their parameters read under the names
        # of the kernel's arguments where the call passes plain names)
        holders = [(k, {})]
        seen_h = {k.key}
        todo_h = [k]
        while todo_h:
            cur = todo_h.pop()
            for c_ in F.calls_from(cur):
                cal = c_.callee
                if cal.is_kernel and cal.key not in seen_h and cal.module is k.module and cal.name != "_counter2value":
                    seen_h.add(cal.key)
                    ren = {p_: a_.id for p_, a_ in c_.argmap.items() if isinstance(a_, ast.Name)}
                    holders.append((cal, ren))
                    todo_h.append(cal)
        cand_nodes = []
        for fn_, ren in holders:
            for n in walk_no_nested(fn_.node):
                if isinstance(n, (ast.Assign, ast.AugAssign, ast.Return)) and n.value is not None:
                    cand_nodes.append((fn_, ren, n))
        for fn_, ren, n in cand_nodes:
            full = resolve_temps(fn_.node, n.value, allow_subscript=True, pure_only=False, in_loops=True)
            try:
                from .model import expand_expr
                full2 = expand_expr(ctx.model, fn_, n.value)       # one-line helper kernels expanded as well
            except (AnalysisError, RecursionError):
                full2 = None
            if ren:
                class _Ren(ast.NodeTransformer):
                    def visit_Name(self, x, ren=ren):
                        return ast.copy_location(ast.Name(id=ren[x.id], ctx=x.ctx), x) if x.id in ren else x
                import copy as _copy
                full = _Ren().visit(_copy.deepcopy(full))
                full2 = _Ren().visit(_copy.deepcopy(full2)) if full2 is not None else None
            for sub in list(ast.walk(full)) + (list(ast.walk(full2)) if full2 is not None else []):
                if not (isinstance(sub, ast.BinOp) and isinstance(sub.op, ast.Div)):
                    continue
                t = nf(sub)
                # log((V - nr)*(base - 1) + 1) / log(base)   with V = decode(.) + decode(.)
                if t[0] != "Div" or t[2] != nf(ast.parse("log(%s)" % base_p, mode="eval").body):
                    continue
                num = t[1]
                if not (num[0] == "call" and num[1] == "log" and len(num[2]) == 1):
                    continue
                arg = num[2][0]
                for vcand in _sum_of_decodes(arg):
                    if arg == ("add", tuple(sorted([("c", 1.0), ("mul", tuple(sorted([("Sub", vcand, ("n", nr_p)), ("Sub", ("n", base_p), ("c", 1.0))], key=repr)))], key=repr))):
                        found = True
        ctx.ob("logmerge-shape", k, a.node, "cprime = log((v - num_reserved)*(base - 1) + 1) / log(base)",
               "re-encoding inverts the decoder's geometric sum", found, "" if found else "no assignment with that normal form")
        # clower = uintN(cprime) + num_reserved: the re-encoded counter is offset by the reserved range, like the decoder's
        rest = _V(a).lin - NR
        tt = rest.single_term()
        okk = tt is not None and tt[0] == "trunc" and rest == Lin.term(tt)
        why = "" if okk else "the lower candidate is `%s`, not uintN(cprime) + num_reserved" % show_lin(_V(a).lin)
        if okk:
            cst = [c for c in on_path(w.events, a) if c.kind == "cast" and c.fromfloat and isinstance(c.result, Num) and c.result.lin == rest]
            argt = cst[-1].arg.lin.single_term() if cst and isinstance(cst[-1].arg, Num) else None
            okk = argt is not None and argt[0] == "op" and argt[1] == "Div"
            why = "" if okk else "the truncated value is not the quotient log(.)/log(base)"
        ctx.ob("logmerge-shape", k, a.node, "clower = uintN(cprime) + num_reserved", "the re-encoded counter is the truncated cprime offset by the reserved range (inverse of the decoder)", okk, why)
        # the choice: fractional position <= 1/2 -> lower, else upper
        pre = [x for x in on_path(w.events, a) if x.loops == a.loops]
        dec = [c for c in pre if c.kind == "call" and c.name == "_counter2value"]
        okk = False
        why = "decode calls for the two candidates not found"
        if len(dec) >= 4:
            V = dec[0].result.lin + dec[1].result.lin
            cl = _V(a).lin
            lo_c = [c for c in dec[2:] if isinstance(c.args[0], Num) and c.args[0].lin == cl]
            hi_c = [c for c in dec[2:] if isinstance(c.args[0], Num) and c.args[0].lin == cl + 1]
            if lo_c and hi_c:
                VL, VH = lo_c[0].result.lin, hi_c[0].result.lin
                conds_a = [cc for (_, _, cc) in a.path]
                conds_b = [cc for (_, _, cc) in b.path]
                okk = _half_test(w, conds_a, V, VL, VH, True) and _half_test(w, conds_b, V, VL, VH, False)
                why = "" if okk else "the test choosing between clower and clower+1 is not `(v - vlower)/(vhigher - vlower) <= 0.5` (or an equivalent form)"
        ctx.ob("logmerge-shape", k, a.node, "nearest-counter test", "the lower counter is chosen iff v is at most half-way to the upper one (nearest decoded value)", okk, why)
        for need in ("reserved", "ceiling"):
            if need not in seen:
                ctx.ob("logmerge-shape", k, k.node, "%s: %s case" % (k.name, need), "three-way split reserved / ceiling / re-encode", False, "case missing")


def _sum_of_decodes(t):
    """Sub-terms of the normal form `t` that are a sum of two _counter2value(...) calls."""
    out = []
    def rec(x):
        if isinstance(x, tuple):
            if x and x[0] == "add" and len(x[1]) == 2 and all(isinstance(y, tuple) and y[0] == "call" and y[1] == "_counter2value" for y in x[1]):
                out.append(x)
            for y in x:
                rec(y)
    rec(t)
    return out


def _path_has(conds, kind, lin):
    for cc in conds:
        for c in conjuncts(cc):
            k, l = c[0], c[1] if len(c) > 1 else None
            if kind == "le" and k == "le" and l == lin:
                return True
            if kind == "gt" and k == "flt" and l == -lin:
                return True
            if kind == "lt" and k == "flt" and l == lin:
                return True
    return False


def _half_test(w, conds, V, VL, VH, lower):
    """lower branch: delta/(VH-VL) <= 0.5  |  2*delta <= VH-VL  |  delta <= 0.5*(VH-VL); upper branch: the strict negation."""
    delta = V - VL
    span = VH - VL
    div = ("op", "Div", delta.key(), span.key())
    forms_le = [Lin.term(div) - Lin.const(0.5), delta.scale(2) - span, delta - span.scale(0.5)]
    for cc in conds:
        for c in conjuncts(cc):
            if lower and c[0] == "le" and any(c[1] == f for f in forms_le):
                return True
            if not lower and c[0] == "flt" and any(c[1] == -f for f in forms_le):
                return True
    return False


# ---------------------------------------------------------------------------
# C11 hashes
# ---------------------------------------------------------------------------

HASH_PUBLIC = {"fasthash64": (8, Ty("uint", 64)), "fasthash32": (None, Ty("uint", 32)), "murmur3": (4, Ty("uint", 32))}
IMPURE = ("np.random", "random.", "time.", "os.", "hash", "id", "open", "print", "input", "datetime", "secrets", "uuid", "globals", "locals", "eval", "exec")
PURE_CALLS = {"len", "range", "min", "max", "int", "np.frombuffer", "numpy.frombuffer", "np.zeros"}


def rule_pure(ctx):
    F = facts_of(ctx)
    mod = ctx.model.module("hashes")
    kernels = [f for f in mod.funcs.values() if f.is_kernel]
    if len(kernels) < 8:
        raise AnalysisError("hashes.py: expected the hash kernels, found %d" % len(kernels))
    sib = {f.name for f in kernels}
    for f in kernels:
        ctx.analysed_funcs.add(f.key)
        wr = F.effects.written_params(f)
        ctx.ob("pure", f, f.node, "%s writes %s" % (f.name, sorted(wr)), "a hash kernel writes none of its parameters", not wr)
        local = set(f.params)
        for n in walk_no_nested(f.node):
            if isinstance(n, ast.Name) and isinstance(n.ctx, ast.Store):
                local.add(n.id)
        bad_glob, bad_call, unk_call = [], [], []
        body_nodes = [n for st in f.node.body for n in walk_no_nested(st)]
        for n in body_nodes:
            if isinstance(n, ast.Call):
                d = dotted(n.func) or "?"
                if d in sib or d in PURE_CALLS or cast_target(n.func) is not None:
                    continue
                if any(d == x or d.startswith(x) for x in IMPURE):
                    bad_call.append(d)
                else:
                    unk_call.append(d)
            elif isinstance(n, ast.Name) and isinstance(n.ctx, ast.Load) and n.id not in local:
                if n.id in sib or n.id in ("np", "numpy", "types", "len", "range", "min", "max", "int", "zip", "enumerate", "reversed", "abs", "bool", "float") \
                        or n.id in mod.imports:
                    continue
                g = mod.globals.get(n.id)
                if g is not None and const_int(g) is not None:
                    continue
                # a tuple of integer literals bound once at module level is a constant too (immutable, never rebound)
                def _ctuple(x, depth=0):
                    return const_int(x) is not None or (depth < 2 and isinstance(x, ast.Tuple) and x.elts and all(_ctuple(y, depth + 1) for y in x.elts))
                if isinstance(g, ast.Tuple) and g.elts and all(_ctuple(x) for x in g.elts) and \
                        sum(1 for x in ast.walk(mod.tree) if isinstance(x, ast.Name) and x.id == n.id and isinstance(x.ctx, (ast.Store, ast.Del))) == 1:
                    continue
                bad_glob.append(n.id)
            elif isinstance(n, (ast.Global, ast.Nonlocal)):
                bad_glob.append("global statement")
        okk = not bad_glob and not bad_call
        ctx.ob("pure", f, f.node, "%s: globals %s, calls %s" % (f.name, sorted(set(bad_glob)), sorted(set(bad_call + unk_call))),
               "the value depends on (bytes, seed) only: no mutable global, no impure call", okk if not unk_call or not okk else None,
               "" if okk and not unk_call else ("reads module state %s" % sorted(set(bad_glob)) if bad_glob else
                                                "impure call %s" % sorted(set(bad_call)) if bad_call else "unknown call(s) %s" % sorted(set(unk_call))))


def _body_names(f):
    out = set()
    for s in f.node.body:
        for n in ast.walk(s):
            if isinstance(n, ast.Name) and isinstance(n.ctx, ast.Load):
                out.add(n.id)
    return out


def rule_uwidth(ctx):
    mod = ctx.model.module("hashes")
    F = facts_of(ctx)
    fam = {}
    # family by reachability from the public functions
    for pub in ("fasthash64", "murmur3"):
        if pub not in mod.funcs:
            raise AnalysisError("hashes.%s not found" % pub)
        todo, seen = [mod.funcs[pub]], set()
        while todo:
            f = todo.pop()
            if f.key in seen:
                continue
            seen.add(f.key)
            fam[f.name] = pub
            for c in F.calls_from(f):
                if c.callee.module.short == "hashes":
                    todo.append(c.callee)
    fam["fasthash32"] = "fasthash64"
    fold_only = set()          # helpers of the 64 -> 32 fold alone: they carry the 32-bit result as well
    if "fasthash32" in mod.funcs:
        todo, seen = [mod.funcs["fasthash32"]], set()
        while todo:
            f = todo.pop()
            if f.key in seen:
                continue
            seen.add(f.key)
            if f.name not in fam:
                fold_only.add(f.name)
            fam.setdefault(f.name, "fasthash64")
            for c in F.calls_from(f):
                if c.callee.module.short == "hashes":
                    todo.append(c.callee)
    word = {"fasthash64": Ty("uint", 64), "murmur3": Ty("uint", 32)}
    for name, f in sorted(mod.funcs.items()):
        if not f.is_kernel:
            continue
        ctx.analysed_funcs.add(f.key)
        if name in HASH_PUBLIC:
            _, rt = HASH_PUBLIC[name]
            okk = f.rtype == rt
            ctx.ob("uwidth", f, f.node, "%s -> %r" % (name, f.rtype), "public hash returns the published width %r" % rt, okk)
            st = [t for p, t in f.ptypes.items() if t.kind != "bytes"]
            want = Ty("uint", 32) if name == "murmur3" else Ty("uint", 64)
            okk = len(st) == 1 and st[0] == want
            ctx.ob("uwidth", f, f.node, "%s(seed: %r)" % (name, st[0] if st else None), "seed has the published width %r" % want, okk)
            continue
        wt = word.get(fam.get(name))
        if wt is None:
            ctx.ob("uwidth", f, f.node, name, "helper belongs to one hash family", None)
            continue
        tys = list(f.ptypes.values()) + [f.rtype]
        # the exact widths are part of the term comparison (rule dfg models every typed parameter/return as a truncation); what must
        # hold independently is that helper scalars are unsigned (shifts stay logical, truncation is modular) and that values of the
        # family's word are carried in that word
        takes_key = any(t is not None and t.kind == "bytes" for t in tys)
        # (a helper that reads the key itself may take 64-bit positions into it, signed or not: an index is not a hash word)
        okk = all(t is not None and (t.kind == "bytes" or (t.kind == "uint" and not t.is_array) or
                                     (takes_key and t.kind == "int" and t.bits == 64 and not t.is_array)) for t in tys)
        words = [t for t in tys if t is not None and t.kind == "uint" and t.bits >= min(32, wt.bits)]
        okw = all(t == wt or (name in fold_only and t == Ty("uint", 32)) for t in words) or any(t.kind == "bytes" for t in tys if t is not None)
        ctx.ob("uwidth", f, f.node, "%s: %s -> %r" % (name, [repr(t) for t in f.ptypes.values()], f.rtype),
               "helper scalars are unsigned and word-sized values use the family's word %r (this is what truncates Numba's 64-bit intermediates and keeps shifts logical)" % wt,
               okk and okw)


def rule_blocks(ctx):
    F = facts_of(ctx)
    for name, (B, _) in HASH_PUBLIC.items():
        if B is None:
            continue
        f = ctx.model.func("hashes", name)
        w = F.walk(f)
        keyp = [p for p, t in f.ptypes.items() if t.kind == "bytes"][0]
        L = Lin.term(("len", keyp))
        fb = [e for e in w.events if e.kind == "frombuffer"]
        # nblocks = len // B
        divs = [t for t in w.P.ranges if t[0] == "op" and t[1] == "FloorDiv"]
        masks = [t for t in w.P.ranges if t[0] == "op" and t[1] in ("BitAnd", "Mod")]
        d_ok = [t for t in divs if t[3] == Lin.const(B).key()]
        ctx.ob("blocksize", f, f.node, "%s: nblocks = len(key) // %d" % (name, B), "block count is len(key) // %d" % B,
               len(divs) == 1 and len(d_ok) == 1, "" if len(d_ok) == 1 else "divisor keys: %s" % [t[3] for t in divs])
        if not d_ok:
            continue
        NB = Lin.term(d_ok[0])
        # casting of the key to length-typed: nblocks derives from len(key)
        lenk = d_ok[0][2]
        ok_len = lenk == L.key() or any(c.kind == "cast" and isinstance(c.result, Num) and c.result.lin.key() == lenk
                                        and isinstance(c.arg, Num) and c.arg.lin == L for c in w.events)
        ctx.ob("blocksize", f, f.node, "%s: nblocks derives from len(key)" % name, "the block count is computed from the key length", ok_len)
        for e in group_by_node(fb):
            e = e[0]
            sb = e.src
            okk = isinstance(sb, Bytes) and sb.root == keyp and sb.start == Lin.const(0) and sb.stop is not None and sb.stop == NB.scale(B)
            isz = e.dtype.bits // 8 if e.dtype is not None else None
            ctx.ob("blocksize", f, e.node, src(f, e.node, 70), "the block view covers key[: nblocks*%d] with %d-byte items" % (B, B),
                   bool(okk and isz == B), "" if okk and isz == B else "slice %r, itemsize %r" % (sb, isz))
        if not fb:
            ctx.ob("blocksize", f, f.node, "%s: np.frombuffer(key[: nblocks*B])" % name, "whole blocks are read through one typed view", False)
        m_ok = [t for t in masks if (t[1] == "BitAnd" and Lin.const(B - 1).key() in (t[2], t[3])) or (t[1] == "Mod" and t[3] == Lin.const(B).key())]
        # ... or the tail is taken as the slice key[nblocks*B:], whose length is len(key) - B*(len(key)//B)
        tails = [e for e in w.events if e.kind == "assign" and isinstance(getattr(e, "value", None), Bytes) and e.value.root == keyp
                 and e.value.start == NB.scale(B) and (e.value.stop is None or e.value.stop == L)]
        r_ok = len(m_ok) >= 1 or bool(tails)
        ctx.ob("blocksize", f, f.node, "%s: residue = len(key) & %d" % (name, B - 1), "tail length is len(key) mod %d" % B,
               True if r_ok else (False if masks else None),
               "" if r_ok else ("mask terms: %s" % [(t[1], t[2], t[3]) for t in masks] if masks else "no residue computation (mask, modulus or tail slice) is read from this shape"))
        # tail slice key[nblocks*B:]
        tails = []
        for n in walk_no_nested(f.node):
            if isinstance(n, ast.Subscript) and isinstance(n.value, ast.Name) and n.value.id == keyp and isinstance(n.slice, ast.Slice) \
                    and n.slice.upper is None and n.slice.lower is not None:
                tails.append(n)
        from .rules_hll import nf, parse_nf
        nbname = None
        for n in walk_no_nested(f.node):
            if isinstance(n, ast.Assign) and isinstance(n.targets[0], ast.Name) and isinstance(n.value, ast.BinOp) and isinstance(n.value.op, ast.FloorDiv):
                nbname = n.targets[0].id
        okk = bool(tails) and nbname is not None and all(nf(t.slice.lower) == parse_nf("%s * %d" % (nbname, B)) for t in tails)
        ctx.ob("blocksize", f, tails[0] if tails else f.node, "%s: tail = key[nblocks*%d:]" % (name, B), "the tail starts right after the last whole block", okk)
        # ---- blockloop
        lends = [e for e in w.events if e.kind == "loopend"]
        loops = {}
        for e in lends:
            loops[id(e.loop.node)] = e.loop
        good = False
        why = "no loop over the blocks"
        for lp in loops.values():
            if lp.kind == "iter" and isinstance(lp.iterval, Arr) and lp.iterval.origin == "frombuffer":
                # the element must be consumed in the body
                used = any(isinstance(n, ast.Name) and n.id == lp.var and isinstance(n.ctx, ast.Load) for s in lp.node.body for n in ast.walk(s))
                good, why = used, "" if used else "loop variable unused"
            elif lp.kind == "range" and lp.start == Lin.const(0) and lp.step == Lin.const(1) and lp.stop == NB:
                rd = [e for e in w.events if e.kind == "read" and e.loops and e.loops[-1].node is lp.node and e.arr.origin == "frombuffer"]
                okr = len({id(e.node) for e in rd}) == 1 and all(e.idx[0].lin == Lin.term(e.loops[-1].varterm) for e in rd)
                good, why = okr, "" if okr else "blocks[i] is not read exactly once per iteration at the loop index"
            elif lp.kind == "range":
                why = "loop bound is %s, not nblocks" % show_lin(lp.stop)
        ctx.ob("blockloop", f, f.node, "%s: loop over blocks" % name, "every whole block is consumed once, in ascending order", good, why)
        # ---- bytes-once
        _bytes_once(ctx, f, name, B, keyp)


def _bytes_once(ctx, f, name, B, keyp):
    # tail names: variables assigned key[nblocks*B:]
    tailnames = set()
    for n in walk_no_nested(f.node):
        if isinstance(n, ast.Assign) and isinstance(n.targets[0], ast.Name) and isinstance(n.value, ast.Subscript) \
                and isinstance(n.value.value, ast.Name) and n.value.value.id == keyp and isinstance(n.value.slice, ast.Slice) and n.value.slice.upper is None:
            tailnames.add(n.targets[0].id)
    # switch variable
    sw = None
    for n in walk_no_nested(f.node):
        if isinstance(n, ast.Assign) and isinstance(n.targets[0], ast.Name) and isinstance(n.value, ast.BinOp) and isinstance(n.value.op, (ast.BitAnd, ast.Mod)):
            c = const_int(n.value.right)
            if (isinstance(n.value.op, ast.BitAnd) and c == B - 1) or (isinstance(n.value.op, ast.Mod) and c == B):
                sw = n.targets[0].id
    if sw is None or not tailnames:
        ctx.ob("bytes-once", f, f.node, "%s: tail switch" % name, "tail handling readable", None, "switch variable / tail slice not found")
        return
    # collect branches: if sw == r (elif chain)
    branches = {}

    def visit(stmts):
        for s in stmts:
            if isinstance(s, ast.If):
                t = s.test
                if isinstance(t, ast.Compare) and len(t.ops) == 1 and isinstance(t.ops[0], ast.Eq) and isinstance(t.left, ast.Name) and t.left.id == sw:
                    r = const_int(t.comparators[0])
                    if r is not None:
                        branches[r] = s
                    visit(s.orelse)
                else:
                    visit(s.body)
                    visit(s.orelse)
    visit(f.body())
    want = set(range(1, B))
    ctx.ob("bytes-once", f, f.node, "%s: residues handled %s" % (name, sorted(branches)), "the tail switch handles every residue 1..%d" % (B - 1),
           set(branches) == want, "" if set(branches) == want else "missing %s, extra %s" % (sorted(want - set(branches)), sorted(set(branches) - want)))
    for r, node in sorted(branches.items()):
        uses = []     # (byte index, shift)
        bad = []
        for st in node.body:
            for n in ast.walk(st):
                if isinstance(n, ast.Call):
                    d = dotted(n.func) or ""
                    args = n.args
                    for i, a in enumerate(args):
                        j = _tail_index(a, tailnames)
                        if j is None:
                            continue
                        if "shift" in d and "l" in d.split("shift")[-1] and len(args) >= 2:
                            sh = const_int(args[-1])
                            uses.append((j, sh, n))
                        elif "xor" in d and "shift" not in d:
                            uses.append((j, 0, n))
                        elif cast_target(n.func) is not None:
                            pass    # uint64(tail[0]) -- counted by the enclosing xor below
                        else:
                            bad.append(d)
                elif isinstance(n, ast.AugAssign) and isinstance(n.op, ast.BitXor):
                    j = _tail_index(n.value, tailnames)
                    if j is not None:
                        uses.append((j, 0, n))
                elif isinstance(n, ast.BinOp) and isinstance(n.op, ast.BitXor):
                    for a in (n.left, n.right):
                        j = _tail_index(a, tailnames)
                        if j is not None:
                            uses.append((j, 0, n))
        # every syntactic tail[...] occurrence must have been classified
        occ = [n for st in node.body for n in ast.walk(st) if isinstance(n, ast.Subscript) and isinstance(n.value, ast.Name) and n.value.id in tailnames]
        got = sorted((j, s) for j, s, _ in uses)
        exp = sorted((j, 8 * j) for j in range(r))
        okk = got == exp and len(occ) == len(uses) and not bad
        ctx.ob("bytes-once", f, node, "%s: residue %d uses %s" % (name, r, got),
               "the %d remaining bytes are each used once, byte i shifted left by 8*i (little-endian load)" % r, okk,
               "" if okk else "expected %s%s" % (exp, ("; %d unclassified tail accesses" % (len(occ) - len(uses))) if len(occ) != len(uses) else ""))


def _mentions_blocks(t):
    if isinstance(t, tuple):
        if t and t[0] in ("fold", "elem"):
            return True
        return any(_mentions_blocks(x) for x in t)
    return False


def _tail_index(node, tailnames):
    while isinstance(node, ast.Call) and len(node.args) == 1 and cast_target(node.func) is not None:
        node = node.args[0]
    if isinstance(node, ast.Subscript) and isinstance(node.value, ast.Name) and node.value.id in tailnames:
        return const_int(node.slice)
    return None


# ---------------------------------------------------------------------------
# C11 dfg: Herbrand-term equivalence with the published algorithms
# ---------------------------------------------------------------------------

def rule_dfg(ctx):
    from . import herbrand as HB
    specs = {"fasthash64": (8, HB.ref_fasthash64), "murmur3": (4, HB.ref_murmur3)}
    for name, (B, ref) in specs.items():
        f = ctx.model.func("hashes", name)
        ctx.analysed_funcs.add(f.key)
        # exhaustive case split on (len % B, len // B > 0): inside a case the tests on the residue and on the block count are decided
        # and residue-bounded loops unroll, so a tail written as a switch, as nested ifs or as a loop yields the same term
        seen = {}
        cases = [(r, hb) for r in range(B) for hb in (False, True)]
        ci = 0
        while ci < len(cases):
            case = cases[ci]
            ci += 1
            if True:
                r, has_blocks = case[0], case[1]
                sub = case[2] if len(case) > 2 else None
                label = "%s: len %% %d == %d, %s" % (name, B, r, ("with whole blocks" if sub is None else "exactly one whole block" if sub == "one"
                                                                  else "two or more whole blocks") if has_blocks else "no whole block")
                try:
                    paths = HB.HInterp(ctx.model, f, B, case=case).run_public()
                except HB.HNeedSplit:
                    # a test on the block count that `at least one block` does not decide: split the case further
                    cases[ci:ci] = [(r, True, "one"), (r, True, "many")]
                    continue
                except HB.HUndecided as u:
                    ctx.ob("dfg", f, f.node, label, "every path's result term is computable", None, str(u))
                    continue
                except RecursionError:
                    ctx.ob("dfg", f, f.node, label, "every path's result term is computable", None, "term too deep")
                    continue
                for assume, has_loop, term in paths:
                    # the residue / block-count tests were decided by the case; what is left are data-dependent tests
                    stray = [a for a in assume if a[0][0] in ("res", "hasblocks")]
                    if stray:
                        ctx.ob("dfg", f, f.node, label, "tests on the tail length / block count are decided by the case", None, "undecided test %r" % (stray[0],))
                        continue
                    zeros = [a[0][1] for a in assume if a[0][0] == "nonzero" and (a[1] == a[0][2])]
                    try:
                        got = HB.subst_zero(HB.nf(term, f.rtype.bits), zeros, f.rtype.bits)
                        want = HB.subst_zero(HB.nf(ref(r, has_blocks), f.rtype.bits), zeros, f.rtype.bits)
                    except AnalysisError as e:
                        ctx.ob("dfg", f, f.node, label, "normal form computable", None, str(e))
                        continue
                    d = HB.diff(got, want)
                    if d is not None and sub is not None:
                        # inside a sub-case the reference still folds over the blocks symbolically; a different term is a violation
                        # only when the whole blocks' bytes do not reach the result at all (no published hash ignores them)
                        if _mentions_blocks(got):
                            ctx.ob("dfg", f, f.node, label, "the result term is comparable with the published algorithm's in this sub-case", None,
                                   "the function treats keys with %s specially: %s" % ("exactly one whole block" if sub == "one" else "two or more whole blocks", d))
                            continue
                        d = "the bytes of the whole blocks do not reach the result for keys with %s; %s" % ("exactly one whole block" if sub == "one" else "two or more whole blocks", d)
                    seen[(r, has_blocks)] = seen.get((r, has_blocks), True) and d is None
                    ztxt = (", when %s == 0" % " and ".join(HB.show(z)[:40] for z in zeros)) if zeros else ""
                    ctx.ob("dfg", f, f.node, label + ztxt,
                           "the result term equals the published %s in this case (Herbrand normal form modulo 2^%d)" % ("FastHash64" if name == "fasthash64" else "MurmurHash3_x86_32", f.rtype.bits),
                           d is None, "" if d is None else d)
    # fasthash32 = low-entropy fold of fasthash64
    f = ctx.model.func("hashes", "fasthash32")
    ctx.analysed_funcs.add(f.key)
    try:
        paths = HB.HInterp(ctx.model, f, 8).run_public()
        for assume, has_loop, term in paths:
            got = HB.nf(term, 32)
            want = HB.nf(HB.ref_fasthash32(), 32)
            d = HB.diff(got, want)
            ctx.ob("dfg", f, f.node, "fasthash32", "fasthash32 == uint32(h - (h >> 32)) of fasthash64(key, seed)", d is None, "" if d is None else d)
    except HB.HUndecided as u:
        ctx.ob("dfg", f, f.node, "fasthash32", "result term computable", None, str(u))


# ---------------------------------------------------------------------------
# C14 seeddep: the row hash really is a function of its seed, on every path
# ---------------------------------------------------------------------------

class _DepUndecided(Exception):
    pass


class _MustDeps:
    """Definite syntactic dependencies of a function's return values on its parameters, path by path.

    env: local name -> frozenset of parameter names its current value is computed from.  Branches fork; a loop may run 0, 1, 2, ...
    times and every such exit state is kept (until the states repeat).  A return value that does not syntactically depend on a parameter
    cannot depend on it at run time, so `param not in deps` on some path is a sound witness of independence; the converse is not
    claimed."""

    def __init__(self, model, func, depth=0):
        self.model, self.func, self.depth = model, func, depth
        self.rets = []       # (lineno, frozenset)

    def run(self):
        env = {p: frozenset([p]) for p in self.func.params}
        self.block(self.func.body(), [env])
        return self.rets

    def deps(self, e, env):
        out = set()
        for n in ast.walk(e):
            if isinstance(n, ast.Name) and isinstance(n.ctx, ast.Load) and n.id in env:
                out |= env[n.id]
            elif isinstance(n, (ast.Lambda, ast.ListComp, ast.GeneratorExp, ast.SetComp, ast.DictComp)):
                raise _DepUndecided("expression `%s`" % unparse(n, 40))
        # a helper of the same module whose result ignores one of its arguments: follow it one level
        if isinstance(e, ast.Call) and isinstance(e.func, ast.Name) and self.depth < 3:
            callee = self.model.lookup_func(self.func.module, e.func.id)
            if callee is not None and len(callee.params) == len(e.args) and not e.keywords:
                sub = _MustDeps(self.model, callee, self.depth + 1)
                try:
                    rets = sub.run()
                except _DepUndecided:
                    rets = None
                if rets:
                    used = frozenset.intersection(*[r for _, r in rets])
                    out = set()
                    for p, a in zip(callee.params, e.args):
                        if p in used:
                            out |= self.deps(a, env)
        return frozenset(out)

    def block(self, stmts, envs):
        for s in stmts:
            nxt = []
            for env in envs:
                nxt.extend(self.stmt(s, env))
            # dedupe
            seen, envs = set(), []
            for env in nxt:
                k = tuple(sorted((n, tuple(sorted(v))) for n, v in env.items()))
                if k not in seen:
                    seen.add(k)
                    envs.append(env)
            if len(envs) > 4096:
                raise _DepUndecided("too many paths")
        return envs

    def assign(self, t, d, env):
        if isinstance(t, ast.Name):
            env[t.id] = d
        elif isinstance(t, (ast.Tuple, ast.List)):
            for x in t.elts:
                self.assign(x, d, env)
        elif isinstance(t, ast.Subscript) and isinstance(t.value, ast.Name):
            env[t.value.id] = env.get(t.value.id, frozenset()) | d | self.deps(t.slice, env)
        else:
            raise _DepUndecided("assignment target `%s`" % unparse(t, 40))

    def stmt(self, s, env):
        if isinstance(s, ast.Assign):
            env = dict(env)
            d = self.deps(s.value, env)
            for t in s.targets:
                self.assign(t, d, env)
            return [env]
        if isinstance(s, ast.AnnAssign):
            env = dict(env)
            if s.value is not None:
                self.assign(s.target, self.deps(s.value, env), env)
            return [env]
        if isinstance(s, ast.AugAssign):
            env = dict(env)
            d = self.deps(s.value, env) | self.deps(s.target, env) if not isinstance(s.target, ast.Name) else self.deps(s.value, env) | env.get(s.target.id, frozenset())
            self.assign(s.target, d, env)
            return [env]
        if isinstance(s, ast.If):
            return self.block(s.body, [dict(env)]) + self.block(s.orelse, [dict(env)])
        if isinstance(s, (ast.For, ast.While)):
            outs, cur = [env], [env]
            for _ in range(6):
                start = []
                for e in cur:
                    e = dict(e)
                    if isinstance(s, ast.For):
                        self.assign(s.target, self.deps(s.iter, e), e)
                    start.append(e)
                cur = self.block(s.body, start)
                new = [e for e in cur if e not in outs]
                if not new:
                    break
                outs.extend(new)
                cur = new
            else:
                raise _DepUndecided("loop does not stabilise")
            if s.orelse:
                return self.block(s.orelse, outs)
            return outs
        if isinstance(s, ast.Return):
            self.rets.append((s.lineno, self.deps(s.value, env) if s.value is not None else frozenset()))
            return []
        if isinstance(s, (ast.Expr, ast.Pass, ast.Assert)):
            return [env]
        if isinstance(s, ast.Raise):
            return []
        if isinstance(s, (ast.Break, ast.Continue)):
            # leaving the body early: the state flows to the loop exit / next iteration; approximated by keeping it as a body result
            return [env]
        raise _DepUndecided("statement %s" % type(s).__name__)


def rule_seeddep(ctx):
    """Every return of the row hash depends on the seed (and on the key): a hash that ignores its seed on some path gives every
    row the same column for the keys that take that path."""
    F = facts_of(ctx)
    f = ctx.model.func("hashes", "fasthash64")
    ctx.analysed_funcs.add(f.key)
    keyp = next((p for p, t in f.ptypes.items() if t.kind == "bytes"), f.params[0])
    seedp = next((p for p in f.params if p != keyp), None)
    try:
        rets = _MustDeps(ctx.model, f).run()
    except _DepUndecided as u:
        ctx.ob("seeddep", f, f.node, "%s(%s, %s)" % (f.name, keyp, seedp), "dependencies of the result are computable", None, str(u))
        return
    bad_seed = sorted({ln for ln, d in rets if seedp not in d})
    ctx.ob("seeddep", f, f.node, "%s: %d return paths" % (f.name, len(rets)), "on every path the result is computed from the seed", bool(rets) and not bad_seed,
           "" if not bad_seed else "on some path to the return at line %s the result is not computed from `%s`: all rows get the same column for those keys" % (bad_seed[0], seedp))
