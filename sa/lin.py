"""E3 -- integer linear forms and a deliberately tiny entailment prover.

A ``Lin`` is  sum(c_i * term_i) + k  over the mathematical integers (or reals when a
term is a float term).  Terms are hashable tuples created by the flow walker.
Facts are Lins understood as ``lin <= 0``.

Entailment (``Prover.prove_le0``):
  0. min/max terms in the goal are eliminated by an exact two-way case split;
  1. interval substitution of the term ranges;
  2. one fact + intervals;  3. two facts + intervals.
No solver, no search beyond that.  Unprovable => None (the caller reports the
obligation as not discharged, never as "false").
"""
from __future__ import annotations

import itertools


class Lin:
    __slots__ = ("c", "k", "_key")

    def __init__(self, c=None, k=0):
        self.c = {t: v for t, v in (c or {}).items() if v != 0}
        self.k = k
        self._key = None

    # -- constructors -------------------------------------------------
    @staticmethod
    def const(k):
        return Lin({}, k)

    @staticmethod
    def term(t, coef=1):
        return Lin({t: coef}, 0)

    # -- algebra ------------------------------------------------------
    def __add__(self, o):
        o = _lin(o)
        c = dict(self.c)
        for t, v in o.c.items():
            c[t] = c.get(t, 0) + v
        return Lin(c, self.k + o.k)

    __radd__ = __add__

    def __neg__(self):
        return Lin({t: -v for t, v in self.c.items()}, -self.k)

    def __sub__(self, o):
        return self + (-_lin(o))

    def __rsub__(self, o):
        return _lin(o) - self

    def scale(self, f):
        return Lin({t: v * f for t, v in self.c.items()}, self.k * f)

    # -- queries ------------------------------------------------------
    def is_const(self):
        return not self.c

    def terms(self):
        return set(self.c)

    def key(self):
        if self._key is None:
            self._key = (tuple(sorted(((show_term(t), v) for t, v in self.c.items()))), self.k)
        return self._key

    def __eq__(self, o):
        return isinstance(o, Lin) and self.c == o.c and self.k == o.k

    def __hash__(self):
        return hash(self.key())

    def single_term(self):
        """Return the term if this is exactly 1*term + 0, else None."""
        if self.k == 0 and len(self.c) == 1:
            (t, v), = self.c.items()
            if v == 1:
                return t
        return None

    def subst(self, term, repl):
        if term not in self.c:
            return self
        c = dict(self.c)
        coef = c.pop(term)
        return Lin(c, self.k) + _lin(repl).scale(coef)

    def __repr__(self):
        return show_lin(self)


def _lin(x):
    if isinstance(x, Lin):
        return x
    return Lin.const(x)


def show_term(t):
    if isinstance(t, tuple):
        kind = t[0]
        if kind == "param":
            return t[1]
        if kind == "var":
            return "%s#%s" % (t[1], t[2])
        if kind == "cell":
            return "%s@%s[%s]" % (t[1], t[2], ", ".join(show_key(i) for i in t[3]))
        if kind == "call":
            return "%s()#%s" % (t[1], t[2])
        if kind == "attr":
            return "%s.%s" % (t[1], t[2])
        if kind in ("min", "max"):
            return "%s(%s, %s)" % (kind, show_key(t[1]), show_key(t[2]))
        if kind == "opq":
            return "<%s>" % (t[1],)
        if kind == "byte":
            return "%s[%s]" % (t[1], show_key(t[2]))
        if kind == "len":
            return "len(%s)" % (t[1],)
        if kind == "op":
            return "(%s %s %s)" % (show_key(t[2]), t[1], show_key(t[3]))
        return "%s:%s" % (kind, ",".join(str(x) for x in t[1:]))
    return str(t)


def show_key(k):
    """Pretty form of a Lin.key()."""
    try:
        items, const = k
        parts = []
        for r, v in items:
            parts.append(("%s" % r) if v == 1 else ("%s*%s" % (v, r)))
        if const or not parts:
            parts.append(str(const))
        return " + ".join(parts)
    except Exception:
        return str(k)


def show_lin(l):
    parts = []
    for t, v in sorted(((show_term(t), v) for t, v in l.c.items())):
        s = t
        if v == 1:
            parts.append("+ " + s)
        elif v == -1:
            parts.append("- " + s)
        elif v > 0:
            parts.append("+ %s*%s" % (v, s))
        else:
            parts.append("- %s*%s" % (-v, s))
    if l.k or not parts:
        parts.append(("+ %s" % l.k) if l.k >= 0 else ("- %s" % -l.k))
    s = " ".join(parts)
    return s[2:] if s.startswith("+ ") else s


class Proof:
    __slots__ = ("how", "facts")

    def __init__(self, how, facts=()):
        self.how = how
        self.facts = tuple(facts)

    def __repr__(self):
        if self.facts:
            return "%s using [%s]" % (self.how, "; ".join(show_lin(f) + " <= 0" for f in self.facts))
        return self.how


class Prover:
    """Holds the term universe: ranges, min/max definitions, float terms."""

    def __init__(self):
        self.ranges = {}    # term -> (lo|None, hi|None)
        self.minmax = {}    # term -> ("min"|"max", LinA, LinB)
        self.ops = {}       # ("op", name, keyA, keyB) -> (LinA, LinB)
        self.floats = set() # terms that are real-valued

    # -- intervals ----------------------------------------------------
    def rng(self, t):
        return self.ranges.get(t, (None, None))

    def hi(self, l):
        tot = l.k
        for t, v in l.c.items():
            lo, hi = self.rng(t)
            b = hi if v > 0 else lo
            if b is None:
                return None
            tot += v * b
        return tot

    def lo(self, l):
        h = self.hi(-l)
        return None if h is None else -h

    def is_float(self, l):
        return isinstance(l.k, float) or any(t in self.floats for t in l.c)

    # -- entailment ---------------------------------------------------
    def prove_le0(self, goal, facts, depth=0):
        """Prove goal <= 0 from facts (each f <= 0) and the term ranges."""
        goal = _lin(goal)
        # 0. exact case split on a min/max term occurring in the goal
        if depth < 4:
            for t in goal.c:
                if t in self.minmax:
                    kind, a, b = self.minmax[t]
                    # t == a  when (min: a<=b) / (max: a>=b); else t == b
                    if kind == "min":
                        ca, cb = a - b, b - a   # a-b<=0 ; b-a<=0
                    else:
                        ca, cb = b - a, a - b
                    # first try without splitting (cheap, and keeps proofs short)
                    p = self._prove_flat(goal, facts)
                    if p:
                        return p
                    pa = self.prove_le0(goal.subst(t, a), list(facts) + [ca], depth + 1)
                    if not pa:
                        return None
                    pb = self.prove_le0(goal.subst(t, b), list(facts) + [cb], depth + 1)
                    if not pb:
                        return None
                    return Proof("case-split(%s)" % show_term(t), pa.facts + pb.facts)
        return self._prove_flat(goal, facts)

    def _prove_flat(self, goal, facts):
        h = self.hi(goal)
        if h is not None and h <= 0:
            return Proof("type ranges")
        gt = goal.terms()
        rel = [f for f in facts if f.terms() & gt]
        for f in rel:
            h = self.hi(goal - f)
            if h is not None and h <= 0:
                return Proof("one fact + type ranges", [f])
        # second fact may be related to the goal or to the first fact
        for f1 in rel:
            r1 = goal - f1
            t1 = r1.terms() | gt
            for f2 in facts:
                if f2 is f1 or not (f2.terms() & t1):
                    continue
                h = self.hi(r1 - f2)
                if h is not None and h <= 0:
                    return Proof("two facts + type ranges", [f1, f2])
        return None

    def prove_ge0(self, goal, facts):
        return self.prove_le0(-_lin(goal), facts)

    def prove_eq0(self, goal, facts):
        p1 = self.prove_le0(goal, facts)
        if not p1:
            return None
        p2 = self.prove_le0(-_lin(goal), facts)
        if not p2:
            return None
        return Proof("both directions", p1.facts + p2.facts)
