"""Value dependencies of a walker term: which parameters, array contents, calls and unknowns a Lin is computed from.

Fresh result terms (call results, casts) are resolved through the event that produced them, so the closure follows helper
temporaries, hoisted constants and aliases without looking at names."""
from __future__ import annotations

from .flow import Arr, ArrSlice, Bytes, Num, Tup
from .lin import Lin

PURE_CALLS = {"len", "min", "max", "abs", "int", "float", "np.log", "np.log2", "np.sqrt", "np.exp", "np.floor", "np.ceil", "math.log", "math.floor"}


class Deps:
    def __init__(self, w, known_terms=()):
        self.w = w
        self.known_terms = set(known_terms)     # terms to be reported as ("known", term) instead of unknown (e.g. a loop variable)
        self.by_term = {}
        for e in w.events:
            if e.kind == "call":
                r = getattr(e, "result", None)
                items = r.items if isinstance(r, Tup) else [r]
                for it in items:
                    if isinstance(it, Num):
                        t = it.lin.single_term()
                        if t is not None:
                            self.by_term.setdefault(t, e)
            elif e.kind == "cast":
                r = getattr(e, "result", None)
                if isinstance(r, Num):
                    t = r.lin.single_term()
                    if t is not None:
                        self.by_term.setdefault(t, e)
        self._memo = {}

    # sources: ("param", name) | ("array", name) | ("call", name) | ("unknown", text)
    def of_lin(self, lin):
        out = set()
        for t in lin.terms():
            out |= self.of_term(t)
        return out

    def of_key(self, key):
        """key = (((term, coef), ...), const)"""
        out = set()
        try:
            terms, _ = key
            for t, _c in terms:
                out |= self.of_term(t)
        except (TypeError, ValueError):
            out.add(("unknown", repr(key)[:60]))
        return out

    def of_value(self, v):
        if isinstance(v, Num):
            return self.of_lin(v.lin)
        if isinstance(v, Bytes):
            out = set()
            root = v.root
            if isinstance(root, str):
                out.add(("param", root))
            elif isinstance(root, tuple) and root and root[0] == "arrbytes":
                out.add(("array", root[1]))
            elif isinstance(root, tuple) and root and root[0] == "const":
                pass
            else:
                out.add(("unknown", repr(root)[:60]))
            for l in (v.start, v.stop):
                if l is not None:
                    out |= self.of_lin(l)
            return out
        if isinstance(v, Arr):
            return {("array", v.name)}
        if isinstance(v, ArrSlice):
            return {("array", v.arr.name)}
        if isinstance(v, Tup):
            out = set()
            for x in v.items:
                out |= self.of_value(x)
            return out
        return {("unknown", repr(v)[:60])}

    def of_term(self, t):
        if t in self._memo:
            return self._memo[t]
        self._memo[t] = set()       # cycles
        k = t[0] if isinstance(t, tuple) and t else None
        out = set()
        if t in self.known_terms:
            out.add(("known", repr(t)[:40]))
        elif k == "param":
            out.add(("param", t[1]))
        elif k == "len":
            if isinstance(t[1], str) and t[1] not in ("slice", "bytes"):
                out.add(("param", t[1]))
        elif k == "attr":
            out.add(("attr", "%s.%s" % (t[1], t[2])))
        elif k == "cell":
            out.add(("array", t[1]))
        elif k in ("min", "max"):
            mm = self.w.P.minmax.get(t)
            if mm:
                out |= self.of_lin(mm[1]) | self.of_lin(mm[2])
            else:
                out.add(("unknown", "operands of %s" % k))
        elif k == "op":
            ab = self.w.P.ops.get(t)
            if ab:
                out |= self.of_lin(ab[0]) | self.of_lin(ab[1])
            else:
                out.add(("unknown", "operands of %s" % t[1]))
        elif k in ("call", "icall", "fcall", "cast", "trunc"):
            e = self.by_term.get(t)
            if e is None:
                out.add(("unknown", "%s %s" % (k, t[1])))
            elif e.kind == "cast":
                out |= self.of_value(e.arg)
            else:
                out.add(("call", e.name))
                for a in e.args:
                    out |= self.of_value(a)
                for a in (getattr(e, "kwargs", None) or {}).values():
                    out |= self.of_value(a)
        elif k == "mcall":
            out.add(("call", "%s.%s" % (t[1], t[2])))
        elif k in ("var", "elem", "opq"):
            out.add(("unknown", "%s %s" % (k, t[1])))
        else:
            out.add(("unknown", repr(t)[:60]))
        self._memo[t] = out
        return out
