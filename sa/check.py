"""CLI:  python -m sa.check <Cnn> [--tier quick|thorough] [--replay FILE]

exit 0 = every obligation discharged (or a listed known finding)
exit 1 = VIOLATION lines printed
exit 2 = ANALYSIS-ERROR (vanished anchor, unreadable shape, internal error) -- never a VIOLATION
"""
from __future__ import annotations

import argparse
import json
import os
import sys
import time
import traceback
import warnings


def main(argv=None):
    warnings.simplefilter("ignore")          # SyntaxWarnings from the repository's docstrings
    ap = argparse.ArgumentParser()
    ap.add_argument("prop")
    ap.add_argument("--tier", default=os.environ.get("VERIF_TIER", "quick"), choices=["quick", "thorough"])
    ap.add_argument("--replay", default=None)
    a = ap.parse_args(argv)
    t0 = time.time()
    from .model import AnalysisError
    from .report import Ctx, finish
    from . import props
    prop = a.prop.upper()
    try:
        spec = props.PROPS.get(prop)
        if spec is None:
            print("ANALYSIS-ERROR unknown or unclaimed property %s" % prop)
            return 2
        ctx = Ctx(prop, a.tier)
        spec["run"](ctx)
        selftest = None
        extra = {}
        if a.tier == "thorough":
            from . import thorough
            selftest, extra = thorough.run(prop, ctx)
        if a.replay:
            with open(a.replay) as f:
                rp = json.load(f)
            hit = [o for o in ctx.obs if o.rule == rp.get("rule") and o.key == rp.get("key") and o.goal == rp.get("goal")]
            for o in hit:
                print("replay: [%s] %s -- %s => %s %s" % (o.rule, o.key, o.goal, o.status, o.detail))
            if not hit:
                print("replay: rule instance no longer present on this tree")
        return finish(ctx, spec["level"], spec["explanation"], t0, spec.get("trusted", ()), extra, selftest)
    except AnalysisError as e:
        print("ANALYSIS-ERROR %s: %s" % (prop, e))
        return 2
    except Exception:
        traceback.print_exc()
        print("ANALYSIS-ERROR %s: internal error in the checker (see traceback)" % prop)
        return 2


if __name__ == "__main__":
    sys.exit(main())
