"""setup_cmd: verify the analyser can start offline (stdlib only) and that /repo/sketchnu parses."""
import sys
import warnings


def main():
    warnings.simplefilter("ignore")
    assert sys.version_info >= (3, 9), sys.version
    from .model import Model
    m = Model()
    n = sum(1 for _ in m.all_funcs())
    print("sa selfcheck: python %s, %d modules, %d functions parsed" % (sys.version.split()[0], len(m.modules), n))
    return 0


if __name__ == "__main__":
    sys.exit(main())
