"""AST normalisation applied to every module before the rules see it: private, non-jitted helper methods/functions that are
called as a statement (or whose single trailing `return <expr>` is assigned/returned) are inlined at their call sites.

Purpose: "extract method" refactorings (a constructor's allocation block, a `__del__` release sequence, a merge guard moved into
`_check_same_parameters`) must not change any verdict.  The transformation is semantics preserving for the helpers it accepts:
  * the callee is a plain (not @njit, not @staticmethod/@property) private function/method (`_name`, not dunder), not recursive,
    without yield/await/global/nonlocal/nested defs;
  * it either never returns a value (bare `return` only as the LAST statement), or has exactly one `return <expr>` which is its
    last statement;
  * arguments are passed positionally or by keyword without * / **; defaults are honoured.
Locals of the callee are renamed apart.  Line numbers of the inlined statements stay those of the helper's definition.
"""
from __future__ import annotations

import ast
import copy
import itertools

_counter = itertools.count(1)


def _is_private(name):
    return name.startswith("_") and not (name.startswith("__") and name.endswith("__"))


def _decorators(fn):
    out = []
    for d in fn.decorator_list:
        n = d.func if isinstance(d, ast.Call) else d
        while isinstance(n, ast.Attribute):
            n = n.attr if isinstance(n.attr, ast.AST) else ast.Name(id=n.attr)
        out.append(getattr(n, "id", None))
    return out


def _is_bare_return(s):
    return isinstance(s, ast.Return) and (s.value is None or (isinstance(s.value, ast.Constant) and s.value.value is None))


def _eliminate_early_returns(stmts):
    """[..., if c: A; return, B...]  ->  [..., if c: A else: B...]   (bare returns only; applied recursively)."""
    out = []
    for i, s in enumerate(stmts):
        if isinstance(s, ast.If) and s.body and _is_bare_return(s.body[-1]) and not s.orelse and i + 1 < len(stmts):
            new = copy.copy(s)
            new.body = _eliminate_early_returns(s.body[:-1]) or [ast.copy_location(ast.Pass(), s)]
            new.orelse = _eliminate_early_returns(stmts[i + 1:])
            out.append(new)
            return out
        out.append(s)
    return out


def _eliminate_returns_deep(stmts, cont=()):
    """`stmts` followed by `cont`, with every bare `return` (at any depth of nested ifs) turned into "skip what follows": the
    continuation is copied into the branches that fall through.  None when a return sits inside a loop/try/with (not handled)."""
    if not stmts:
        return [copy.deepcopy(c) for c in cont]
    s, rest = stmts[0], list(stmts[1:])
    if _is_bare_return(s):
        return []
    has_ret = any(isinstance(n, ast.Return) for n in ast.walk(s))
    if not has_ret:
        tail = _eliminate_returns_deep(rest, cont)
        return None if tail is None else [s] + tail
    if isinstance(s, ast.If):
        tail = _eliminate_returns_deep(rest, cont)
        if tail is None:
            return None
        b = _eliminate_returns_deep(list(s.body), tail)
        o = _eliminate_returns_deep(list(s.orelse), tail)
        if b is None or o is None:
            return None
        new = copy.copy(s)
        new.body = b or [ast.copy_location(ast.Pass(), s)]
        new.orelse = o
        return [new]
    return None


def _guarded_try_returns(body):
    """In a procedure: `try: if not X: return  except E: return` followed by REST is `try: live = bool(X)  except E: live = False`
    followed by `if live: REST` -- X is evaluated and tested inside the `try` either way, and REST runs exactly when it was truthy."""
    for i, st in enumerate(body):
        if isinstance(st, ast.Try) and not st.finalbody and not st.orelse and st.handlers and len(st.body) == 1 \
                and isinstance(st.body[0], ast.If) and not st.body[0].orelse and len(st.body[0].body) == 1 and _is_bare_return(st.body[0].body[0]) \
                and all(len(h.body) == 1 and _is_bare_return(h.body[0]) and h.name is None for h in st.handlers) and i + 1 < len(body):
            t = st.body[0].test
            live = t.operand if isinstance(t, ast.UnaryOp) and isinstance(t.op, ast.Not) else ast.UnaryOp(op=ast.Not(), operand=t)
            if isinstance(t, ast.UnaryOp) and isinstance(t.op, ast.Not):
                live = ast.Call(func=ast.Name(id="bool", ctx=ast.Load()), args=[copy.deepcopy(live)], keywords=[])
            flag = "live__g%d" % next(_counter)
            mk = lambda v, at: ast.copy_location(ast.Assign(targets=[ast.Name(id=flag, ctx=ast.Store())], value=v), at)
            nt = ast.copy_location(ast.Try(body=[mk(live, st.body[0])], handlers=[], orelse=[], finalbody=[]), st)
            for h in st.handlers:
                h2 = copy.copy(h)
                h2.body = [mk(ast.Constant(value=False), h)]
                nt.handlers.append(h2)
            rest = _guarded_try_returns(list(body[i + 1:]))
            guard = ast.copy_location(ast.If(test=ast.Name(id=flag, ctx=ast.Load()), body=rest, orelse=[]), st)
            out = list(body[:i]) + [nt, guard]
            for x in out[i:]:
                ast.fix_missing_locations(x)
            return out
    return body


def _tail_loop_returns_to_breaks(body):
    """A bare `return` directly inside the loop that ends a procedure (not inside a nested loop) leaves exactly as `break` does."""
    if not body or not isinstance(body[-1], (ast.While, ast.For)) or body[-1].orelse:
        return body

    class T(ast.NodeTransformer):
        def visit_While(self, n):
            return n
        visit_For = visit_AsyncFor = visit_FunctionDef = visit_AsyncFunctionDef = visit_ClassDef = visit_Lambda = visit_While

        def visit_Return(self, n):
            return ast.copy_location(ast.Break(), n)
    loop = copy.deepcopy(body[-1])
    loop.body = [T().visit(s) for s in loop.body]
    return body[:-1] + [loop]


def _simple_body(fn, want_expr=False):
    """('none'|'value', body_without_return, return_expr) or None."""
    body = list(fn.body)
    if body and isinstance(body[0], ast.Expr) and isinstance(body[0].value, ast.Constant) and isinstance(body[0].value.value, str):
        body = body[1:]
    if all(_is_bare_return(n) for n in ast.walk(fn) if isinstance(n, ast.Return)):
        body = _tail_loop_returns_to_breaks(body)
        body = _guarded_try_returns(body)
        body = _eliminate_early_returns(body)
        if any(isinstance(n, ast.Return) for st in body for n in ast.walk(st)):
            deep = _eliminate_returns_deep(body)          # returns nested deeper than one `if`
            if deep is not None:
                body = deep or [ast.Pass()]
        if not any(isinstance(n, ast.Return) for st in body for n in ast.walk(st)):
            for n in ast.walk(fn):
                if isinstance(n, (ast.Yield, ast.YieldFrom, ast.Await, ast.Global, ast.Nonlocal, ast.Lambda)):
                    return None
                if isinstance(n, (ast.FunctionDef, ast.AsyncFunctionDef, ast.ClassDef)) and n is not fn:
                    return None
            return ("none", body, None)
    for n in ast.walk(fn):
        if isinstance(n, (ast.Yield, ast.YieldFrom, ast.Await, ast.Global, ast.Nonlocal, ast.Lambda)):
            return None
        if isinstance(n, (ast.FunctionDef, ast.AsyncFunctionDef, ast.ClassDef)) and n is not fn:
            return None
    rets = [n for n in ast.walk(fn) if isinstance(n, ast.Return)]
    if not rets:
        return ("none", body, None)
    last = body[-1] if body else None
    bv = None
    if len(body) >= 1 and not (len(body) == 1 and isinstance(body[0], ast.Return)):
        stored0 = {n.id for st in body for n in ast.walk(st) if isinstance(n, ast.Name) and isinstance(n.ctx, ast.Store)}
        if not (stored0 & {a.arg for a in fn.args.args}):
            bv = _block_value(body, {})
            # a decision tree over boolean leaves reads best as one and/or/not expression; a value-selecting tree stays statements
            if bv is not None and (want_expr or not any(isinstance(n, ast.IfExp) for n in ast.walk(bv))):
                return ("value", [], bv)
    if len(rets) == 1 and rets[0] is last:
        if last.value is None or (isinstance(last.value, ast.Constant) and last.value.value is None):
            return ("none", body[:-1], None)
        return ("value", body[:-1], last.value)
    if _always_returns(body):
        tmp = "ret__%s" % fn.name.strip("_")
        nb = _returns_to_assign(body, tmp)
        if nb is not None:
            return ("value", nb, ast.Name(id=tmp, ctx=ast.Load()))
    if bv is not None:
        return ("value", [], bv)
    return None


_PURE_CALLS = {"uint8", "uint16", "uint32", "uint64", "int8", "int16", "int32", "int64", "float32", "float64", "int", "float", "bool", "len",
               "isinstance", "min", "max", "abs"}


def _pure_expr(e):
    for n in ast.walk(e):
        if isinstance(n, ast.Call):
            f = n.func
            name = f.id if isinstance(f, ast.Name) else f.attr if isinstance(f, ast.Attribute) else None
            if name not in _PURE_CALLS:
                return False
        elif isinstance(n, (ast.Yield, ast.YieldFrom, ast.Await, ast.NamedExpr, ast.Lambda)):
            return False
    return True


def _bool_ifexp(test, a, b):
    """`a if test else b`, written with and/or/not when an arm is a boolean constant (same truth value)."""
    def const(x):
        return x.value if isinstance(x, ast.Constant) and isinstance(x.value, bool) else None
    ca, cb = const(a), const(b)
    if ca is True and cb is False:
        return test
    if ca is False and cb is True:
        return ast.UnaryOp(op=ast.Not(), operand=test)
    if ca is True:
        return ast.BoolOp(op=ast.Or(), values=[test, b])
    if ca is False:
        return ast.BoolOp(op=ast.And(), values=[ast.UnaryOp(op=ast.Not(), operand=test), b])
    if cb is False:
        return ast.BoolOp(op=ast.And(), values=[test, a])
    if cb is True:
        return ast.BoolOp(op=ast.Or(), values=[ast.UnaryOp(op=ast.Not(), operand=test), a])
    return ast.IfExp(test=test, body=a, orelse=b)


def _block_value(stmts, env):
    """The value a statement block returns, as one expression, when the block is a decision tree of `if`s whose leaves are
    `return <expr>` and whose only other statements are pure assignments to fresh locals (substituted).  None if not of that shape."""
    stmts = list(stmts)
    while stmts:
        s = stmts[0]
        if isinstance(s, ast.Expr) and isinstance(s.value, ast.Constant):
            stmts = stmts[1:]
            continue
        if isinstance(s, ast.Pass):
            stmts = stmts[1:]
            continue
        if isinstance(s, ast.Assign) and len(s.targets) == 1 and isinstance(s.targets[0], ast.Name) and _pure_expr(s.value):
            env = dict(env)
            env[s.targets[0].id] = _SubstEnv(env).visit(copy.deepcopy(s.value))
            stmts = stmts[1:]
            continue
        if isinstance(s, ast.If):
            pa = _phi_assign(s, env)
            if pa is not None:
                env = dict(env)
                env[pa[0]] = pa[1]
                stmts = stmts[1:]
                continue
        break
    if not stmts:
        return None
    s = stmts[0]
    if isinstance(s, ast.Return):
        v = s.value if s.value is not None else ast.Constant(value=None)
        return _SubstEnv(env).visit(copy.deepcopy(v))
    if isinstance(s, ast.If):
        test = _SubstEnv(env).visit(copy.deepcopy(s.test))
        if not _pure_expr(test):
            return None
        a = _block_value(s.body, env)
        if a is None:
            # the body falls through (e.g. only sets locals): not a decision tree
            return None
        b = _block_value(list(s.orelse) + stmts[1:], env) if not _always_returns(s.orelse) else _block_value(s.orelse, env)
        if b is None:
            return None
        return _bool_ifexp(test, a, b)
    return None


def _phi_assign(s, env):
    """(name, expr) when every arm of the `if` is exactly one pure assignment to the same local (an if/elif/else that selects a value)."""
    def arm(stmts):
        stmts = [x for x in stmts if not isinstance(x, ast.Pass)]
        if len(stmts) != 1:
            return None
        x = stmts[0]
        if isinstance(x, ast.Assign) and len(x.targets) == 1 and isinstance(x.targets[0], ast.Name) and _pure_expr(x.value):
            return x.targets[0].id, _SubstEnv(env).visit(copy.deepcopy(x.value))
        if isinstance(x, ast.If):
            return _phi_assign(x, env)
        return None
    test = _SubstEnv(env).visit(copy.deepcopy(s.test))
    if not _pure_expr(test):
        return None
    a = arm(s.body)
    if a is None:
        return None
    if s.orelse:
        b = arm(s.orelse)
    elif a[0] in env:
        b = (a[0], copy.deepcopy(env[a[0]]))     # `x = v0` ... `if c: x = v1`
    else:
        b = None
    if b is None or a[0] != b[0]:
        return None
    return a[0], _bool_ifexp(test, a[1], b[1])


def _always_returns(stmts):
    if not stmts:
        return False
    last = stmts[-1]
    if isinstance(last, (ast.Return, ast.Raise)):
        return True
    if isinstance(last, ast.If):
        return _always_returns(last.body) and _always_returns(last.orelse)
    if isinstance(last, ast.With):
        return _always_returns(last.body)
    if isinstance(last, ast.Try) and not last.finalbody and not last.orelse and last.handlers:
        return _always_returns(last.body) and all(_always_returns(h.body) for h in last.handlers)
    return False


class _SubstEnv(ast.NodeTransformer):
    def __init__(self, env):
        self.env = env

    def visit_Name(self, n):
        if isinstance(n.ctx, ast.Load) and n.id in self.env:
            return copy.deepcopy(self.env[n.id])
        return n


def _returns_to_assign(stmts, target):
    """Rewrite a block in which every `return e` is in tail position (after moving the statements that follow an always-returning
    `if` into its else-arm) so that it assigns `target = e` instead.  Returns the new block or None if a return is not in tail
    position (inside a loop / try / with)."""
    stmts = list(stmts)
    out = []
    for i, s in enumerate(stmts):
        last = i == len(stmts) - 1
        if isinstance(s, ast.Return):
            v = s.value if s.value is not None else ast.Constant(value=None)
            out.append(ast.copy_location(ast.Assign(targets=[ast.Name(id=target, ctx=ast.Store())], value=v), s))
            return out      # anything after a return is dead
        if isinstance(s, ast.If) and any(isinstance(n, ast.Return) for n in ast.walk(s)):
            rest = stmts[i + 1:]
            new = copy.copy(s)
            if _always_returns(s.body) and not _always_returns(s.orelse):
                body = _returns_to_assign(s.body, target)
                orelse = _returns_to_assign(list(s.orelse) + rest, target)
            elif _always_returns(s.orelse) and not _always_returns(s.body):
                body = _returns_to_assign(list(s.body) + rest, target)
                orelse = _returns_to_assign(s.orelse, target)
            elif _always_returns(s.body) and _always_returns(s.orelse):
                body = _returns_to_assign(s.body, target)
                orelse = _returns_to_assign(s.orelse, target)
            else:
                return None
            if body is None or orelse is None:
                return None
            new.body = body or [ast.copy_location(ast.Pass(), s)]
            new.orelse = orelse
            out.append(new)
            return out
        if isinstance(s, ast.With) and any(isinstance(n, ast.Return) for n in ast.walk(s)) and _always_returns(s.body):
            # `with cm: ...; return v` as the last thing the block does: the value is computed inside the block, the context manager
            # exits, the value is delivered -- the same as binding it inside and handing it on after the block
            inner = _returns_to_assign(s.body, target)
            if inner is None:
                return None
            new = copy.copy(s)
            new.body = inner or [ast.copy_location(ast.Pass(), s)]
            out.append(new)
            return out
        if isinstance(s, ast.Try) and not s.finalbody and not s.orelse and any(isinstance(n, ast.Return) for n in ast.walk(s)) \
                and _always_returns([s]):
            # `try: ...; return v  except E: ...; return w` as the last thing the block does: each value is computed where it was
            # (inside the try / inside the handler) and handed on after the statement
            nb = _returns_to_assign(s.body, target)
            hs = [(_returns_to_assign(h.body, target)) for h in s.handlers]
            if nb is None or any(x is None for x in hs):
                return None
            new = copy.copy(s)
            new.body = nb or [ast.copy_location(ast.Pass(), s)]
            new.handlers = []
            for h, hb in zip(s.handlers, hs):
                h2 = copy.copy(h)
                h2.body = hb or [ast.copy_location(ast.Pass(), h)]
                new.handlers.append(h2)
            out.append(new)
            return out
        if any(isinstance(n, ast.Return) for n in ast.walk(s)):
            return None
        out.append(s)
    return out


class _Subst(ast.NodeTransformer):
    def __init__(self, mapping, rename):
        self.mapping = mapping      # param name -> expression node (substituted on Load)
        self.rename = rename        # local name -> new name

    def visit_Name(self, n):
        if n.id in self.mapping and isinstance(n.ctx, ast.Load):
            return copy.deepcopy(self.mapping[n.id])
        if n.id in self.rename:
            return ast.copy_location(ast.Name(id=self.rename[n.id], ctx=n.ctx), n)
        return n

    star = {}

    def visit_Call(self, c):
        if self.star and any(isinstance(x, ast.Starred) and isinstance(x.value, ast.Name) and x.value.id in self.star for x in c.args):
            args = []
            for x in c.args:
                if isinstance(x, ast.Starred) and isinstance(x.value, ast.Name) and x.value.id in self.star:
                    args.extend(copy.deepcopy(y) for y in self.star[x.value.id])
                else:
                    args.append(x)
            c.args = args
        return self.generic_visit(c)


def _bind(fn, call, is_method):
    """param -> arg expression, or None if the call shape is not supported."""
    a = fn.args
    if a.kwarg or a.posonlyargs or a.kwonlyargs:
        return None
    va = a.vararg.arg if a.vararg else None
    if va is not None:
        # `*shape` that the helper only ever passes on as `f(*shape)`: the extra positional arguments take its place
        starred = {id(x.value) for c in ast.walk(fn) if isinstance(c, ast.Call) for x in c.args if isinstance(x, ast.Starred)}
        if any(isinstance(x, ast.Name) and x.id == va and (id(x) not in starred or not isinstance(x.ctx, ast.Load)) for x in ast.walk(fn)):
            return None
    params = [x.arg for x in a.args]
    if is_method:
        if not params:
            return None
        params = params[1:]
    if any(isinstance(x, ast.Starred) for x in call.args) or any(k.arg is None for k in call.keywords):
        return None
    if len(call.args) > len(params) and va is None:
        return None
    out = dict(zip(params, call.args))
    if va is not None:
        if call.keywords and len(call.args) > len(params):
            return None
        out["*" + va] = list(call.args[len(params):])
    for k in call.keywords:
        if k.arg not in params or k.arg in out:
            return None
        out[k.arg] = k.value
    defaults = dict(zip(params[len(params) - len(a.defaults):], a.defaults)) if a.defaults else {}
    for p in params:
        if p not in out:
            if p in defaults and not out.get("*" + str(va)):
                out[p] = defaults[p]
            else:
                return None
    return out


def _expand(fn, call, is_method, self_expr=None, want_expr=False):
    sb = _simple_body(fn, want_expr)
    if sb is None:
        return None
    kind, body, ret = sb
    binding = _bind(fn, call, is_method)
    if binding is None:
        return None
    k = next(_counter)
    stored = {n.id for s in list(fn.body) + list(body) for n in ast.walk(s) if isinstance(n, ast.Name) and isinstance(n.ctx, (ast.Store, ast.Del))}
    pre = []
    mapping = {}
    star, star_pre = {}, []          # (the extra positional arguments are evaluated after the named ones)
    for p in [p for p in binding if p.startswith("*")]:
        extras = []
        for i_, arg in enumerate(binding.pop(p)):
            if isinstance(arg, (ast.Name, ast.Constant)) or (isinstance(arg, ast.Attribute) and isinstance(arg.value, ast.Name)):
                extras.append(arg)
            else:
                tmp = "%s%d__inl%d" % (p[1:], i_, k)
                star_pre.append(ast.copy_location(ast.Assign(targets=[ast.Name(id=tmp, ctx=ast.Store())], value=copy.deepcopy(arg)), call))
                extras.append(ast.Name(id=tmp, ctx=ast.Load()))
        star[p[1:]] = extras
    for p, arg in binding.items():
        simple = isinstance(arg, (ast.Name, ast.Constant)) or (isinstance(arg, ast.Attribute) and isinstance(arg.value, ast.Name))
        # a tuple display of the caller's own names: the helper cannot rebind them, so the display means the same at every use
        simple = simple or (isinstance(arg, ast.Tuple) and arg.elts and all(isinstance(x, (ast.Name, ast.Constant)) for x in arg.elts))
        if simple and p not in stored:
            mapping[p] = arg
        else:
            tmp = "%s__inl%d" % (p, k)
            pre.append(ast.copy_location(ast.Assign(targets=[ast.Name(id=tmp, ctx=ast.Store())], value=copy.deepcopy(arg)), call))
            mapping[p] = ast.Name(id=tmp, ctx=ast.Load())
            if p in stored:
                stored = set(stored)
    pre.extend(star_pre)
    rename = {n: "%s__inl%d" % (n, k) for n in stored if n not in binding}
    # parameters that are assigned inside the helper behave like locals initialised from the temp
    for p in binding:
        if p in stored:
            rename[p] = mapping[p].id if isinstance(mapping[p], ast.Name) else p
            mapping.pop(p, None)
    if is_method and self_expr is not None:
        selfname = fn.args.args[0].arg
        if selfname != "self" or not (isinstance(self_expr, ast.Name) and self_expr.id == "self"):
            mapping[selfname] = self_expr
    sub = _Subst(mapping, rename)
    sub.star = star
    new_body = [sub.visit(copy.deepcopy(s)) for s in body]
    new_ret = sub.visit(copy.deepcopy(ret)) if ret is not None else None
    for s in pre + new_body:
        ast.fix_missing_locations(s)
    return kind, pre + new_body, new_ret


class Inliner:
    def __init__(self, tree):
        self.tree = tree
        self.funcs = {n.name: n for n in tree.body if isinstance(n, ast.FunctionDef)}
        self.classes = {n.name: n for n in tree.body if isinstance(n, ast.ClassDef)}
        self.changed = 0
        self.inlined_names = set()

    def methods_of(self, cname, seen=()):
        c = self.classes.get(cname)
        out = {}
        if c is None or cname in seen:
            return out
        for b in c.bases:
            if isinstance(b, ast.Name):
                out.update(self.methods_of(b.id, seen + (cname,)))
        for n in c.body:
            if isinstance(n, ast.FunctionDef):
                out[n.name] = n
        return out

    def eligible(self, fn, caller):
        if fn is caller or not _is_private(fn.name):
            return False
        decs = _decorators(fn)
        if any(d in ("njit", "jit", "classmethod", "property") for d in decs):
            return False
        # no (direct) recursion
        for n in ast.walk(fn):
            if isinstance(n, ast.Call):
                f = n.func
                if (isinstance(f, ast.Name) and f.id == fn.name) or (isinstance(f, ast.Attribute) and f.attr == fn.name):
                    return False
        return True

    def resolve(self, call, cls):
        f = call.func
        if isinstance(f, ast.Attribute) and isinstance(f.value, ast.Name) and f.value.id == "self" and cls is not None:
            m = self.methods_of(cls.name).get(f.attr)
            if m is not None and "staticmethod" in _decorators(m):
                return (m, False, None)
            return (m, True, f.value) if m is not None else None
        if isinstance(f, ast.Attribute) and isinstance(f.value, ast.Name) and f.value.id in self.classes:
            # `Class._helper(...)`: a private static method is a plain function kept in the class's namespace
            m = self.methods_of(f.value.id).get(f.attr)
            if m is not None and "staticmethod" in _decorators(m):
                return (m, False, None)
            # `Class._m(obj, ...)` on a plain method: looked up on the class it is an ordinary function taking `obj` as its first argument
            if m is not None and not (set(_decorators(m)) & {"classmethod", "property", "staticmethod"}) and call.args \
                    and not isinstance(call.args[0], ast.Starred):
                return (m, False, None)
            return None
        if isinstance(f, ast.Name) and f.id in self.funcs:
            return (self.funcs[f.id], False, None)
        return None

    def rewrite_block(self, stmts, cls, caller):
        out = []
        for s in stmts:
            if isinstance(s, ast.AugAssign) and isinstance(s.target, ast.Name) and isinstance(s.value, ast.Call) and self.resolve(s.value, cls) is not None \
                    and self.eligible(self.resolve(s.value, cls)[0], caller):
                # `x += _helper(...)` on a local: the helper runs, then the addition (a callee cannot rebind the caller's local)
                tmp = "hoisted__%s%d" % (self.resolve(s.value, cls)[0].name.strip("_"), next(_counter))
                pre = ast.copy_location(ast.Assign(targets=[ast.Name(id=tmp, ctx=ast.Store())], value=s.value), s)
                ast.fix_missing_locations(pre)
                rep = self.try_inline(pre, cls, caller)
                if rep is not None:
                    s.value = ast.copy_location(ast.Name(id=tmp, ctx=ast.Load()), s.value)
                    self.changed += 1
                    out.extend(rep)
                    out.append(s)
                    continue
            rep = self.try_inline(s, cls, caller)
            if rep is not None:
                self.changed += 1
                out.extend(rep)
                continue
            hz = self.hoist_nested(s, cls, caller)
            if hz is not None:
                self.changed += 1
                rep = self.try_inline(hz[0], cls, caller)
                out.extend(rep if rep is not None else [hz[0]])
                out.append(hz[1])
                continue
            self.inline_exprs(s, cls, caller)
            if isinstance(s, ast.If):
                # `if self._helper(a):` with a helper that is not one expression: evaluate it into a temporary first (the test is the
                # first thing the statement evaluates), where the statement-level inliner can expand it
                t = s.test
                neg = isinstance(t, ast.UnaryOp) and isinstance(t.op, ast.Not)
                c = t.operand if neg else t
                cmp_ = None
                if isinstance(c, ast.Compare) and isinstance(c.left, ast.Call) and all(isinstance(x, ast.Constant) for x in c.comparators):
                    # `if helper(a) is not None:` / `if helper(a) == 0:`: the call is the first thing the test evaluates
                    cmp_, c = c, c.left
                if isinstance(c, ast.Call) and self.resolve(c, cls) is not None:
                    fn_, is_m, self_e = self.resolve(c, cls)
                    simple = lambda a: isinstance(a, (ast.Name, ast.Constant)) or (isinstance(a, ast.Attribute) and simple(a.value))
                    if self.eligible(fn_, caller) and all(simple(a) for a in list(c.args) + [k.value for k in c.keywords]):
                        tmp = "hoisted__%s%d" % (fn_.name.strip("_"), next(_counter))
                        pre = ast.copy_location(ast.Assign(targets=[ast.Name(id=tmp, ctx=ast.Store())], value=c), s)
                        ast.fix_missing_locations(pre)
                        rep = self.try_inline(pre, cls, caller)
                        if rep is not None:
                            nm = ast.copy_location(ast.Name(id=tmp, ctx=ast.Load()), c)
                            if cmp_ is not None:
                                cmp_.left = nm
                                nm = cmp_
                            s.test = ast.copy_location(ast.UnaryOp(op=ast.Not(), operand=nm), t) if neg else nm
                            self.changed += 1
                            out.extend(rep)
            for fld in ("body", "orelse", "finalbody"):
                if hasattr(s, fld) and isinstance(getattr(s, fld), list) and not isinstance(s, (ast.FunctionDef, ast.ClassDef)):
                    setattr(s, fld, self.rewrite_block(getattr(s, fld), cls, caller))
            if isinstance(s, ast.Try):
                for h in s.handlers:
                    h.body = self.rewrite_block(h.body, cls, caller)
            out.append(s)
        return out

    def inline_exprs(self, s, cls, caller):
        """Calls to single-expression helpers (no statements left after conversion) with side-effect-free simple arguments are
        replaced by the helper's expression inside `if`/`while` tests, assignments and returns."""
        inl = self

        class T(ast.NodeTransformer):
            def visit_Call(self, c):
                self.generic_visit(c)
                r = inl.resolve(c, cls)
                if r is None:
                    return c
                fn, is_method, self_expr = r
                if not inl.eligible(fn, caller):
                    return c
                if not all(isinstance(a, (ast.Name, ast.Constant)) or (isinstance(a, ast.Attribute) and isinstance(a.value, ast.Name))
                           for a in list(c.args) + [k.value for k in c.keywords]):
                    return c
                ex = _expand(fn, c, is_method, self_expr, want_expr=True)
                if ex is None:
                    return c
                kind, body, ret = ex
                if kind != "value" or body or ret is None:
                    return c
                inl.inlined_names.add(fn.name)
                inl.changed += 1
                return ast.copy_location(ret, c)

            def visit_FunctionDef(self, n):
                return n

            visit_Lambda = visit_ClassDef = visit_AsyncFunctionDef = visit_FunctionDef

        t = T()
        if isinstance(s, (ast.If, ast.While)):
            s.test = t.visit(s.test)
        elif isinstance(s, (ast.Assign, ast.AnnAssign, ast.AugAssign, ast.Return, ast.Expr)) and getattr(s, "value", None) is not None:
            s.value = t.visit(s.value)
        elif isinstance(s, ast.Assert):
            s.test = t.visit(s.test)

    def hoist_nested(self, s, cls, caller):
        """`f(a, _helper(x), b)` as a statement / assigned / returned, with every other argument simple: the helper call is
        evaluated into a fresh temporary first (nothing else with an effect is evaluated in between)."""
        outer = None
        if isinstance(s, (ast.Expr, ast.Assign, ast.Return)) and isinstance(getattr(s, "value", None), ast.Call):
            outer = s.value
        if outer is None:
            return None

        def simple(a):
            return isinstance(a, (ast.Name, ast.Constant)) or (isinstance(a, ast.Attribute) and simple(a.value))
        args = list(outer.args) + [k.value for k in outer.keywords]
        cands = [a for a in args if isinstance(a, ast.Call) and self.resolve(a, cls) is not None]
        if len(cands) != 1 or not all(simple(a) for a in args if a is not cands[0]) or not simple(outer.func):
            return None
        inner = cands[0]
        fn, is_method, self_expr = self.resolve(inner, cls)
        if not self.eligible(fn, caller) or _simple_body(fn) is None:
            return None
        tmp = "hoisted__%s%d" % (fn.name.strip("_"), next(_counter))
        pre = ast.copy_location(ast.Assign(targets=[ast.Name(id=tmp, ctx=ast.Store())], value=inner), s)

        class R(ast.NodeTransformer):
            def visit_Call(self, c):
                if c is inner:
                    return ast.copy_location(ast.Name(id=tmp, ctx=ast.Load()), c)
                self.generic_visit(c)
                return c
        s2 = R().visit(s)
        ast.fix_missing_locations(pre)
        return [pre, s2]

    def try_inline(self, s, cls, caller):
        call = None
        mode = None
        if isinstance(s, ast.Expr) and isinstance(s.value, ast.Call):
            call, mode = s.value, "stmt"
        elif isinstance(s, ast.Assign) and len(s.targets) == 1 and isinstance(s.value, ast.Call):
            call, mode = s.value, "assign"
        elif isinstance(s, ast.Return) and isinstance(s.value, ast.Call):
            call, mode = s.value, "return"
        if call is None:
            return None
        r = self.resolve(call, cls)
        if r is None:
            return None
        fn, is_method, self_expr = r
        if not self.eligible(fn, caller):
            return None
        ex = _expand(fn, call, is_method, self_expr)
        if ex is None:
            return None
        kind, body, ret = ex
        self.inlined_names.add(fn.name)
        if mode == "stmt":
            return body if kind == "none" or ret is None else body + [ast.copy_location(ast.Expr(value=ret), s)]
        if kind != "value":
            return None
        if mode == "assign":
            return body + [ast.copy_location(ast.Assign(targets=s.targets, value=ret), s)]
        return body + [ast.copy_location(ast.Return(value=ret), s)]

    def run(self):
        for _ in range(3):
            before = self.changed
            for n in self.tree.body:
                if isinstance(n, ast.FunctionDef):
                    n.body = self.rewrite_block(n.body, None, n)
                elif isinstance(n, ast.ClassDef):
                    for m in n.body:
                        if isinstance(m, ast.FunctionDef):
                            m.body = self.rewrite_block(m.body, n, m)
            if self.changed == before:
                break
        ast.fix_missing_locations(self.tree)
        return self.changed


def _is_njit(fn):
    return any(d in ("njit", "jit") for d in _decorators(fn))


def _first_value_choice(expr, anytest=False):
    """The first `a or b` (a: plain name) / `u if a else v` (a: plain name) used as a value inside `expr`, outside lambdas and
    comprehensions and not inside another choice: (node, test, value-if-true, value-if-false)."""
    stack = [expr]
    while stack:
        n = stack.pop(0)
        if isinstance(n, (ast.Lambda, ast.ListComp, ast.SetComp, ast.DictComp, ast.GeneratorExp)):
            continue
        if isinstance(n, ast.BoolOp):
            if isinstance(n.op, ast.Or) and len(n.values) == 2 and isinstance(n.values[0], ast.Name) and n is not expr:
                return (n, n.values[0], n.values[0], n.values[1])
            continue
        if isinstance(n, ast.IfExp):
            if isinstance(n.test, ast.Name) and n is not expr:
                return (n, n.test, n.body, n.orelse)
            if anytest and n is not expr:
                return (n, n.test, n.body, n.orelse)
            # `u if a is None else v`: a test on a local's identity, which nothing evaluated earlier in the statement can change
            if isinstance(n.test, ast.Compare) and isinstance(n.test.left, ast.Name) and len(n.test.ops) == 1 \
                    and isinstance(n.test.ops[0], (ast.Is, ast.IsNot)) and isinstance(n.test.comparators[0], ast.Constant) \
                    and n.test.comparators[0].value is None and n is not expr:
                return (n, n.test, n.body, n.orelse)
            continue
        if isinstance(n, ast.Compare):
            continue
        stack.extend(ast.iter_child_nodes(n))
    return None


def _split_simple_statements(stmts):
    """`x: T = v` -> `x = v`;  `a, b = u, v` -> `a = u; b = v` (when no target is read on the right-hand side).  Recursive."""
    out = []
    for s in stmts:
        if isinstance(s, (ast.FunctionDef, ast.AsyncFunctionDef, ast.ClassDef)):
            out.append(s)
            continue
        if isinstance(s, ast.AnnAssign) and s.value is not None and isinstance(s.target, ast.Name):
            s = ast.copy_location(ast.Assign(targets=[s.target], value=s.value), s)
        if isinstance(s, ast.Assign) and len(s.targets) == 1 and isinstance(s.value, ast.IfExp) and (
                isinstance(s.targets[0], (ast.Name, ast.Attribute)) or
                (isinstance(s.targets[0], ast.Subscript) and not any(isinstance(x, ast.Call) for x in ast.walk(s.targets[0])))):
            # `x = a if c else b`  ->  `if c: x = a  else: x = b`
            ie = s.value
            mk = lambda v: ast.copy_location(ast.Assign(targets=[copy.deepcopy(s.targets[0])], value=v), s)
            s = ast.copy_location(ast.If(test=ie.test, body=[mk(ie.body)], orelse=[mk(ie.orelse)]), s)
            out.extend(_split_simple_statements([s]))
            continue
        if isinstance(s, ast.Assign) and len(s.targets) == 1 and isinstance(s.targets[0], (ast.Name, ast.Attribute)) \
                and not isinstance(s.value, (ast.IfExp, ast.BoolOp)):
            # `x = F(a or b)` / `x = F(u if a else v)` with a plain name `a`  ->  `if a: x = F(a) else: x = F(b)`
            sel = _first_value_choice(s.value)
            if sel is None and _pure_expr(s.value) and not any(isinstance(x, (ast.Subscript, ast.Attribute)) for x in ast.walk(s.value)):
                # scalar arithmetic over locals with a conditional operand somewhere inside: nothing is observable but the value
                sel = _first_value_choice(s.value, anytest=True)
            if sel is not None:
                node, test, yes, no = sel

                def _with(repl):
                    v = copy.deepcopy(s.value)
                    # deep copy loses identity: locate the node by position in a parallel walk
                    for a, b in zip(ast.walk(s.value), ast.walk(v)):
                        if a is node:
                            tgt = b
                            break
                    class R2(ast.NodeTransformer):
                        def visit(self, n):
                            if n is tgt:
                                return copy.deepcopy(repl)
                            return self.generic_visit(n)
                    return R2().visit(v)
                mk = lambda v: ast.copy_location(ast.Assign(targets=[copy.deepcopy(s.targets[0])], value=v), s)
                s2 = ast.copy_location(ast.If(test=copy.deepcopy(test), body=[mk(_with(yes))], orelse=[mk(_with(no))]), s)
                ast.fix_missing_locations(s2)
                out.extend(_split_simple_statements([s2]))
                continue
        if isinstance(s, ast.Return) and s.value is not None and not isinstance(s.value, (ast.IfExp, ast.BoolOp)) and _pure_expr(s.value) \
                and not any(isinstance(x, (ast.Subscript, ast.Attribute)) for x in ast.walk(s.value)):
            # `return a - (u if c else v)` over scalar locals -> `if c: return a - u  else: return a - v`
            sel = _first_value_choice(s.value, anytest=True)
            if sel is not None:
                node, test, yes, no = sel

                def _rwith(repl):
                    v = copy.deepcopy(s.value)
                    tgt = None
                    for a, b in zip(ast.walk(s.value), ast.walk(v)):
                        if a is node:
                            tgt = b
                            break

                    class R3(ast.NodeTransformer):
                        def visit(self, n):
                            if n is tgt:
                                return copy.deepcopy(repl)
                            return self.generic_visit(n)
                    return R3().visit(v)
                s2 = ast.copy_location(ast.If(test=copy.deepcopy(test), body=[ast.copy_location(ast.Return(value=_rwith(yes)), s)],
                                              orelse=[ast.copy_location(ast.Return(value=_rwith(no)), s)]), s)
                ast.fix_missing_locations(s2)
                out.extend(_split_simple_statements([s2]))
                continue
        if isinstance(s, ast.Return) and isinstance(s.value, ast.IfExp):
            ie = s.value
            s = ast.copy_location(ast.If(test=ie.test, body=[ast.copy_location(ast.Return(value=ie.body), s)],
                                         orelse=[ast.copy_location(ast.Return(value=ie.orelse), s)]), s)
            out.extend(_split_simple_statements([s]))
            continue
        if isinstance(s, ast.Assign) and len(s.targets) >= 2 and all(isinstance(t, ast.Name) for t in s.targets) \
                and isinstance(s.value, (ast.Constant, ast.Name)):
            # `a = b = c = None`  ->  three assignments of the same constant / name
            for t in s.targets:
                out.append(ast.copy_location(ast.Assign(targets=[t], value=copy.deepcopy(s.value)), s))
            continue
        if isinstance(s, ast.Assign) and len(s.targets) == 2 and isinstance(s.targets[1], ast.Name) and isinstance(s.targets[0], ast.Attribute) \
                and isinstance(s.targets[0].value, ast.Name):
            # `self.x = a = v`: the same two bindings, written with the attribute first
            s = ast.copy_location(ast.Assign(targets=[s.targets[1], s.targets[0]], value=s.value), s)
        if isinstance(s, ast.Assign) and len(s.targets) == 2 and isinstance(s.targets[0], ast.Name) and isinstance(s.targets[1], ast.Attribute) \
                and isinstance(s.targets[1].value, ast.Name):
            # `a = self.x = v`  ->  `self.x = v; a = self.x`   (a plain instance attribute reads back what was stored)
            t_attr = s.targets[1]
            out.append(ast.copy_location(ast.Assign(targets=[t_attr], value=s.value), s))
            load = ast.copy_location(ast.Attribute(value=copy.deepcopy(t_attr.value), attr=t_attr.attr, ctx=ast.Load()), s)
            out.append(ast.copy_location(ast.Assign(targets=[s.targets[0]], value=load), s))
            continue
        if isinstance(s, ast.Assign) and len(s.targets) == 1 and isinstance(s.targets[0], (ast.Tuple, ast.List)) \
                and isinstance(s.value, (ast.Tuple, ast.List)) and len(s.targets[0].elts) == len(s.value.elts) \
                and any(isinstance(t, ast.Attribute) for t in s.targets[0].elts) \
                and all(isinstance(t, ast.Name) or (isinstance(t, ast.Attribute) and isinstance(t.value, ast.Name)) for t in s.targets[0].elts) \
                and not any(isinstance(v, ast.Starred) for v in s.value.elts):
            # `self.a, self.b, x = u, v, w`: in order, when no right-hand side can observe an earlier target: it neither names it nor
            # calls a method of (or passes) the object whose attribute was just stored
            keys = [t.id if isinstance(t, ast.Name) else "%s.%s" % (t.value.id, t.attr) for t in s.targets[0].elts]
            objs = [None if isinstance(t, ast.Name) else t.value.id for t in s.targets[0].elts]

            def observes(v, upto):
                seen_keys, seen_objs = set(keys[:upto]), {o for o in objs[:upto] if o}
                for n in ast.walk(v):
                    if isinstance(n, ast.Name) and n.id in seen_keys:
                        return True
                    if isinstance(n, ast.Attribute) and isinstance(n.value, ast.Name) and "%s.%s" % (n.value.id, n.attr) in seen_keys:
                        return True
                    if isinstance(n, ast.Call):
                        f = n.func
                        if isinstance(f, ast.Attribute) and isinstance(f.value, ast.Name) and f.value.id in seen_objs:
                            return True          # a method of the object may read the attribute
                        if any(isinstance(a, ast.Name) and a.id in seen_objs for a in list(n.args) + [k.value for k in n.keywords]):
                            return True
                return False
            if len(set(keys)) == len(keys) and not any(observes(v, j) for j, v in enumerate(s.value.elts)):
                for t, v in zip(s.targets[0].elts, s.value.elts):
                    out.append(ast.copy_location(ast.Assign(targets=[t], value=v), s))
                continue
        if isinstance(s, ast.Assign) and len(s.targets) == 1 and isinstance(s.targets[0], (ast.Tuple, ast.List)) \
                and isinstance(s.value, (ast.Tuple, ast.List)) and len(s.targets[0].elts) == len(s.value.elts) \
                and all(isinstance(t, ast.Name) for t in s.targets[0].elts) and not any(isinstance(v, ast.Starred) for v in s.value.elts):
            tnames = {t.id for t in s.targets[0].elts}
            if len(tnames) == len(s.targets[0].elts):
                # all right-hand sides are evaluated before any target is bound: assigning in order is the same thing as long as no
                # right-hand side reads a target bound EARLIER in the list (`start, end = end, end + n` is fine); otherwise the
                # values go through fresh temporaries first
                tl = [t.id for t in s.targets[0].elts]
                reads = [{n.id for n in ast.walk(v) if isinstance(n, ast.Name)} for v in s.value.elts]
                in_order = all(not (set(tl[:j]) & reads[j]) for j in range(len(tl)))
                if in_order:
                    for t, v in zip(s.targets[0].elts, s.value.elts):
                        out.append(ast.copy_location(ast.Assign(targets=[t], value=v), s))
                else:
                    tmps = []
                    for t, v in zip(s.targets[0].elts, s.value.elts):
                        tmp = "swap__%s%d" % (t.id, next(_counter))
                        tmps.append(tmp)
                        out.append(ast.copy_location(ast.Assign(targets=[ast.Name(id=tmp, ctx=ast.Store())], value=v), s))
                    for t, tmp in zip(s.targets[0].elts, tmps):
                        out.append(ast.copy_location(ast.Assign(targets=[t], value=ast.Name(id=tmp, ctx=ast.Load())), s))
                    for x in out[-2 * len(tmps):]:
                        ast.fix_missing_locations(x)
                continue
        for fld in ("body", "orelse", "finalbody"):
            if hasattr(s, fld) and isinstance(getattr(s, fld), list):
                setattr(s, fld, _split_simple_statements(getattr(s, fld)))
        if isinstance(s, ast.Try):
            for h in s.handlers:
                h.body = _split_simple_statements(h.body)
        out.append(s)
    return out


_MODULE_STABLE = set()


def _module_stable_names(tree):
    cnt = {}
    for n in tree.body:
        names = []
        if isinstance(n, (ast.Import, ast.ImportFrom)):
            names = [(a.asname or a.name).split(".")[0] for a in n.names]
        elif isinstance(n, (ast.FunctionDef, ast.ClassDef)):
            names = [n.name]
        elif isinstance(n, ast.Assign):
            names = [t.id for t in n.targets if isinstance(t, ast.Name)]
            for nm in names:
                cnt[nm] = cnt.get(nm, 0) + 1        # a module-level variable: counted twice so that it is never taken as stable
        for nm in names:
            cnt[nm] = cnt.get(nm, 0) + 1
    out = {nm for nm, c in cnt.items() if c == 1}
    # a module-level name bound once to an immutable literal (number, string, tuple of such) and named in no `global` statement
    # denotes that one value everywhere: `_MERGE_ATTRS = ("width", "depth")`
    def immut(v):
        if isinstance(v, ast.Constant):
            return True
        return isinstance(v, ast.Tuple) and all(immut(e) for e in v.elts)
    globs = {g for n in ast.walk(tree) if isinstance(n, (ast.Global, ast.Nonlocal)) for g in n.names}
    globs |= {n.target.id for n in tree.body if isinstance(n, (ast.AugAssign, ast.AnnAssign)) and isinstance(n.target, ast.Name)}
    globs |= {t.id for n in tree.body if isinstance(n, (ast.For, ast.With, ast.If, ast.Try, ast.While)) for t in ast.walk(n)
              if isinstance(t, ast.Name) and isinstance(t.ctx, (ast.Store, ast.Del))}
    for n in tree.body:
        if isinstance(n, ast.Assign) and len(n.targets) == 1 and isinstance(n.targets[0], ast.Name) and immut(n.value):
            nm = n.targets[0].id
            if cnt.get(nm) == 2 and nm not in globs:
                out.add(nm)
    return out


def _copyable(v, stable, stored_attrs, line=None):
    """Name / attribute chain on a never-rebound name / constant: an expression whose value cannot change between the temporary's
    definition and its uses inside this function (the function stores to that attribute nowhere, or only in straight-line code
    before the temporary is defined)."""
    if isinstance(v, ast.Constant):
        return True
    if isinstance(v, ast.Name):
        return v.id in stable
    if isinstance(v, ast.Attribute):
        ln = getattr(v, "lineno", None) if line is None else line
        last = stored_attrs.get(v.attr)
        if last is not None and (last == "loop" or ln is None or last > ln):
            return False
        return _copyable(v.value, stable, stored_attrs, ln)
    # pure scalar arithmetic over copyable operands
    if isinstance(v, ast.BinOp) and isinstance(v.op, (ast.Add, ast.Sub, ast.Mult, ast.FloorDiv, ast.Mod, ast.LShift, ast.RShift, ast.BitAnd, ast.BitOr)):
        return _copyable(v.left, stable, stored_attrs, line) and _copyable(v.right, stable, stored_attrs, line)
    if isinstance(v, ast.UnaryOp) and isinstance(v.op, (ast.USub, ast.UAdd, ast.Not)):
        return _copyable(v.operand, stable, stored_attrs, line)
    if isinstance(v, ast.Call) and not v.keywords and len(v.args) == 1 and not isinstance(v.args[0], ast.Starred):
        f = v.func
        name = f.id if isinstance(f, ast.Name) else f.attr if isinstance(f, ast.Attribute) and isinstance(f.value, ast.Name) and f.value.id in ("np", "numpy") else None
        if name in ("int", "float", "bool", "len", "uint8", "uint16", "uint32", "uint64", "int8", "int16", "int32", "int64", "float32", "float64"):
            return _copyable(v.args[0], stable, stored_attrs, line)
    return False


def _propagate_copies(fn):
    """Loads of single-assignment locals that merely name a parameter, an attribute chain or a constant are replaced by that
    expression; `*t` in a call is expanded when t is such a local bound to a tuple display.  (Python functions only.)"""
    from .model import single_assignments
    sa = single_assignments(fn, allow_subscript=False, in_loops=True)
    if not sa:
        try:
            if not any(isinstance(v_, ast.Name) for v_ in single_assignments(fn, allow_subscript=False, in_loops=False, loose=True).values()):
                return 0
        except TypeError:
            return 0
    stored = set()
    stored_attrs = {}        # attr -> line of the last store, or "loop" when a store sits inside a loop
    dyn = False
    loop_spans = [(l.lineno, l.end_lineno) for l in ast.walk(fn) if isinstance(l, (ast.For, ast.While))]
    for n in ast.walk(fn):
        if isinstance(n, ast.Name) and isinstance(n.ctx, (ast.Store, ast.Del)):
            stored.add(n.id)
        elif isinstance(n, ast.Attribute) and isinstance(n.ctx, (ast.Store, ast.Del)):
            ln = getattr(n, "lineno", 0)
            if any(a_ <= ln <= b_ for a_, b_ in loop_spans) or stored_attrs.get(n.attr) == "loop":
                stored_attrs[n.attr] = "loop"
            else:
                stored_attrs[n.attr] = max(stored_attrs.get(n.attr, 0), ln)
        elif isinstance(n, ast.Call) and isinstance(n.func, ast.Name) and n.func.id in ("setattr", "delattr", "exec", "eval", "locals", "vars"):
            dyn = True
        elif isinstance(n, (ast.Global, ast.Nonlocal)):
            dyn = True
    if dyn:
        return 0
    params = {a.arg for a in fn.args.args + fn.args.kwonlyargs + fn.args.posonlyargs}
    stable = {p for p in params if p not in stored}
    # names the module binds once by import / def / class (np, types, a kernel, a sketch class): stable inside every function that
    # does not rebind them -- `dtype = np.uint16` is a name for np.uint16
    stable |= {n_ for n_ in _MODULE_STABLE if n_ not in stored and n_ not in params}
    # a local bound exactly once, outside every loop, denotes one value for the rest of the function: `b = a` is then a second name
    # for it (`fill_process = process`), whatever `a` was bound to
    try:
        once = single_assignments(fn, allow_subscript=False, in_loops=False, loose=True)
        stable |= set(once)
        for n_, v_ in once.items():
            # `b = a` with both bound once outside loops: b is a second name for the object a names, whatever a was built from
            if n_ not in sa and isinstance(v_, ast.Name) and v_.id in once and n_ not in params:
                sa[n_] = v_
    except TypeError:
        pass
    env = {}
    dict_env = {}        # single-use dict displays, expanded where they are splatted as **name
    uses = _name_uses(fn)
    changed = True
    while changed:
        changed = False
        for n, v in sa.items():
            if n in env or n in dict_env:
                continue
            if _copyable(v, stable | set(env), stored_attrs):
                env[n] = v
                changed = True
            elif isinstance(v, ast.Tuple) and all(_copyable(x, stable | set(env), stored_attrs) for x in v.elts):
                env[n] = v
                changed = True
            elif isinstance(v, ast.Call) and isinstance(v.func, ast.Name) and v.func.id == "range" and not v.keywords and v.args \
                    and all(_copyable(x, stable | set(env), stored_attrs) for x in v.args):
                env[n] = v          # an immutable, re-iterable range object
                changed = True
            elif isinstance(v, ast.Dict) and v.keys and all(isinstance(k, ast.Constant) and isinstance(k.value, str) for k in v.keys) \
                    and all(_copyable(x, stable | set(env), stored_attrs) for x in v.values) and uses.get(n, (0, 0))[1] == 1:
                dict_env[n] = v
                changed = True
    if not env and not dict_env:
        return 0
    count = [0]

    class T(ast.NodeTransformer):
        def visit_Name(self, n):
            if isinstance(n.ctx, ast.Load) and n.id in env:
                count[0] += 1
                return ast.copy_location(self.visit(copy.deepcopy(env[n.id])), n)
            return n

        def visit_Tuple(self, t):
            if isinstance(t.ctx, ast.Load):
                elts = []
                for a in t.elts:
                    if isinstance(a, ast.Starred) and isinstance(a.value, ast.Name) and isinstance(env.get(a.value.id), ast.Tuple):
                        count[0] += 1
                        elts.extend(copy.deepcopy(x) for x in env[a.value.id].elts)
                    else:
                        elts.append(a)
                t.elts = elts
            self.generic_visit(t)
            return t

        visit_List = visit_Tuple

        def visit_Call(self, c):
            new_args = []
            for a in c.args:
                if isinstance(a, ast.Starred) and isinstance(a.value, ast.Name) and isinstance(env.get(a.value.id), ast.Tuple):
                    count[0] += 1
                    new_args.extend(copy.deepcopy(x) for x in env[a.value.id].elts)
                else:
                    new_args.append(a)
            c.args = new_args
            kws = []
            for k in c.keywords:
                if k.arg is None and isinstance(k.value, ast.Name) and k.value.id in dict_env:
                    d = dict_env[k.value.id]
                    kws.extend(ast.keyword(arg=x.value, value=copy.deepcopy(v)) for x, v in zip(d.keys, d.values))
                    count[0] += 1
                else:
                    kws.append(k)
            c.keywords = kws
            self.generic_visit(c)
            return c

        def visit_FunctionDef(self, n):
            return n

        visit_Lambda = visit_ClassDef = visit_AsyncFunctionDef = visit_FunctionDef

    t = T()
    fn.body = [t.visit(s) for s in fn.body]
    return count[0]


import re as _re
_HOISTED_CONTAINER = _re.compile(r"__r\d+c\d+$")      # names made by _hoist_fresh_containers_in_tables: they must stay names


def _inline_adjacent_single_use(stmts, uses):
    """`t = <expr>` immediately followed by the only statement that reads t (once, and not inside a loop/branch body of it):
    the expression replaces the read.  Evaluation order is unchanged because nothing runs in between."""
    out = []
    i = 0
    changed = 0
    while i < len(stmts):
        s = stmts[i]
        nxt = stmts[i + 1] if i + 1 < len(stmts) else None
        if (isinstance(s, ast.Assign) and len(s.targets) == 1 and isinstance(s.targets[0], ast.Name) and nxt is not None
                and uses.get(s.targets[0].id) == (1, 1) and isinstance(nxt, (ast.Assign, ast.Expr, ast.Return, ast.AugAssign, ast.AnnAssign))
                and not _HOISTED_CONTAINER.search(s.targets[0].id)):
            name = s.targets[0].id
            loads = [n for n in ast.walk(nxt) if isinstance(n, ast.Name) and n.id == name and isinstance(n.ctx, ast.Load)]
            inside_lambda = any(isinstance(n, (ast.Lambda, ast.ListComp, ast.SetComp, ast.DictComp, ast.GeneratorExp)) for n in ast.walk(nxt))
            if len(loads) == 1 and not inside_lambda:
                class R(ast.NodeTransformer):
                    def visit_Name(self, n):
                        if n is loads[0]:
                            return copy.deepcopy(s.value)
                        return n
                stmts[i + 1] = R().visit(nxt)
                changed += 1
                i += 1
                continue
        if (isinstance(s, ast.Assign) and len(s.targets) == 1 and isinstance(s.targets[0], ast.Name) and isinstance(nxt, ast.For)
                and uses.get(s.targets[0].id) == (1, 1) and isinstance(nxt.iter, ast.Name) and nxt.iter.id == s.targets[0].id
                and not _HOISTED_CONTAINER.search(s.targets[0].id)):
            # `it = <expr>; for x in it:` -- the iterable is the next thing evaluated, once
            nxt.iter = copy.deepcopy(s.value)
            changed += 1
            i += 1
            continue
        if (isinstance(s, ast.Assign) and len(s.targets) == 1 and isinstance(s.targets[0], ast.Name) and isinstance(nxt, (ast.Assign, ast.Return, ast.Expr))
                and uses.get(s.targets[0].id) == (1, 1) and isinstance(s.value, ast.Tuple) and s.value.elts and nxt.value is not None
                and all(_atom_elt(e) for e in s.value.elts) and not any(isinstance(n, ast.NamedExpr) for n in ast.walk(nxt.value))):
            # `rows = (<atoms>); x = next((c for d, c in rows if ...), None)`
            name = s.targets[0].id
            loads = [n for n in ast.walk(nxt.value) if isinstance(n, ast.Name) and n.id == name and isinstance(n.ctx, ast.Load)]
            iters = [g.iter for n in ast.walk(nxt.value) if isinstance(n, (ast.GeneratorExp, ast.ListComp, ast.DictComp, ast.SetComp)) for g in n.generators[:1]]
            if len(loads) == 1 and any(loads[0] is it for it in iters):
                class R4(ast.NodeTransformer):
                    def visit_Name(self, n):
                        if n is loads[0]:
                            return copy.deepcopy(s.value)
                        return n
                nxt.value = R4().visit(nxt.value)
                changed += 1
                i += 1
                continue
        if (isinstance(s, ast.Assign) and len(s.targets) == 1 and isinstance(s.targets[0], ast.Name) and isinstance(nxt, ast.If)
                and uses.get(s.targets[0].id) == (1, 1) and isinstance(s.value, ast.Tuple) and s.value.elts
                and all(_atom_elt(e) for e in s.value.elts) and not any(isinstance(n, ast.NamedExpr) for n in ast.walk(nxt.test))):
            # `t = (<atoms>); if any(f() for f in t):` -- a display of atoms means the same wherever in the test it is read
            name = s.targets[0].id
            loads = [n for n in ast.walk(nxt.test) if isinstance(n, ast.Name) and n.id == name and isinstance(n.ctx, ast.Load)]
            elsewhere = [n for b in nxt.body + nxt.orelse for n in ast.walk(b) if isinstance(n, ast.Name) and n.id == name]
            iters = [g.iter for n in ast.walk(nxt.test) if isinstance(n, (ast.GeneratorExp, ast.ListComp)) for g in n.generators[:1]]
            if len(loads) == 1 and not elsewhere and any(loads[0] is it for it in iters):
                class R3(ast.NodeTransformer):
                    def visit_Name(self, n):
                        if n is loads[0]:
                            return copy.deepcopy(s.value)
                        return n
                nxt.test = R3().visit(nxt.test)
                changed += 1
                i += 1
                continue
        if (isinstance(s, ast.Assign) and len(s.targets) == 1 and isinstance(s.targets[0], ast.Name) and isinstance(nxt, ast.If)
                and uses.get(s.targets[0].id) == (1, 1)):
            # `t = <expr>; if <test reading t once>:`  -- the test is the next thing evaluated
            name = s.targets[0].id
            loads = [n for n in ast.walk(nxt.test) if isinstance(n, ast.Name) and n.id == name and isinstance(n.ctx, ast.Load)]
            elsewhere = [n for b in nxt.body + nxt.orelse for n in ast.walk(b) if isinstance(n, ast.Name) and n.id == name]
            first = next((n for n in ast.walk(nxt.test) if isinstance(n, (ast.Name, ast.Call, ast.Attribute, ast.Subscript))), None)
            simple_test = isinstance(nxt.test, ast.Name) or (isinstance(nxt.test, ast.UnaryOp) and isinstance(nxt.test.operand, ast.Name)) \
                or (isinstance(nxt.test, ast.Compare) and isinstance(nxt.test.left, ast.Name) and nxt.test.left.id == name)
            if len(loads) == 1 and not elsewhere and simple_test and not any(isinstance(n, (ast.Lambda, ast.ListComp, ast.GeneratorExp)) for n in ast.walk(nxt.test)):
                class R2(ast.NodeTransformer):
                    def visit_Name(self, n):
                        if n is loads[0]:
                            return copy.deepcopy(s.value)
                        return n
                nxt.test = R2().visit(nxt.test)
                changed += 1
                i += 1
                continue
        for fld in ("body", "orelse", "finalbody"):
            if hasattr(s, fld) and isinstance(getattr(s, fld), list) and not isinstance(s, (ast.FunctionDef, ast.ClassDef)):
                nb, c = _inline_adjacent_single_use(getattr(s, fld), uses)
                setattr(s, fld, nb)
                changed += c
        if isinstance(s, ast.Try):
            for h in s.handlers:
                h.body, c = _inline_adjacent_single_use(h.body, uses)
                changed += c
        out.append(s)
        i += 1
    return out, changed


_MODULE_ROW_TABLES = {}


def _module_row_tables(tree):
    """Module-level `NAME = ((a, b, ...), ...)` bound once, never mutated, never named in a `global` statement, whose rows are tuples of
    literals, `np.<name>` dotted names, module-level def/class names and nested tuples of those: name -> list of row nodes."""
    stores = {}
    for n in ast.walk(tree):
        if isinstance(n, ast.Name) and isinstance(n.ctx, (ast.Store, ast.Del)):
            stores[n.id] = stores.get(n.id, 0) + 1
    globs = {g for n in ast.walk(tree) if isinstance(n, (ast.Global, ast.Nonlocal)) for g in n.names}
    defs = {n.name for n in tree.body if isinstance(n, (ast.FunctionDef, ast.ClassDef))}
    # names bound by a module-level `from m import f` (and nowhere else) denote what was imported
    defs |= {(a.asname or a.name) for n in tree.body if isinstance(n, ast.ImportFrom) for a in n.names if a.name != "*"}

    def cell(e):
        if isinstance(e, ast.Constant):
            return True
        if isinstance(e, ast.Tuple):
            return all(cell(x) for x in e.elts)
        d = _dotted_name(e)
        if d is not None:
            return d.split(".")[0] in ("np", "numpy") or (d in defs and stores.get(d, 0) == 0)
        return False
    out = {}
    for n in tree.body:
        if isinstance(n, ast.Assign) and len(n.targets) == 1 and isinstance(n.targets[0], ast.Name) and isinstance(n.value, ast.Tuple) and n.value.elts \
                and all(isinstance(r, ast.Tuple) and r.elts and cell(r) for r in n.value.elts):
            nm = n.targets[0].id
            if stores.get(nm) == 1 and nm not in globs:
                out[nm] = list(n.value.elts)
    return out


def _module_const_tuples(tree):
    """Module-level `NAME = (<literals>)` that is bound once and never mutated: name -> list of constant nodes."""
    out = {}
    stores = {}
    for n in ast.walk(tree):
        if isinstance(n, ast.Name) and isinstance(n.ctx, (ast.Store, ast.Del)):
            stores[n.id] = stores.get(n.id, 0) + 1
    def const_elts(v):
        """elements of a constant tuple expression: a display of literals, an earlier constant table, or a concatenation of those"""
        if isinstance(v, (ast.Tuple, ast.List)) and v.elts and all(isinstance(e, ast.Constant) and isinstance(e.value, (str, int)) for e in v.elts):
            return list(v.elts)
        if isinstance(v, ast.Name) and v.id in out:
            return list(out[v.id])
        if isinstance(v, ast.BinOp) and isinstance(v.op, ast.Add):
            a, b = const_elts(v.left), const_elts(v.right)
            if a is not None and b is not None and isinstance(v.left, (ast.Tuple, ast.Name, ast.BinOp, ast.Subscript)) \
                    and isinstance(v.right, (ast.Tuple, ast.Name, ast.BinOp, ast.Subscript)):
                return a + b
        # a constant slice of a constant tuple: `NAMES[:2]`, `NAMES[1:]`
        if isinstance(v, ast.Subscript) and isinstance(v.slice, ast.Slice) and v.slice.step is None:
            base = const_elts(v.value)
            lo, hi = v.slice.lower, v.slice.upper
            def cint(x):
                if x is None:
                    return None
                if isinstance(x, ast.Constant) and isinstance(x.value, int) and not isinstance(x.value, bool):
                    return x.value
                if isinstance(x, ast.UnaryOp) and isinstance(x.op, ast.USub) and isinstance(x.operand, ast.Constant) and isinstance(x.operand.value, int):
                    return -x.operand.value
                return "?"
            l_, h_ = cint(lo), cint(hi)
            if base is not None and l_ != "?" and h_ != "?":
                return base[l_:h_]
        return None
    for n in tree.body:
        if isinstance(n, ast.Assign) and len(n.targets) == 1 and isinstance(n.targets[0], ast.Name):
            name = n.targets[0].id
            ce = const_elts(n.value)
            if ce is not None and stores.get(name) == 1:
                out[name] = ce
    # a mutating use (NAME.append, NAME[i] = ...) disqualifies
    for n in ast.walk(tree):
        if isinstance(n, ast.Attribute) and isinstance(n.value, ast.Name) and n.value.id in out and n.attr in ("append", "extend", "insert", "pop", "remove", "sort", "reverse", "clear"):
            out.pop(n.value.id, None)
        if isinstance(n, ast.Subscript) and isinstance(n.ctx, (ast.Store, ast.Del)) and isinstance(n.value, ast.Name) and n.value.id in out:
            out.pop(n.value.id, None)
    return out


class _ConstSubst(ast.NodeTransformer):
    def __init__(self, name, const):
        self.name, self.const = name, const

    def visit_Name(self, n):
        if n.id == self.name and isinstance(n.ctx, ast.Load):
            return ast.copy_location(copy.deepcopy(self.const), n)
        return n


def _static_expand(fn, consts):
    """Loops and comprehensions over a module-level constant tuple are unrolled; getattr/setattr with a literal name become
    attribute accesses; `**{'k': v, ...}` becomes keywords.  (What a table-driven save/load does, written out.)"""
    changed = [0]

    local_tables_ref = [None]

    def unroll_stmts(stmts):
        out = []
        for s in stmts:
            if isinstance(s, (ast.FunctionDef, ast.AsyncFunctionDef, ast.ClassDef)):
                out.append(s)
                continue
            for fld in ("body", "orelse", "finalbody"):
                if hasattr(s, fld) and isinstance(getattr(s, fld), list):
                    setattr(s, fld, unroll_stmts(getattr(s, fld)))
            if isinstance(s, ast.Try):
                for h in s.handlers:
                    h.body = unroll_stmts(h.body)
            if isinstance(s, ast.For) and isinstance(s.iter, ast.Name) and s.iter.id in consts and isinstance(s.target, ast.Name) and not s.orelse \
                    and not any(isinstance(x, (ast.Break, ast.Continue)) for x in ast.walk(s)) \
                    and not any(isinstance(x, ast.Name) and x.id == s.target.id and isinstance(x.ctx, ast.Store) for b in s.body for x in ast.walk(b)):
                for c in consts[s.iter.id]:
                    for b in s.body:
                        out.append(_ConstSubst(s.target.id, c).visit(copy.deepcopy(b)))
                changed[0] += 1
                continue
            out.append(s)
        return out

    class E(ast.NodeTransformer):
        def comp(self, n, make):
            self.generic_visit(n)
            if len(n.generators) == 1 and not n.generators[0].ifs and not n.generators[0].is_async and isinstance(n.generators[0].iter, ast.Name) \
                    and n.generators[0].iter.id in consts and isinstance(n.generators[0].target, ast.Name):
                g = n.generators[0]
                changed[0] += 1
                return self.visit(ast.copy_location(make([c for c in consts[g.iter.id]], g.target.id), n))
            return n

        def visit_ListComp(self, n):
            # `[f(a[i]) for i, f in enumerate(TABLE)]` / `[g(x) for x in TABLE]` with TABLE a module constant, a local constant table
            # or a literal display of at most 8 rows: the display of its elements
            r = self.comp(n, lambda cs, v: ast.List(elts=[_ConstSubst(v, c).visit(copy.deepcopy(n.elt)) for c in cs], ctx=ast.Load()))
            if r is not n or len(n.generators) != 1 or n.generators[0].ifs or n.generators[0].is_async:
                return r
            g = n.generators[0]
            it, enum = g.iter, False
            if isinstance(it, ast.Call) and isinstance(it.func, ast.Name) and it.func.id == "enumerate" and len(it.args) == 1 and not it.keywords:
                it, enum = it.args[0], True
            lt = local_tables_ref[0] or {}
            rows = consts.get(it.id) if isinstance(it, ast.Name) and it.id in consts else \
                lt.get(it.id) if isinstance(it, ast.Name) and it.id in lt else \
                list(it.elts) if isinstance(it, (ast.Tuple, ast.List)) and 0 < len(it.elts) <= 8 and all(
                    isinstance(e, (ast.Constant, ast.Name, ast.Attribute)) for e in it.elts) else None
            if rows is None or len(rows) > 8:
                return n
            tg = g.target
            if enum:
                if not (isinstance(tg, (ast.Tuple, ast.List)) and len(tg.elts) == 2 and all(isinstance(t, ast.Name) for t in tg.elts)):
                    return n
                names = [tg.elts[0].id, tg.elts[1].id]
                vals = [[ast.Constant(value=i), r_] for i, r_ in enumerate(rows)]
            elif isinstance(tg, ast.Name):
                names = [tg.id]
                vals = [[r_] for r_ in rows]
            else:
                return n
            elts = []
            for vs in vals:
                e = copy.deepcopy(n.elt)
                for nm, v in zip(names, vs):
                    e = _ConstSubst(nm, v).visit(e)
                elts.append(e)
            changed[0] += 1
            return ast.copy_location(ast.List(elts=elts, ctx=ast.Load()), n)

        def visit_DictComp(self, n):
            return self.comp(n, lambda cs, v: ast.Dict(keys=[_ConstSubst(v, c).visit(copy.deepcopy(n.key)) for c in cs],
                                                       values=[_ConstSubst(v, c).visit(copy.deepcopy(n.value)) for c in cs]))

        def visit_Call(self, c):
            # any(f(x) for x in TABLE) / all(...)  ->  f(a) or f(b) or ...   (same evaluation order, same short circuit, same truth value)
            if isinstance(c.func, ast.Name) and c.func.id in ("any", "all") and len(c.args) == 1 and not c.keywords \
                    and isinstance(c.args[0], (ast.GeneratorExp, ast.ListComp)) and len(c.args[0].generators) == 1:
                g = c.args[0].generators[0]
                rows_ = consts[g.iter.id] if isinstance(g.iter, ast.Name) and g.iter.id in consts else \
                    list(g.iter.elts) if isinstance(g.iter, (ast.Tuple, ast.List)) and 2 <= len(g.iter.elts) <= 8 and all(
                        isinstance(e_, ast.Constant) for e_ in g.iter.elts) else None
                if not g.ifs and not g.is_async and rows_ is not None and isinstance(g.target, ast.Name) \
                        and len(rows_) >= 2 and isinstance(c.args[0], ast.GeneratorExp):
                    vals = [_ConstSubst(g.target.id, k).visit(copy.deepcopy(c.args[0].elt)) for k in rows_]
                    changed[0] += 1
                    return self.visit(ast.copy_location(ast.BoolOp(op=ast.Or() if c.func.id == "any" else ast.And(), values=vals), c))
            # f(*(g(x) for x in TABLE), ...) / f(*[g(x) for x in TABLE]) / f(*tuple(g(x) for x in TABLE)): the elements written out as
            # positional arguments (same evaluation order: the generator is exhausted where the star is evaluated)
            if any(isinstance(a, ast.Starred) for a in c.args):
                new_args = []
                for a in c.args:
                    v = a.value if isinstance(a, ast.Starred) else None
                    if isinstance(v, ast.Call) and isinstance(v.func, ast.Name) and v.func.id in ("tuple", "list") and len(v.args) == 1 and not v.keywords:
                        v = v.args[0]
                    if isinstance(v, (ast.GeneratorExp, ast.ListComp)) and len(v.generators) == 1:
                        g = v.generators[0]
                        rows_ = consts[g.iter.id] if isinstance(g.iter, ast.Name) and g.iter.id in consts else \
                            list(g.iter.elts) if isinstance(g.iter, (ast.Tuple, ast.List)) and 1 <= len(g.iter.elts) <= 12 and all(
                                isinstance(e_, ast.Constant) for e_ in g.iter.elts) else None
                        if rows_ is not None and not g.ifs and not g.is_async and isinstance(g.target, ast.Name) and len(rows_) <= 12:
                            new_args.extend(_ConstSubst(g.target.id, k).visit(copy.deepcopy(v.elt)) for k in rows_)
                            changed[0] += 1
                            continue
                    new_args.append(a)
                c.args = new_args
            self.generic_visit(c)
            f = c.func
            if isinstance(f, ast.Name) and f.id == "getattr" and len(c.args) == 2 and not c.keywords and isinstance(c.args[1], ast.Constant) \
                    and isinstance(c.args[1].value, str) and c.args[1].value.isidentifier():
                changed[0] += 1
                return ast.copy_location(ast.Attribute(value=c.args[0], attr=c.args[1].value, ctx=ast.Load()), c)
            kws = []
            for k in c.keywords:
                if k.arg is None and isinstance(k.value, ast.Dict) and all(isinstance(x, ast.Constant) and isinstance(x.value, str) for x in k.value.keys):
                    kws.extend(ast.keyword(arg=x.value, value=v) for x, v in zip(k.value.keys, k.value.values))
                    changed[0] += 1
                else:
                    kws.append(k)
            c.keywords = kws
            return c

        def visit_FunctionDef(self, n):
            return n

        visit_Lambda = visit_ClassDef = visit_AsyncFunctionDef = visit_FunctionDef

    # local table: a single-assignment tuple display of rows built from constants and names the function never rebinds
    from .model import single_assignments
    stored_names = {n.id for n in ast.walk(fn) if isinstance(n, ast.Name) and isinstance(n.ctx, (ast.Store, ast.Del))}
    store_counts = {}
    for n_ in ast.walk(fn):
        if isinstance(n_, ast.Name) and isinstance(n_.ctx, (ast.Store, ast.Del)):
            store_counts[n_.id] = store_counts.get(n_.id, 0) + 1
    # (a parameter the body never rebinds denotes one object for the whole call; an attribute of it is stable when the function
    # stores to no attribute of that name and calls nothing on the object in between is not tracked: rows are read once, at the loop)
    stored_attrs_ = {n.attr for n in ast.walk(fn) if isinstance(n, ast.Attribute) and isinstance(n.ctx, (ast.Store, ast.Del))}
    stored_attrs_ |= {c.args[1].value for c in ast.walk(fn) if isinstance(c, ast.Call) and isinstance(c.func, ast.Name) and c.func.id == "setattr"
                      and len(c.args) == 3 and isinstance(c.args[1], ast.Constant) and isinstance(c.args[1].value, str)}
    dyn_setattr = any(isinstance(c, ast.Call) and isinstance(c.func, ast.Name) and c.func.id == "setattr" and len(c.args) == 3
                      and not isinstance(c.args[1], ast.Constant) for c in ast.walk(fn))

    def stable_expr(x):
        if isinstance(x, ast.Constant):
            return True
        if isinstance(x, ast.Name):
            # (a container hoisted out of this very table is bound once, just before it: the name denotes that one object)
            return x.id not in stored_names or (_HOISTED_CONTAINER.search(x.id) is not None and store_counts.get(x.id) == 1)
        if isinstance(x, ast.Attribute):
            return stable_expr(x.value) and x.attr not in stored_attrs_
        if isinstance(x, ast.Tuple):
            # (a list / dict / set display is a fresh MUTABLE object: substituting the display for a name that denotes it would create
            # a new object at every use -- only immutable displays are rows or row elements)
            return all(stable_expr(y) for y in x.elts)
        return False
    local_tables = {}
    sa_once = single_assignments(fn, in_loops=False, loose=True)

    def as_tuple_elts(x, depth=0):
        """elements of a tuple-valued expression built from displays, `+`, and locals bound once to such expressions"""
        if depth > 4:
            return None
        if isinstance(x, ast.Tuple) and not any(isinstance(e, ast.Starred) for e in x.elts):
            return list(x.elts)
        if isinstance(x, ast.BinOp) and isinstance(x.op, ast.Add):
            l, r = as_tuple_elts(x.left, depth + 1), as_tuple_elts(x.right, depth + 1)
            return l + r if l is not None and r is not None else None
        if isinstance(x, ast.Name) and x.id in sa_once and store_counts.get(x.id) == 1:
            return as_tuple_elts(sa_once[x.id], depth + 1)
        return None

    def resolve_row(r):
        # a row whose cells are tuple arithmetic (`plane + (self.max_key_len,)`) is read with those cells written out
        if not isinstance(r, ast.Tuple):
            return r
        cells = []
        for e in r.elts:
            if isinstance(e, (ast.BinOp, ast.Name)):
                te = as_tuple_elts(e) if not (isinstance(e, ast.Name) and e.id not in sa_once) else None
                if te is not None and isinstance(e, ast.BinOp) or (te is not None and isinstance(e, ast.Name) and isinstance(sa_once.get(e.id), (ast.Tuple, ast.BinOp))):
                    cells.append(ast.copy_location(ast.Tuple(elts=[copy.deepcopy(t_) for t_ in te], ctx=ast.Load()), e))
                    continue
            cells.append(e)
        return ast.copy_location(ast.Tuple(elts=cells, ctx=ast.Load()), r)
    for name, v in sa_once.items():
        if isinstance(v, ast.Tuple) and v.elts and all(isinstance(r, (ast.Tuple, ast.Constant, ast.Name, ast.Attribute)) for r in v.elts):
            v2 = ast.copy_location(ast.Tuple(elts=[resolve_row(r) for r in v.elts], ctx=ast.Load()), v)
            if stable_expr(v2):
                local_tables[name] = list(v2.elts)

    def strip_top_continue(body):
        """`if T: continue; rest` at the top level of a loop body -> `if not T: rest` (None if a break/continue remains elsewhere)."""
        out = []
        for i_, b in enumerate(body):
            if isinstance(b, ast.Try) and not b.finalbody and b.handlers and all(len(h.body) == 1 and isinstance(h.body[0], ast.Continue) for h in b.handlers) \
                    and not any(isinstance(x, (ast.Break, ast.Continue)) for st_ in b.body + b.orelse for x in ast.walk(st_)):
                # `try: A  except E: continue` + rest  ->  `try: A  except E: pass  else: rest` (the else clause runs exactly when no
                # handler did)
                rest = strip_top_continue(body[i_ + 1:])
                if rest is None:
                    return None
                nb = copy.copy(b)
                nb.handlers = []
                for h in b.handlers:
                    h2 = copy.copy(h)
                    h2.body = [ast.copy_location(ast.Pass(), h)]
                    nb.handlers.append(h2)
                nb.orelse = list(b.orelse) + rest
                out.append(nb)
                return out
            if isinstance(b, ast.If) and len(b.body) == 1 and isinstance(b.body[0], ast.Continue) and not b.orelse:
                rest = strip_top_continue(body[i_ + 1:])
                if rest is None:
                    return None
                if rest:
                    out.append(ast.copy_location(ast.If(test=ast.UnaryOp(op=ast.Not(), operand=b.test), body=rest, orelse=[]), b))
                return out
            if any(isinstance(x, (ast.Break, ast.Continue)) for x in ast.walk(b)):
                return None
            out.append(b)
        return out

    def inline_rows(s_):
        """Rows of a literal display iterated directly: `for a, b in ((x, y), (u, v)):` -- the names in the rows keep their binding for
        the whole loop when the body does not rebind them."""
        it = s_.iter
        if not (isinstance(it, (ast.Tuple, ast.List)) and 0 < len(it.elts) <= 8):
            return None
        body_stores = {x.id for b in s_.body for x in ast.walk(b) if isinstance(x, ast.Name) and isinstance(x.ctx, (ast.Store, ast.Del))}

        def ok(x):
            if isinstance(x, ast.Constant):
                return True
            if isinstance(x, ast.Name):
                return x.id not in body_stores
            if isinstance(x, ast.Attribute):
                return ok(x.value)
            if isinstance(x, ast.Tuple):
                return all(ok(y) for y in x.elts)          # immutable displays only (see stable_expr)
            if isinstance(x, ast.Lambda):
                # a lambda cell is only ever called: written where it is called it closes over the same variables
                la = x.args
                if la.defaults or la.kw_defaults or la.kwonlyargs or la.vararg or la.kwarg or la.posonlyargs:
                    return False
                if any(isinstance(y, (ast.Lambda, ast.ListComp, ast.SetComp, ast.DictComp, ast.GeneratorExp, ast.NamedExpr, ast.Yield, ast.YieldFrom, ast.Await))
                       for y in ast.walk(x.body)):
                    return False
                return not any(isinstance(y, ast.Name) and y.id in body_stores for y in ast.walk(x.body))
            return False
        if all(ok(r) for r in it.elts) and all(isinstance(r, (ast.Tuple, ast.Constant, ast.Name, ast.Attribute)) for r in it.elts):
            return list(it.elts)
        return None

    def unroll_table_loops(stmts):
        out = []
        for s_ in stmts:
            if isinstance(s_, (ast.FunctionDef, ast.AsyncFunctionDef, ast.ClassDef)):
                out.append(s_)
                continue
            for fld in ("body", "orelse", "finalbody"):
                if hasattr(s_, fld) and isinstance(getattr(s_, fld), list):
                    setattr(s_, fld, unroll_table_loops(getattr(s_, fld)))
            rows_ = None
            # a search loop over a table: `for t, f in ROWS: if C(t): BODY; break` [`else: ELSE`]  ==  if C(t1): BODY1 elif C(t2): ... [else: ELSE]
            if isinstance(s_, ast.For) and len(s_.body) == 1 and isinstance(s_.body[0], ast.If) and s_.body[0].orelse \
                    and all(isinstance(x_, (ast.Continue, ast.Pass)) for x_ in s_.body[0].orelse):
                s_.body[0].orelse = []          # `else: continue` as the last thing of the body says nothing
            if isinstance(s_, ast.For) and len(s_.body) == 1 and isinstance(s_.body[0], ast.If) and not s_.body[0].orelse \
                    and s_.body[0].body and (isinstance(s_.body[0].body[-1], ast.Break) or
                                             (isinstance(s_.body[0].body[-1], ast.Return) and not s_.orelse)) \
                    and not any(isinstance(x, (ast.Break, ast.Continue)) for b in s_.body[0].body[:-1] for x in ast.walk(b)) \
                    and _pure_expr(s_.body[0].test):
                srows = local_tables.get(s_.iter.id) if isinstance(s_.iter, ast.Name) else inline_rows(s_)
                if srows is None and isinstance(s_.iter, ast.Name) and s_.iter.id in _MODULE_ROW_TABLES and s_.iter.id not in stored_names:
                    srows = _MODULE_ROW_TABLES[s_.iter.id]
                tg = s_.target
                names = [tg.id] if isinstance(tg, ast.Name) else [e_.id for e_ in tg.elts] if isinstance(tg, (ast.Tuple, ast.List)) and all(isinstance(e_, ast.Name) for e_ in tg.elts) else None
                stores_in_body = {x.id for b in s_.body for x in ast.walk(b) if isinstance(x, ast.Name) and isinstance(x.ctx, (ast.Store, ast.Del))}
                later_use = False        # the loop variables must not be read after the loop (they would hold the matching row)
                if srows and names and not (set(names) & stores_in_body) and 0 < len(srows) <= 8 and all(
                        (len(names) == 1 and isinstance(tg, ast.Name)) or (isinstance(r, ast.Tuple) and len(r.elts) == len(names)) for r in srows):
                    after = False
                    for x in ast.walk(fn):
                        pass
                    following = stmts[stmts.index(s_) + 1:] if s_ in stmts else []
                    later_use = any(isinstance(x, ast.Name) and x.id in names for st_ in following for x in ast.walk(st_))
                    # (read after the loop, the loop variables hold the matching row -- or the last row when none matched: with the
                    # break form that is spelled out as assignments in every arm)
                    bind_after = later_use and isinstance(s_.body[0].body[-1], ast.Break)
                    if not later_use or bind_after:
                        node = None
                        orelse = list(s_.orelse)

                        def binds(r_):
                            vals_ = [r_] if isinstance(tg, ast.Name) else list(r_.elts)
                            return [ast.copy_location(ast.Assign(targets=[ast.Name(id=nm_, ctx=ast.Store())], value=copy.deepcopy(v_)), s_)
                                    for nm_, v_ in zip(names, vals_)]
                        if bind_after:
                            orelse = binds(srows[-1]) + orelse
                        for r in reversed(srows):
                            vals = [r] if isinstance(tg, ast.Name) else list(r.elts)
                            inner = copy.deepcopy(s_.body[0])
                            if isinstance(inner.body[-1], ast.Break):
                                inner.body = inner.body[:-1] or [ast.copy_location(ast.Pass(), s_)]
                            if bind_after:
                                inner.body = binds(r) + [b_ for b_ in inner.body if not isinstance(b_, ast.Pass)]
                            # (an arm that ends in `return` keeps it: what follows the loop runs only when no row matched, as before)
                            for nm, val in zip(names, vals):
                                inner = _ConstSubst(nm, val).visit(inner)
                            inner.orelse = orelse
                            node = inner
                            orelse = [node]
                        ast.fix_missing_locations(node)
                        out.append(node)
                        changed[0] += 1
                        continue
            if isinstance(s_, ast.For) and not s_.orelse and isinstance(s_.iter, ast.Call) and isinstance(s_.iter.func, ast.Name) \
                    and s_.iter.func.id == "enumerate" and len(s_.iter.args) == 1 and not s_.iter.keywords \
                    and isinstance(s_.target, (ast.Tuple, ast.List)) and len(s_.target.elts) == 2 and isinstance(s_.target.elts[0], ast.Name):
                # `for i, (a, b) in enumerate(TABLE)` / `for i, row in enumerate(TABLE)`: rows prefixed with their index
                inner_it = s_.iter.args[0]
                base = local_tables.get(inner_it.id) if isinstance(inner_it, ast.Name) else None
                if base is None and isinstance(inner_it, ast.Name) and inner_it.id in _MODULE_ROW_TABLES and inner_it.id not in stored_names:
                    base = _MODULE_ROW_TABLES[inner_it.id]
                if base is None and isinstance(inner_it, ast.Name) and inner_it.id in consts and inner_it.id not in stored_names:
                    base = consts[inner_it.id]
                t1 = s_.target.elts[1]
                if base is not None and (isinstance(t1, ast.Name) or (isinstance(t1, (ast.Tuple, ast.List)) and all(isinstance(e_, ast.Name) for e_ in t1.elts)
                                                                      and all(isinstance(r_, ast.Tuple) and len(r_.elts) == len(t1.elts) for r_ in base))):
                    flat_t = [s_.target.elts[0]] + ([t1] if isinstance(t1, ast.Name) else list(t1.elts))
                    new_rows = [ast.Tuple(elts=[ast.Constant(value=i_)] + ([r_] if isinstance(t1, ast.Name) else list(r_.elts)), ctx=ast.Load())
                                for i_, r_ in enumerate(base)]
                    s_ = ast.copy_location(ast.For(target=ast.Tuple(elts=flat_t, ctx=ast.Store()), iter=ast.Tuple(elts=new_rows, ctx=ast.Load()),
                                                   body=s_.body, orelse=[], type_comment=None), s_)
                    ast.fix_missing_locations(s_)
            if isinstance(s_, ast.For) and not s_.orelse:
                rows_ = local_tables.get(s_.iter.id) if isinstance(s_.iter, ast.Name) else inline_rows(s_)
                if rows_ is None and isinstance(s_.iter, ast.Name) and s_.iter.id in _MODULE_ROW_TABLES and s_.iter.id not in stored_names:
                    rows_ = _MODULE_ROW_TABLES[s_.iter.id]
            if rows_ is not None and any(isinstance(x, (ast.Break, ast.Continue)) for x in ast.walk(s_)):
                nb_ = strip_top_continue(s_.body)
                if nb_ is None:
                    rows_ = None
                else:
                    s_.body = nb_ or [ast.copy_location(ast.Pass(), s_)]
            if rows_ is not None:
                rows = rows_
                tg = s_.target
                names = [tg.id] if isinstance(tg, ast.Name) else [e_.id for e_ in tg.elts] if isinstance(tg, (ast.Tuple, ast.List)) and all(isinstance(e_, ast.Name) for e_ in tg.elts) else None
                rebinding = names is None or any(isinstance(x, ast.Name) and x.id in names and isinstance(x.ctx, ast.Store) for b in s_.body for x in ast.walk(b))
                shapes_ok = names is not None and all((len(names) == 1 and isinstance(tg, ast.Name)) or (isinstance(r, ast.Tuple) and len(r.elts) == len(names)) for r in rows)
                if not rebinding and shapes_ok:
                    # a body-local scratch name (assigned before any use in every trip, mentioned nowhere outside the loop) gets its own
                    # name per copy, so that each copy's `seg = getattr(self, attr)` is a single assignment the later passes can follow
                    def mentions(node, x):
                        return any(isinstance(y, ast.Name) and y.id == x for y in ast.walk(node))

                    def dom(block, x):
                        for b_ in block:
                            if not mentions(b_, x):
                                continue
                            if isinstance(b_, ast.Assign) and len(b_.targets) == 1 and isinstance(b_.targets[0], ast.Name) and b_.targets[0].id == x \
                                    and not mentions(b_.value, x):
                                return True
                            # (the else clause of a try runs only after its body completed: a name the body defines is defined there)
                            if isinstance(b_, ast.Try) and not any(mentions(h_, x) for h_ in b_.handlers) and not any(mentions(z, x) for z in b_.finalbody) \
                                    and not any(mentions(z, x) for z in block[block.index(b_) + 1:]):
                                return dom(b_.body, x)
                            # used inside one arm of an `if` only, and defined there before it is used
                            if isinstance(b_, ast.If) and not mentions(b_.test, x) and not any(mentions(z, x) for z in block[block.index(b_) + 1:]):
                                in_body = any(mentions(z, x) for z in b_.body)
                                in_else = any(mentions(z, x) for z in b_.orelse)
                                if in_body != in_else:
                                    return dom(b_.body if in_body else b_.orelse, x)
                            return False
                        return False
                    inside = sum(1 for b_ in s_.body for y in ast.walk(b_) if isinstance(y, ast.Name))
                    scratch = []
                    for x in sorted({y.id for b_ in s_.body for y in ast.walk(b_) if isinstance(y, ast.Name) and isinstance(y.ctx, ast.Store)}):
                        n_in = sum(1 for b_ in s_.body for y in ast.walk(b_) if isinstance(y, ast.Name) and y.id == x)
                        n_all = sum(1 for y in ast.walk(fn) if isinstance(y, ast.Name) and y.id == x)
                        if n_in == n_all and dom(s_.body, x) and not any(isinstance(y, (ast.Global, ast.Nonlocal)) for y in ast.walk(fn)):
                            scratch.append(x)
                    for k_, r in enumerate(rows):
                        vals = [r] if isinstance(tg, ast.Name) else list(r.elts)
                        for b in s_.body:
                            nb = copy.deepcopy(b)
                            for nm, val in zip(names, vals):
                                nb = _ConstSubst(nm, val).visit(nb)
                            if scratch and len(rows) > 1:
                                for y in ast.walk(nb):
                                    if isinstance(y, ast.Name) and y.id in scratch:
                                        y.id = "%s__u%d" % (y.id, k_)
                            out.append(nb)
                    changed[0] += 1
                    continue
            out.append(s_)
        return out
    local_tables_ref[0] = local_tables
    if local_tables or any(isinstance(x, ast.For) and (isinstance(x.iter, (ast.Tuple, ast.List)) or
                                                       (isinstance(x.iter, ast.Name) and x.iter.id in _MODULE_ROW_TABLES) or
                                                       (isinstance(x.iter, ast.Call) and isinstance(x.iter.func, ast.Name) and x.iter.func.id == "enumerate"))
                           for x in ast.walk(fn)):
        fn.body = unroll_table_loops(fn.body)
    fn.body = unroll_stmts(fn.body)
    e = E()
    fn.body = [e.visit(s_) for s_ in fn.body]
    # setattr(obj, 'lit', v) as a statement
    def fix_setattr(stmts):
        out = []
        for s_ in stmts:
            for fld in ("body", "orelse", "finalbody"):
                if hasattr(s_, fld) and isinstance(getattr(s_, fld), list) and not isinstance(s_, (ast.FunctionDef, ast.ClassDef)):
                    setattr(s_, fld, fix_setattr(getattr(s_, fld)))
            if isinstance(s_, ast.Expr) and isinstance(s_.value, ast.Call) and isinstance(s_.value.func, ast.Name) and s_.value.func.id == "setattr" \
                    and len(s_.value.args) == 3 and isinstance(s_.value.args[1], ast.Constant) and isinstance(s_.value.args[1].value, str) \
                    and s_.value.args[1].value.isidentifier():
                a = s_.value.args
                out.append(ast.copy_location(ast.Assign(targets=[ast.Attribute(value=a[0], attr=a[1].value, ctx=ast.Store())], value=a[2]), s_))
                changed[0] += 1
            else:
                out.append(s_)
        return out
    fn.body = fix_setattr(fn.body)
    return changed[0]


def _name_uses(fn):
    """name -> (number of stores, number of loads) over the whole function (nested scopes included, conservatively)."""
    st, ld = {}, {}
    for n in ast.walk(fn):
        if isinstance(n, ast.Name):
            if isinstance(n.ctx, ast.Load):
                ld[n.id] = ld.get(n.id, 0) + 1
            else:
                st[n.id] = st.get(n.id, 0) + 1
    for a in fn.args.args + fn.args.kwonlyargs:
        st[a.arg] = st.get(a.arg, 0) + 1
    return {k: (st.get(k, 0), ld.get(k, 0)) for k in set(st) | set(ld)}


def _expand_module_aliases(tree):
    """`U64 = np.uint64` at module level (bound once, to a dotted name): every use of the alias is replaced by the dotted name."""
    stores = {}
    for n in ast.walk(tree):
        if isinstance(n, ast.Name) and isinstance(n.ctx, (ast.Store, ast.Del)):
            stores[n.id] = stores.get(n.id, 0) + 1
        elif isinstance(n, ast.arg):
            stores[n.arg] = stores.get(n.arg, 0) + 1
        elif isinstance(n, (ast.FunctionDef, ast.ClassDef)):
            stores[n.name] = stores.get(n.name, 0) + 1
        elif isinstance(n, ast.alias):
            nm = (n.asname or n.name).split(".")[0]
            stores[nm] = stores.get(nm, 0) + 1

    def dotted_expr(v):
        return isinstance(v, ast.Name) or (isinstance(v, ast.Attribute) and dotted_expr(v.value))
    aliases = {}
    for n in tree.body:
        if isinstance(n, ast.Assign) and len(n.targets) == 1 and isinstance(n.targets[0], ast.Name) and isinstance(n.value, ast.Attribute) \
                and dotted_expr(n.value) and stores.get(n.targets[0].id) == 1:
            root = n.value
            while isinstance(root, ast.Attribute):
                root = root.value
            if stores.get(root.id, 0) <= 1:          # the module the alias points into is itself bound once (an import)
                aliases[n.targets[0].id] = n.value
    # `from numpy import frombuffer, uint32 as np_uint32` / `from collections import Counter as C` / `import time` + time.sleep:
    # names imported from numpy are read as np.<name>; an imported name under another name is read as the original
    for n in tree.body:
        if isinstance(n, ast.ImportFrom) and n.level == 0:
            for a in n.names:
                local = a.asname or a.name
                if stores.get(local, 0) != 1 or a.name == "*":
                    continue
                if n.module == "numpy":
                    aliases[local] = ast.Attribute(value=ast.Name(id="np", ctx=ast.Load()), attr=a.name, ctx=ast.Load())
                elif a.asname and a.asname != a.name and stores.get(a.name, 0) == 0:
                    aliases[local] = ast.Name(id=a.name, ctx=ast.Load())
    if not aliases:
        return 0
    count = [0]

    class T(ast.NodeTransformer):
        def visit_Name(self, n):
            if isinstance(n.ctx, ast.Load) and n.id in aliases:
                count[0] += 1
                return ast.copy_location(copy.deepcopy(aliases[n.id]), n)
            return n
    T().visit(tree)
    return count[0]


def _expand_module_constants(tree):
    """`_BATCH = 2048`, `_UINT32_MAX = 2**32 - 1`, `_ONE = np.uint64(1)` at module level (bound once, a constant expression):
    every use is replaced by the expression."""
    # `A, B = PAIR = (0, 1)` at module level: a display of literals is the same immutable value for every target
    nb = []
    for st in tree.body:
        if isinstance(st, ast.Assign) and len(st.targets) > 1 and (
                (isinstance(st.value, ast.Tuple) and st.value.elts and all(isinstance(e, ast.Constant) for e in st.value.elts))
                or (isinstance(st.value, ast.Constant) and not isinstance(st.value.value, (bytes,)))) \
                and all(isinstance(t, ast.Name) or (isinstance(t, (ast.Tuple, ast.List)) and all(isinstance(x, ast.Name) for x in t.elts)) for t in st.targets):
            for t in reversed(st.targets):          # the name of the whole first, so that an unpacking can refer to it
                nb.append(ast.fix_missing_locations(ast.copy_location(ast.Assign(targets=[t], value=copy.deepcopy(st.value)), st)))
        else:
            nb.append(st)
    tree.body = nb
    stores = {}
    for n in ast.walk(tree):
        if isinstance(n, ast.Name) and isinstance(n.ctx, (ast.Store, ast.Del)):
            stores[n.id] = stores.get(n.id, 0) + 1
        elif isinstance(n, ast.arg):
            stores[n.arg] = stores.get(n.arg, 0) + 1
        elif isinstance(n, (ast.FunctionDef, ast.ClassDef)):
            stores[n.name] = stores.get(n.name, 0) + 1
        elif isinstance(n, (ast.Global, ast.Nonlocal)):
            for nm in n.names:
                stores[nm] = stores.get(nm, 0) + 2

    def const_expr(v, known):
        if isinstance(v, ast.Constant):
            # numbers, and the singletons None / True / False (`x is _POISON_PILL` with `_POISON_PILL = None`)
            return isinstance(v.value, (int, float)) or v.value is None
        if isinstance(v, ast.Name):
            return v.id in known
        if isinstance(v, ast.UnaryOp) and isinstance(v.op, (ast.USub, ast.UAdd, ast.Invert)):
            return const_expr(v.operand, known)
        if isinstance(v, ast.BinOp) and isinstance(v.op, (ast.Add, ast.Sub, ast.Mult, ast.Pow, ast.LShift, ast.RShift, ast.FloorDiv, ast.BitAnd, ast.BitOr, ast.Div)):
            return const_expr(v.left, known) and const_expr(v.right, known)
        if isinstance(v, ast.Call) and len(v.args) == 1 and not v.keywords:
            f = v.func
            nm = f.id if isinstance(f, ast.Name) else f.attr if isinstance(f, ast.Attribute) and isinstance(f.value, ast.Name) and f.value.id in ("np", "numpy") else None
            if nm in ("uint8", "uint16", "uint32", "uint64", "int8", "int16", "int32", "int64", "float32", "float64", "int", "float"):
                return const_expr(v.args[0], known)
        return False
    consts = {}
    const_tuples = {}          # NAME = (<constant expressions>) bound once: usable as the right-hand side of a later unpacking
    for n in tree.body:
        if isinstance(n, ast.Assign) and len(n.targets) == 1 and isinstance(n.targets[0], ast.Name) and stores.get(n.targets[0].id) == 1 \
                and const_expr(n.value, consts):
            consts[n.targets[0].id] = n.value
        elif isinstance(n, ast.Assign) and len(n.targets) == 1 and isinstance(n.targets[0], ast.Name) and stores.get(n.targets[0].id) == 1 \
                and isinstance(n.value, ast.Tuple) and n.value.elts and all(const_expr(e, consts) for e in n.value.elts):
            const_tuples[n.targets[0].id] = list(n.value.elts)
        elif isinstance(n, ast.Assign) and len(n.targets) == 1 and isinstance(n.targets[0], (ast.Tuple, ast.List)) \
                and all(isinstance(t, ast.Name) and stores.get(t.id) == 1 for t in n.targets[0].elts):
            # `A, B = 2048, 1`  /  `A, B = _PAIR` with _PAIR a constant tuple bound once
            vals = list(n.value.elts) if isinstance(n.value, (ast.Tuple, ast.List)) else \
                const_tuples.get(n.value.id) if isinstance(n.value, ast.Name) else None
            if vals is not None and len(vals) == len(n.targets[0].elts) and all(const_expr(e, consts) for e in vals):
                for t, e in zip(n.targets[0].elts, vals):
                    consts[t.id] = e
        elif isinstance(n, ast.AnnAssign) and n.value is not None and isinstance(n.target, ast.Name) and stores.get(n.target.id) == 1 \
                and const_expr(n.value, consts):
            consts[n.target.id] = n.value
    count = [0]
    # string/int tables too (`_NPZ_KEYS = ("args", "hll")`), when never mutated
    for nm_, elts_ in _module_const_tuples(tree).items():
        const_tuples.setdefault(nm_, list(elts_))
    mutated = {n.value.id for n in ast.walk(tree) if isinstance(n, ast.Subscript) and isinstance(n.ctx, (ast.Store, ast.Del)) and isinstance(n.value, ast.Name)}
    if const_tuples:
        class U(ast.NodeTransformer):
            # `a, b = _PAIR` inside a function, and `for w in _SHIFTS:` inside a kernel: the table's display takes the name's place
            def __init__(self):
                self.kernel = False

            def visit_FunctionDef(self, f):
                prev, self.kernel = self.kernel, self.kernel or _is_njit(f)
                self.generic_visit(f)
                self.kernel = prev
                return f

            def visit_Assign(self, a):
                self.generic_visit(a)
                if len(a.targets) == 1 and isinstance(a.targets[0], (ast.Tuple, ast.List)) and isinstance(a.value, ast.Name) \
                        and a.value.id in const_tuples and a.value.id not in mutated and len(const_tuples[a.value.id]) == len(a.targets[0].elts) \
                        and not any(isinstance(t, ast.Starred) for t in a.targets[0].elts):
                    a.value = ast.copy_location(ast.Tuple(elts=[copy.deepcopy(e) for e in const_tuples[a.value.id]], ctx=ast.Load()), a.value)
                    count[0] += 1
                return a

            def visit_For(self, f):
                self.generic_visit(f)
                if self.kernel and isinstance(f.iter, ast.Name) and f.iter.id in const_tuples and f.iter.id not in mutated \
                        and all((isinstance(e, ast.Constant) and isinstance(e.value, int)) or (isinstance(e, ast.Name) and e.id in consts)
                                for e in const_tuples[f.iter.id]):
                    f.iter = ast.copy_location(ast.Tuple(elts=[copy.deepcopy(e) for e in const_tuples[f.iter.id]], ctx=ast.Load()), f.iter)
                    count[0] += 1
                return f
        for fn_ in tree.body:
            if isinstance(fn_, (ast.FunctionDef, ast.ClassDef)):
                U().visit(fn_)
        ast.fix_missing_locations(tree)
    if not consts:
        return count[0]

    class T(ast.NodeTransformer):
        def visit_Name(self, n):
            if isinstance(n.ctx, ast.Load) and n.id in consts:
                count[0] += 1
                return ast.copy_location(self.visit(copy.deepcopy(consts[n.id])), n)
            return n
    T().visit(tree)
    return count[0]


def _scalar_only_kernels(tree):
    """Names of module-level njit functions whose explicit signature has scalar parameters only (no arrays, no bytes): pure functions
    of their arguments."""
    out = set()
    for fn in tree.body:
        if not (isinstance(fn, ast.FunctionDef) and _is_njit(fn)):
            continue
        sig = None
        for d in fn.decorator_list:
            if isinstance(d, ast.Call) and d.args:
                sig = d.args[0]
        if not (isinstance(sig, ast.Call) and len(sig.args) == len(fn.args.args)):
            continue
        scal = {"uint8", "uint16", "uint32", "uint64", "int8", "int16", "int32", "int64", "float32", "float64", "boolean", "bool_", "intp", "uintp"}
        tname = lambda a: a.id if isinstance(a, ast.Name) else a.attr if isinstance(a, ast.Attribute) else None
        if all(tname(a) in scal for a in sig.args) and isinstance(sig.func, (ast.Name, ast.Attribute)):
            # and the body neither writes a global nor calls anything but package kernels / casts: checked loosely by having no subscript store
            if not any(isinstance(n, ast.Subscript) and isinstance(n.ctx, ast.Store) for n in ast.walk(fn)):
                out.add(fn.name)
    return out


def _hoist_scalar_helper_calls(tree):
    """Inside kernels, a call to a scalar-only helper kernel nested in an expression (`range(_n_windows(a, b))`, `x = y + _h(z)`) is
    evaluated into a fresh temporary just before the statement, where the walker walks the helper inline.  Such a helper is a pure
    function of scalars, so evaluating it first changes nothing; calls inside short-circuit operands, conditional expressions and
    `while` tests are left alone."""
    pure = _scalar_only_kernels(tree)
    kernels = {fn.name for fn in tree.body if isinstance(fn, ast.FunctionDef) and _is_njit(fn)}
    if not kernels:
        return 0
    n_h = 0

    def find(expr, top):
        """first hoistable call in evaluation order, not `top` itself"""
        stack = [expr]
        while stack:
            n = stack.pop(0)
            if isinstance(n, (ast.BoolOp, ast.IfExp, ast.Lambda, ast.ListComp, ast.SetComp, ast.DictComp, ast.GeneratorExp)):
                continue
            if isinstance(n, ast.Call) and isinstance(n.func, ast.Name) and n.func.id in pure and n is not top \
                    and not any(isinstance(a, ast.Starred) for a in n.args) and not n.keywords:
                inner = [find(a, None) for a in n.args]
                if not any(inner):
                    return n
            stack.extend(ast.iter_child_nodes(n))
        return None

    def block(stmts):
        nonlocal n_h
        out = []
        for st in stmts:
            for fld in ("body", "orelse", "finalbody"):
                if hasattr(st, fld) and isinstance(getattr(st, fld), list) and not isinstance(st, (ast.FunctionDef, ast.ClassDef)):
                    setattr(st, fld, block(getattr(st, fld)))
            if isinstance(st, ast.If):
                # `if _helper(...):` / `if not _helper(...):` -- the call is the first thing the statement evaluates, whatever it takes
                t_ = st.test
                neg_ = isinstance(t_, ast.UnaryOp) and isinstance(t_.op, ast.Not)
                c_ = t_.operand if neg_ else t_
                if isinstance(c_, ast.Call) and isinstance(c_.func, ast.Name) and c_.func.id in kernels and c_.func.id not in pure \
                        and not c_.keywords and not any(isinstance(a, ast.Starred) for a in c_.args):
                    tmp = "hk__%s%d" % (c_.func.id.strip("_"), next(_counter))
                    pre = ast.copy_location(ast.Assign(targets=[ast.Name(id=tmp, ctx=ast.Store())], value=c_), st)
                    nm = ast.copy_location(ast.Name(id=tmp, ctx=ast.Load()), c_)
                    st.test = ast.copy_location(ast.UnaryOp(op=ast.Not(), operand=nm), t_) if neg_ else nm
                    ast.fix_missing_locations(pre)
                    out.append(pre)
                    n_h += 1
            for _ in range(8):
                if isinstance(st, ast.For):
                    host, top = st.iter, None
                elif isinstance(st, ast.If):
                    host, top = st.test, None
                elif isinstance(st, (ast.Assign, ast.AugAssign, ast.Return, ast.Expr)) and getattr(st, "value", None) is not None:
                    host, top = st.value, st.value
                else:
                    break
                c = find(host, top)
                if c is None:
                    break
                tmp = "hk__%s%d" % (c.func.id.strip("_"), next(_counter))
                pre = ast.copy_location(ast.Assign(targets=[ast.Name(id=tmp, ctx=ast.Store())], value=c), st)

                class R(ast.NodeTransformer):
                    def visit_Call(self, x):
                        if x is c:
                            return ast.copy_location(ast.Name(id=tmp, ctx=ast.Load()), x)
                        self.generic_visit(x)
                        return x
                if isinstance(st, ast.For):
                    st.iter = R().visit(st.iter)
                elif isinstance(st, ast.If):
                    st.test = R().visit(st.test)
                else:
                    st.value = R().visit(st.value)
                ast.fix_missing_locations(pre)
                out.append(pre)
                n_h += 1
            out.append(st)
        return out
    for fn in tree.body:
        if isinstance(fn, ast.FunctionDef) and _is_njit(fn):
            fn.body = block(fn.body)
    return n_h


def _attr_first(stmts, stores):
    """`t = <expr>; self.A = t` (adjacent, t bound once)  ->  `self.A = <expr>; t = self.A`: the same object under both names, written
    so that copy propagation can then read every later `t` as `self.A`.  Recursive over nested blocks."""
    changed = 0
    # `t = Counter()` ... (statements that do not mention t) ... `self.A = t`: creating the fresh empty object later, right where it is
    # stored, is the same thing (an argument-less constructor call of a plain name, or an empty display, observes and changes nothing)
    for i0, s0 in enumerate(list(stmts)):
        if not (isinstance(s0, ast.Assign) and len(s0.targets) == 1 and isinstance(s0.targets[0], ast.Name) and stores.get(s0.targets[0].id) == 1):
            continue
        v0 = s0.value
        fresh = (isinstance(v0, ast.Call) and isinstance(v0.func, ast.Name) and not v0.args and not v0.keywords and v0.func.id in ("Counter", "dict", "list", "set", "OrderedDict", "defaultdict")) \
            or (isinstance(v0, (ast.List, ast.Dict, ast.Set)) and not getattr(v0, "elts", getattr(v0, "keys", None)))
        if not fresh:
            continue
        t0 = s0.targets[0].id
        i = stmts.index(s0)
        for j in range(i + 1, len(stmts)):
            sj = stmts[j]
            is_store = (isinstance(sj, ast.Assign) and len(sj.targets) == 1 and isinstance(sj.targets[0], ast.Attribute)
                        and isinstance(sj.targets[0].value, ast.Name) and sj.targets[0].value.id == "self"
                        and isinstance(sj.value, ast.Name) and sj.value.id == t0)
            if is_store:
                if j > i + 1:
                    stmts.insert(j - 1, stmts.pop(i))   # now adjacent: [..., t = fresh, self.A = t]
                    changed += 1
                break
            if any(isinstance(x, ast.Name) and x.id == t0 for x in ast.walk(sj)) or isinstance(sj, (ast.For, ast.While, ast.If, ast.Try, ast.With, ast.Return, ast.Raise)):
                break
    i = 0
    while i < len(stmts):
        s = stmts[i]
        nxt = stmts[i + 1] if i + 1 < len(stmts) else None
        if (isinstance(s, ast.Assign) and len(s.targets) == 1 and isinstance(s.targets[0], ast.Name) and stores.get(s.targets[0].id) == 1
                and isinstance(nxt, ast.Assign) and len(nxt.targets) == 1 and isinstance(nxt.targets[0], ast.Attribute)
                and isinstance(nxt.targets[0].value, ast.Name) and nxt.targets[0].value.id == "self"
                and isinstance(nxt.value, ast.Name) and nxt.value.id == s.targets[0].id):
            attr_t = nxt.targets[0]
            a1 = ast.copy_location(ast.Assign(targets=[attr_t], value=s.value), s)
            load = ast.copy_location(ast.Attribute(value=ast.Name(id="self", ctx=ast.Load()), attr=attr_t.attr, ctx=ast.Load()), nxt)
            a2 = ast.copy_location(ast.Assign(targets=[s.targets[0]], value=load), nxt)
            ast.fix_missing_locations(a1)
            ast.fix_missing_locations(a2)
            stmts[i], stmts[i + 1] = a1, a2
            changed += 1
            i += 2
            continue
        for fld in ("body", "orelse", "finalbody"):
            blk = getattr(s, fld, None)
            if isinstance(blk, list) and not isinstance(s, (ast.FunctionDef, ast.ClassDef)):
                changed += _attr_first(blk, stores)
        i += 1
    return changed


def _fuse_row_views(fn):
    """`v = X[i]` (X a parameter or `self.<attr>`, i a name or constant) bound once, with every use of v being a further subscript
    `v[j]`, `v[j, k]`, `v[j, :n]` (read or written): each use is rewritten to `X[i, j]`, `X[i, j, k]`, ... and the binding is
    dropped.  For NumPy arrays -- which is what the kernels' array parameters and the sketch tables are -- basic indexing of a row
    view is indexing of the array.  i must not be rebound between the binding and the uses (it is a loop variable or never stored)."""
    params = {a.arg for a in fn.args.args + fn.args.kwonlyargs + fn.args.posonlyargs}
    stores, loads, parent = {}, {}, {}
    for n in ast.walk(fn):
        for c in ast.iter_child_nodes(n):
            parent[id(c)] = n
        if isinstance(n, ast.Name):
            (stores if isinstance(n.ctx, (ast.Store, ast.Del)) else loads).setdefault(n.id, []).append(n)
    for_targets = {t.id for f in ast.walk(fn) if isinstance(f, ast.For) for t in ast.walk(f.target) if isinstance(t, ast.Name)}
    changed = 0
    for st in [x for x in ast.walk(fn) if isinstance(x, ast.Assign)]:
        if not (len(st.targets) == 1 and isinstance(st.targets[0], ast.Name) and isinstance(st.value, ast.Subscript)):
            continue
        v, sub = st.targets[0].id, st.value
        if len(stores.get(v, [])) != 1 or v in params:
            continue
        base = sub.value
        ok_base = (isinstance(base, ast.Name) and base.id in params and not stores.get(base.id)) or \
            (isinstance(base, ast.Attribute) and isinstance(base.value, ast.Name) and base.value.id == "self")
        idx = sub.slice
        ok_idx = isinstance(idx, ast.Constant) and isinstance(idx.value, int) or \
            (isinstance(idx, ast.Name) and (len(stores.get(idx.id, [])) == 0 or (idx.id in for_targets and len(stores.get(idx.id, [])) == 1)))
        if not (ok_base and ok_idx):
            continue
        if isinstance(base, ast.Attribute) and any(isinstance(a, ast.Attribute) and isinstance(a.ctx, ast.Store) and a.attr == base.attr for a in ast.walk(fn)):
            continue
        uses = loads.get(v, [])
        if not uses or not all(isinstance(parent.get(id(u)), ast.Subscript) and parent[id(u)].value is u for u in uses):
            continue
        for u in uses:
            p_ = parent[id(u)]
            inner = list(p_.slice.elts) if isinstance(p_.slice, ast.Tuple) else [p_.slice]
            p_.value = copy.deepcopy(base)
            p_.slice = ast.Tuple(elts=[copy.deepcopy(idx)] + inner, ctx=ast.Load())
        # drop the binding
        holder = parent.get(id(st))
        for fld in ("body", "orelse", "finalbody"):
            blk = getattr(holder, fld, None)
            if isinstance(blk, list) and st in blk:
                blk[blk.index(st)] = ast.copy_location(ast.Pass(), st)
        changed += 1
    if changed:
        ast.fix_missing_locations(fn)
    return changed


def _merge_dict_item_stores(stmts):
    """`d = {"a": x}` directly followed by `d["b"] = y`, `d["c"] = z` (new constant keys, values not reading d): one display.
    Recursive over nested blocks; also applied to function bodies."""
    i = 0
    while i < len(stmts):
        s = stmts[i]
        for fld in ("body", "orelse", "finalbody"):
            blk = getattr(s, fld, None)
            if isinstance(blk, list):
                _merge_dict_item_stores(blk)
        if isinstance(s, ast.Try):
            for h in s.handlers:
                _merge_dict_item_stores(h.body)
        if isinstance(s, ast.Assign) and len(s.targets) == 1 and isinstance(s.targets[0], ast.Name) and isinstance(s.value, ast.Dict) \
                and all(isinstance(k, ast.Constant) for k in s.value.keys):
            name = s.targets[0].id
            while i + 1 < len(stmts):
                nx = stmts[i + 1]
                if not (isinstance(nx, ast.Assign) and len(nx.targets) == 1 and isinstance(nx.targets[0], ast.Subscript)
                        and isinstance(nx.targets[0].value, ast.Name) and nx.targets[0].value.id == name
                        and isinstance(nx.targets[0].slice, ast.Constant)
                        and not any(isinstance(n, ast.Name) and n.id == name for n in ast.walk(nx.value))
                        and nx.targets[0].slice.value not in [k.value for k in s.value.keys]):
                    break
                s.value.keys.append(nx.targets[0].slice)
                s.value.values.append(nx.value)
                del stmts[i + 1]
        # `xs = [a, b]` directly followed by `xs.append(c)` / `xs.extend([c, d])` / `xs += [c]` (values not reading xs): one display
        if isinstance(s, ast.Assign) and len(s.targets) == 1 and isinstance(s.targets[0], ast.Name) and isinstance(s.value, ast.List) \
                and not any(isinstance(e, ast.Starred) for e in s.value.elts):
            name = s.targets[0].id
            while i + 1 < len(stmts):
                nx = stmts[i + 1]
                more = None
                if isinstance(nx, ast.Expr) and isinstance(nx.value, ast.Call) and isinstance(nx.value.func, ast.Attribute) \
                        and isinstance(nx.value.func.value, ast.Name) and nx.value.func.value.id == name and not nx.value.keywords and len(nx.value.args) == 1:
                    if nx.value.func.attr == "append":
                        more = [nx.value.args[0]]
                    elif nx.value.func.attr == "extend" and isinstance(nx.value.args[0], (ast.List, ast.Tuple)) \
                            and not any(isinstance(e, ast.Starred) for e in nx.value.args[0].elts):
                        more = list(nx.value.args[0].elts)
                elif isinstance(nx, ast.AugAssign) and isinstance(nx.op, ast.Add) and isinstance(nx.target, ast.Name) and nx.target.id == name \
                        and isinstance(nx.value, ast.List) and not any(isinstance(e, ast.Starred) for e in nx.value.elts):
                    more = list(nx.value.elts)
                if more is None or any(isinstance(n, ast.Name) and n.id == name for m_ in more for n in ast.walk(m_)):
                    break
                s.value.elts.extend(more)
                del stmts[i + 1]
        i += 1


def _pure_simple(e, depth=0):
    """name / constant / attribute chain / arithmetic / int()-style conversion of such: evaluating it has no effect"""
    if depth > 6:
        return False
    if isinstance(e, (ast.Name, ast.Constant)):
        return True
    if isinstance(e, ast.Attribute):
        return _pure_simple(e.value, depth + 1)
    if isinstance(e, ast.BinOp):
        return _pure_simple(e.left, depth + 1) and _pure_simple(e.right, depth + 1)
    if isinstance(e, ast.UnaryOp):
        return _pure_simple(e.operand, depth + 1)
    if isinstance(e, (ast.Tuple, ast.List)):
        return all(_pure_simple(x, depth + 1) for x in e.elts)
    if isinstance(e, ast.Call) and not e.keywords and len(e.args) == 1 and (_dotted_name(e.func) or "").split(".")[-1] in (
            "int", "float", "len", "bool", "uint8", "uint16", "uint32", "uint64", "int64", "float64"):
        return _pure_simple(e.args[0], depth + 1)
    return False


_MODULE_CONST_TUPLES_G = {}       # set by normalize() for the module being normalised


def _atom_elt(e):
    """An element whose evaluation has no effect and whose meaning does not depend on when it is evaluated within one statement."""
    if isinstance(e, (ast.Constant, ast.Lambda)):
        return True
    if isinstance(e, ast.Name):
        return True
    if isinstance(e, ast.Attribute):
        return _dotted_name(e) is not None
    if isinstance(e, ast.Tuple):
        return all(_atom_elt(x) for x in e.elts)
    return False


def _comp_instances(comp, with_conds=False, elt=None):
    """The element expressions of `(ELT for T in DISPLAY)` / `enumerate(DISPLAY)` / `zip(DISPLAY, ...)` over literal displays of
    atoms, written out in order; None when the comprehension is of another shape.  With `with_conds`, pairs (condition or None,
    element) for a comprehension that filters."""
    if not isinstance(comp, (ast.GeneratorExp, ast.ListComp, ast.DictComp, ast.SetComp)) or len(comp.generators) != 1:
        return None
    g = comp.generators[0]
    if (g.ifs and not with_conds) or g.is_async:
        return None
    if elt is None:
        elt = comp.elt

    def display(x):
        if isinstance(x, (ast.Tuple, ast.List)) and 0 < len(x.elts) <= 8 and all(_atom_elt(e) for e in x.elts):
            return list(x.elts)
        # a module-level constant table (`_MUST_MATCH = ("width", "depth")`, bound once, never mutated), named
        if isinstance(x, ast.Name) and x.id in _MODULE_CONST_TUPLES_G and 0 < len(_MODULE_CONST_TUPLES_G[x.id]) <= 8:
            return [copy.deepcopy(e) for e in _MODULE_CONST_TUPLES_G[x.id]]
        return None
    it = g.iter
    rows = display(it)
    if rows is None and isinstance(it, ast.Call) and isinstance(it.func, ast.Name) and not it.keywords and it.args:
        if it.func.id == "enumerate" and len(it.args) == 1 and display(it.args[0]) is not None:
            rows = [ast.Tuple(elts=[ast.Constant(value=i), e], ctx=ast.Load()) for i, e in enumerate(display(it.args[0]))]
        elif it.func.id == "zip" and all(display(a) is not None for a in it.args) and len({len(a.elts) for a in it.args}) == 1:
            rows = [ast.Tuple(elts=list(r), ctx=ast.Load()) for r in zip(*[display(a) for a in it.args])]
    if rows is None:
        return None

    def bind(t, v, env):
        if isinstance(t, ast.Name):
            env[t.id] = v
            return True
        if isinstance(t, (ast.Tuple, ast.List)) and isinstance(v, ast.Tuple) and len(t.elts) == len(v.elts) \
                and not any(isinstance(x, ast.Starred) for x in t.elts):
            return all(bind(a, b, env) for a, b in zip(t.elts, v.elts))
        return False
    out = []
    for r in rows:
        env = {}
        if not bind(g.target, r, env):
            return None
        # the comprehension's own variable must not be captured by a lambda element that also names it
        if any(isinstance(n, ast.Lambda) and any(a.arg in env for a in n.args.args) for x_ in [elt] + list(g.ifs) for n in ast.walk(x_)):
            return None

        class S(ast.NodeTransformer):
            def visit_Name(self, n):
                if n.id in env and isinstance(n.ctx, ast.Load):
                    return ast.copy_location(copy.deepcopy(env[n.id]), n)
                return n
        e_ = _FoldDisplays().visit(S().visit(copy.deepcopy(elt)))
        if with_conds:
            cs = [_FoldDisplays().visit(S().visit(copy.deepcopy(c))) for c in g.ifs]
            cond = None if not cs else cs[0] if len(cs) == 1 else ast.BoolOp(op=ast.And(), values=cs)
            out.append((cond, e_))
        else:
            out.append(e_)
    return out


class _FoldDisplays(ast.NodeTransformer):
    """Spelled-out container constructions are read as the displays they equal:
    `dict(a=x, b=y)` -> `{"a": x, "b": y}`;  `tuple(f(i) for i in range(3))` -> `(f(0), f(1), f(2))`;  `(a, b) + (c,)` -> `(a, b, c)`;
    `g(*tuple(xs))` / `g(*list(xs))` -> `g(*xs)`.  (Builtins `dict`, `tuple`, `list`, `range` are assumed not to be shadowed; the
    package does not shadow them.)"""

    def visit_Subscript(self, n):
        self.generic_visit(n)
        # `(a, b, c)[1]` -> `b` when every element is a name / constant / attribute chain (no evaluation is dropped that could matter)
        if isinstance(n.ctx, ast.Load) and isinstance(n.value, (ast.Tuple, ast.List)) and isinstance(n.slice, ast.Constant) \
                and isinstance(n.slice.value, int) and not isinstance(n.slice.value, bool) and -len(n.value.elts) <= n.slice.value < len(n.value.elts) \
                and all(_pure_simple(e) for e in n.value.elts):
            return ast.copy_location(copy.deepcopy(n.value.elts[n.slice.value]), n)
        return n

    def visit_Call(self, c):
        self.generic_visit(c)
        # `getattr(x, "name")` -> `x.name`
        if isinstance(c.func, ast.Name) and c.func.id == "getattr" and len(c.args) == 2 and not c.keywords and isinstance(c.args[1], ast.Constant) \
                and isinstance(c.args[1].value, str) and c.args[1].value.isidentifier() and not c.args[1].value.startswith("__"):
            return ast.copy_location(ast.Attribute(value=c.args[0], attr=c.args[1].value, ctx=ast.Load()), c)
        # `(lambda: X)()` -> `X`
        if isinstance(c.func, ast.Lambda) and not c.args and not c.keywords:
            la = c.func.args
            if not (la.args or la.posonlyargs or la.kwonlyargs or la.vararg or la.kwarg):
                return c.func.body
        # `(lambda r: T[r])(row)` -> `T[row]` for effect-free simple arguments
        if isinstance(c.func, ast.Lambda) and c.args and not c.keywords and all(_pure_simple(a) for a in c.args):
            la = c.func.args
            if len(la.args) == len(c.args) and not (la.posonlyargs or la.kwonlyargs or la.vararg or la.kwarg or la.defaults) \
                    and not any(isinstance(y, (ast.Lambda, ast.ListComp, ast.SetComp, ast.DictComp, ast.GeneratorExp, ast.NamedExpr))
                                for y in ast.walk(c.func.body)):
                env = {p_.arg: a for p_, a in zip(la.args, c.args)}
                arg_names = {y.id for a in c.args for y in ast.walk(a) if isinstance(y, ast.Name)}
                if not (arg_names & set(env)) or all(isinstance(a, ast.Name) and a.id == p_.arg for p_, a in zip(la.args, c.args)):
                    class SB(ast.NodeTransformer):
                        def visit_Name(self, n):
                            if n.id in env and isinstance(n.ctx, ast.Load):
                                return ast.copy_location(copy.deepcopy(env[n.id]), n)
                            return n
                    return SB().visit(c.func.body)
        # `any(ELT for T in <display>)` / `all(...)` -> the or/and chain it evaluates (same order, same short circuit, truth value)
        if isinstance(c.func, ast.Name) and c.func.id in ("any", "all") and len(c.args) == 1 and not c.keywords:
            inst = _comp_instances(c.args[0])
            if inst is not None and len(inst) >= 2:
                bo = ast.BoolOp(op=ast.Or() if c.func.id == "any" else ast.And(), values=inst)
                return ast.fix_missing_locations(ast.copy_location(ast.Call(func=ast.Name(id="bool", ctx=ast.Load()), args=[bo], keywords=[]), c))
        # `next((E for T in <display> if C), D)` -> `E1 if C1 else E2 if C2 else ... D` (first match, conditions tried in order)
        if isinstance(c.func, ast.Name) and c.func.id == "next" and len(c.args) == 2 and not c.keywords and isinstance(c.args[0], ast.GeneratorExp) \
                and _pure_simple(c.args[1]):
            inst = _comp_instances(c.args[0], with_conds=True)
            if inst is not None and all(cond is not None and _pure_expr(cond) for cond, _ in inst) and all(_pure_simple(e_) for _, e_ in inst):
                node = c.args[1]
                for cond, e_ in reversed(inst):
                    node = ast.IfExp(test=cond, body=e_, orelse=node)
                return ast.fix_missing_locations(ast.copy_location(node, c))
        # `g(*(ELT for T in <display>))` -> `g(ELT1, ELT2, ...)`
        if any(isinstance(a, ast.Starred) and _comp_instances(a.value) is not None for a in c.args):
            na = []
            for a in c.args:
                inst = _comp_instances(a.value) if isinstance(a, ast.Starred) else None
                if inst is not None:
                    na.extend(inst)
                else:
                    na.append(a)
            c.args = na
            ast.fix_missing_locations(c)
        if isinstance(c.func, ast.Name) and c.func.id == "dict" and not c.args and c.keywords and all(k.arg for k in c.keywords):
            return ast.copy_location(ast.Dict(keys=[ast.Constant(value=k.arg) for k in c.keywords], values=[k.value for k in c.keywords]), c)
        if isinstance(c.func, ast.Name) and c.func.id in ("tuple", "list") and len(c.args) == 1 and not c.keywords \
                and isinstance(c.args[0], (ast.GeneratorExp, ast.ListComp)) and len(c.args[0].generators) == 1:
            inst = _comp_instances(c.args[0])
            if inst is not None:
                # `tuple(t[i] for t in (A, B, C))` -> `(A[i], B[i], C[i])`
                mk = ast.Tuple if c.func.id == "tuple" else ast.List
                return ast.fix_missing_locations(ast.copy_location(mk(elts=inst, ctx=ast.Load()), c))
            g = c.args[0].generators[0]
            it = g.iter
            if isinstance(g.target, ast.Name) and not g.ifs and not g.is_async and isinstance(it, ast.Call) and isinstance(it.func, ast.Name) \
                    and it.func.id == "range" and not it.keywords and 1 <= len(it.args) <= 2 \
                    and all(isinstance(a, ast.Constant) and isinstance(a.value, int) and not isinstance(a.value, bool) for a in it.args):
                vals = list(range(*[a.value for a in it.args]))
                if len(vals) <= 8:
                    elts = []
                    for v in vals:
                        e = copy.deepcopy(c.args[0].elt)

                        class S(ast.NodeTransformer):
                            def visit_Name(self, n):
                                if n.id == g.target.id and isinstance(n.ctx, ast.Load):
                                    return ast.copy_location(ast.Constant(value=v), n)
                                return n
                        elts.append(S().visit(e))
                    mk = ast.Tuple if c.func.id == "tuple" else ast.List
                    return ast.copy_location(mk(elts=elts, ctx=ast.Load()), c)
        # list(map(f, xs)) / list(starmap(f, xs)) with f and xs plain names -> [f(x) for x in xs] / [f(*x) for x in xs]
        if isinstance(c.func, ast.Name) and c.func.id == "list" and len(c.args) == 1 and not c.keywords and isinstance(c.args[0], ast.Call) \
                and (_dotted_name(c.args[0].func) or "") in ("map", "starmap", "itertools.starmap") and len(c.args[0].args) == 2 and not c.args[0].keywords \
                and all(isinstance(a, ast.Name) for a in c.args[0].args):
            f_, xs_ = c.args[0].args
            var = ast.Name(id="x__map", ctx=ast.Load())
            arg = var if (_dotted_name(c.args[0].func) or "") == "map" else ast.Starred(value=var, ctx=ast.Load())
            lc = ast.ListComp(elt=ast.Call(func=f_, args=[arg], keywords=[]),
                              generators=[ast.comprehension(target=ast.Name(id="x__map", ctx=ast.Store()), iter=xs_, ifs=[], is_async=0)])
            return ast.fix_missing_locations(ast.copy_location(lc, c))
        # tuple([a, b]) / list((a, b)) / tuple((a, b)) -> the display itself
        if isinstance(c.func, ast.Name) and c.func.id in ("tuple", "list") and len(c.args) == 1 and not c.keywords \
                and isinstance(c.args[0], (ast.Tuple, ast.List)) and not any(isinstance(e, ast.Starred) for e in c.args[0].elts):
            mk = ast.Tuple if c.func.id == "tuple" else ast.List
            return ast.copy_location(mk(elts=list(c.args[0].elts), ctx=ast.Load()), c)
        # g(*(a, b), c) -> g(a, b, c)
        if any(isinstance(a, ast.Starred) and isinstance(a.value, (ast.Tuple, ast.List)) and not any(isinstance(e, ast.Starred) for e in a.value.elts)
               for a in c.args):
            na = []
            for a in c.args:
                if isinstance(a, ast.Starred) and isinstance(a.value, (ast.Tuple, ast.List)) and not any(isinstance(e, ast.Starred) for e in a.value.elts):
                    na.extend(a.value.elts)
                else:
                    na.append(a)
            c.args = na
        # g(*tuple(xs)) -> g(*xs)
        for i_, a in enumerate(c.args):
            if isinstance(a, ast.Starred) and isinstance(a.value, ast.Call) and isinstance(a.value.func, ast.Name) \
                    and a.value.func.id in ("tuple", "list") and len(a.value.args) == 1 and not a.value.keywords \
                    and not isinstance(a.value.args[0], (ast.GeneratorExp, ast.ListComp)):
                a.value = a.value.args[0]
        return c

    def visit_DictComp(self, n):
        # `{f: getattr(self, f) for f in ("a", "b")}` -> `{"a": getattr(self, "a"), "b": getattr(self, "b")}`
        self.generic_visit(n)
        ks = _comp_instances(n, elt=n.key)
        vs = _comp_instances(n, elt=n.value)
        if ks is not None and vs is not None and all(isinstance(k, ast.Constant) for k in ks) and len({k.value for k in ks}) == len(ks):
            return ast.fix_missing_locations(ast.copy_location(ast.Dict(keys=ks, values=vs), n))
        return n

    def visit_Dict(self, d):
        # `{"a": x, **{"b": y, "c": z}}` -> `{"a": x, "b": y, "c": z}` when all keys are distinct constants
        self.generic_visit(d)
        if any(k is None and isinstance(v, ast.Dict) and all(isinstance(k2, ast.Constant) for k2 in v.keys) for k, v in zip(d.keys, d.values)):
            keys, vals = [], []
            for k, v in zip(d.keys, d.values):
                if k is None and isinstance(v, ast.Dict) and all(isinstance(k2, ast.Constant) for k2 in v.keys):
                    keys.extend(v.keys)
                    vals.extend(v.values)
                else:
                    keys.append(k)
                    vals.append(v)
            consts_ = [k.value for k in keys if isinstance(k, ast.Constant)]
            if all(k is None or isinstance(k, ast.Constant) for k in keys) and len(set(consts_)) == len(consts_):
                d.keys, d.values = keys, vals
        return d

    def visit_ListComp(self, n):
        # `[f(i) for i in range(3)]` -> `[f(0), f(1), f(2)]`
        self.generic_visit(n)
        if len(n.generators) != 1:
            return n
        g = n.generators[0]
        it = g.iter
        if isinstance(g.target, ast.Name) and not g.ifs and not g.is_async and isinstance(it, ast.Call) and isinstance(it.func, ast.Name) \
                and it.func.id == "range" and not it.keywords and 1 <= len(it.args) <= 2 \
                and all(isinstance(a, ast.Constant) and isinstance(a.value, int) and not isinstance(a.value, bool) for a in it.args):
            vals = list(range(*[a.value for a in it.args]))
            if len(vals) <= 8:
                elts = []
                for v in vals:
                    elts.append(_ConstSubst(g.target.id, ast.Constant(value=v)).visit(copy.deepcopy(n.elt)))
                return ast.copy_location(ast.List(elts=elts, ctx=ast.Load()), n)
        return n

    def visit_Assign(self, a):
        # `x, y, z = (f(i) for i in range(3))`: unpacking consumes the generator exactly like tuple(...) does
        if len(a.targets) == 1 and isinstance(a.targets[0], (ast.Tuple, ast.List)) and isinstance(a.value, (ast.GeneratorExp, ast.ListComp)):
            a.value = ast.copy_location(ast.Call(func=ast.Name(id="tuple", ctx=ast.Load()), args=[a.value], keywords=[]), a.value)
        self.generic_visit(a)
        return a

    def visit_BinOp(self, b):
        self.generic_visit(b)
        if isinstance(b.op, ast.Add) and isinstance(b.left, ast.Tuple) and isinstance(b.right, ast.Tuple) \
                and not any(isinstance(e, ast.Starred) for e in b.left.elts + b.right.elts):
            return ast.copy_location(ast.Tuple(elts=list(b.left.elts) + list(b.right.elts), ctx=ast.Load()), b)
        return b


_MODULE_DEFS = set()        # names the module being normalised binds exactly once by `def` / `class`


def _drop_unreachable(stmts):
    """Statements after an unconditional return / raise / continue / break of the same block never run (they appear when a constant
    test was pruned or a continuation was copied into an arm that returns)."""
    for i, s in enumerate(stmts):
        for fld in ("body", "orelse", "finalbody"):
            blk = getattr(s, fld, None)
            if isinstance(blk, list) and not isinstance(s, (ast.FunctionDef, ast.AsyncFunctionDef, ast.ClassDef)):
                _drop_unreachable(blk)
        if isinstance(s, ast.Try):
            for h in s.handlers:
                _drop_unreachable(h.body)
        if isinstance(s, (ast.Return, ast.Raise, ast.Continue, ast.Break)) and i + 1 < len(stmts):
            del stmts[i + 1:]
            return


def _sink_into_selector_chain(fn):
    """An if/elif/else chain every arm of which ends by binding one name to a *selector constant* (a class or function of the module,
    or None), followed by the rest of the function that uses the name (`cls = ...; if cls is None: return None; return cls.load(f)`):
    the rest is copied into every arm with the constant substituted, so that each arm reads as the direct call it performs.  Only at
    the top level of a function, at most 6 arms and 8 following statements, the name (and one alias `x = name`) stored nowhere else."""
    def selector(v):
        return isinstance(v, ast.Constant) or (isinstance(v, ast.Name) and v.id in _MODULE_DEFS)

    def arms_of(node):
        out = []
        while True:
            out.append((node, "body"))
            if len(node.orelse) == 1 and isinstance(node.orelse[0], ast.If):
                node = node.orelse[0]
                continue
            if not node.orelse:
                return None
            out.append((node, "orelse"))
            return out
    body = fn.body
    for i, s in enumerate(body):
        if not isinstance(s, ast.If):
            continue
        arms = arms_of(s)
        if arms is None or len(arms) > 6:
            continue
        name = None
        ok = True
        for node, fld in arms:
            last = getattr(node, fld)[-1]
            if not (isinstance(last, ast.Assign) and len(last.targets) == 1 and isinstance(last.targets[0], ast.Name) and selector(last.value)):
                ok = False
                break
            if name is None:
                name = last.targets[0].id
            elif name != last.targets[0].id:
                ok = False
                break
        cont = body[i + 1:]
        if not ok or name is None or not cont or len(cont) > 8:
            continue
        names = {name}
        if isinstance(cont[0], ast.Assign) and len(cont[0].targets) == 1 and isinstance(cont[0].targets[0], ast.Name) \
                and isinstance(cont[0].value, ast.Name) and cont[0].value.id == name:
            names.add(cont[0].targets[0].id)
            cont = cont[1:]
        stores = [x for st in body for x in ast.walk(st) if isinstance(x, ast.Name) and x.id in names and isinstance(x.ctx, (ast.Store, ast.Del))]
        if len(stores) != len(arms) + (len(names) - 1) or not cont:
            continue
        if not any(isinstance(x, ast.Name) and x.id in names for st in cont for x in ast.walk(st)):
            continue
        if any(isinstance(x, (ast.FunctionDef, ast.Lambda, ast.ClassDef)) for st in cont for x in ast.walk(st)):
            continue
        for node, fld in arms:
            blk = getattr(node, fld)
            const = blk[-1].value
            for st in cont:
                c = copy.deepcopy(st)
                for nm in names:
                    c = _ConstSubst(nm, const).visit(c)
                blk.append(c)
        del body[i + 1:]
        return 1
    return 0


class _SimplifySelectorTests(ast.NodeTransformer):
    """`(A if c else B) is None` / `is not None` / `== k` with constant arms (what an inlined decision-tree helper leaves in a test):
    the comparison is pushed into the arms, constant comparisons are folded, and `True if c else e` -> `c or e`,
    `False if c else e` -> `not c and e`, `e if c else True` -> `not c or e`, `e if c else False` -> `c and e`."""

    def fold(self, left, op, right):
        if isinstance(left, ast.Constant) and isinstance(right, ast.Constant):
            a, b = left.value, right.value
            if isinstance(op, ast.Is):
                return ast.Constant(value=(a is b) if (a is None or b is None) else (a == b and type(a) is type(b)))
            if isinstance(op, ast.IsNot):
                return ast.Constant(value=not ((a is b) if (a is None or b is None) else (a == b and type(a) is type(b))))
            if isinstance(op, ast.Eq):
                return ast.Constant(value=a == b)
            if isinstance(op, ast.NotEq):
                return ast.Constant(value=a != b)
        return None

    def push(self, e, op, right):
        if isinstance(e, ast.IfExp):
            return ast.IfExp(test=e.test, body=self.push(e.body, op, right), orelse=self.push(e.orelse, op, right))
        f = self.fold(e, op, right)
        return f if f is not None else ast.Compare(left=e, ops=[op], comparators=[right])

    def boolify(self, e):
        if not isinstance(e, ast.IfExp):
            return e
        b, o = self.boolify(e.body), self.boolify(e.orelse)
        cb = b.value if isinstance(b, ast.Constant) and isinstance(b.value, bool) else None
        co = o.value if isinstance(o, ast.Constant) and isinstance(o.value, bool) else None
        neg = lambda x: ast.UnaryOp(op=ast.Not(), operand=x)
        if cb is True and co is True:
            return e          # (keeps the evaluation of the test)
        if cb is True:
            return e.test if co is False else ast.BoolOp(op=ast.Or(), values=[e.test, o])
        if cb is False:
            return neg(e.test) if co is True else ast.BoolOp(op=ast.And(), values=[neg(e.test), o])
        if co is True:
            return ast.BoolOp(op=ast.Or(), values=[neg(e.test), b])
        if co is False:
            return ast.BoolOp(op=ast.And(), values=[e.test, b])
        return ast.IfExp(test=e.test, body=b, orelse=o)

    def visit_Compare(self, c):
        self.generic_visit(c)
        if len(c.ops) == 1 and isinstance(c.left, ast.IfExp) and isinstance(c.comparators[0], ast.Constant) \
                and isinstance(c.ops[0], (ast.Is, ast.IsNot, ast.Eq, ast.NotEq)):
            def const_arms(e):
                return const_arms(e.body) and const_arms(e.orelse) if isinstance(e, ast.IfExp) else isinstance(e, ast.Constant)
            if const_arms(c.left):
                r = self.boolify(self.push(c.left, c.ops[0], c.comparators[0]))
                # flatten nested `a or (b or c)`
                def flat(x):
                    if isinstance(x, ast.BoolOp):
                        vals = []
                        for v in x.values:
                            v = flat(v)
                            if isinstance(v, ast.BoolOp) and type(v.op) is type(x.op):
                                vals.extend(v.values)
                            else:
                                vals.append(v)
                        x.values = vals
                    return x
                r = flat(r)
                ast.copy_location(r, c)
                ast.fix_missing_locations(r)
                return r
        return c


class _PruneConstantIfs(ast.NodeTransformer):
    """`if True:` / `if False:` / `if 0:` (a literal test): replaced by the arm that runs.  `while False:` is dropped."""

    def visit_If(self, node):
        self.generic_visit(node)
        t = node.test
        # `not True` / `not False` / `not None` (a selector constant substituted into a copied continuation)
        while isinstance(t, ast.UnaryOp) and isinstance(t.op, ast.Not) and isinstance(t.operand, ast.Constant) \
                and (isinstance(t.operand.value, (bool, int)) or t.operand.value is None) and not isinstance(t.operand.value, str):
            t = node.test = ast.copy_location(ast.Constant(value=not t.operand.value), t)
        # `None is None` / `None is not None` (a default argument substituted into an inlined helper)
        if isinstance(t, ast.Compare) and len(t.ops) == 1 and isinstance(t.left, ast.Constant) and isinstance(t.comparators[0], ast.Constant) \
                and isinstance(t.ops[0], (ast.Is, ast.IsNot)) and (t.left.value is None or t.comparators[0].value is None):
            same = t.left.value is t.comparators[0].value
            node.test = ast.copy_location(ast.Constant(value=same if isinstance(t.ops[0], ast.Is) else not same), t)
        # `SomeClass is None` / `some_function is not None`: a name the module binds once by def/class is never None
        if isinstance(t, ast.Compare) and len(t.ops) == 1 and isinstance(t.ops[0], (ast.Is, ast.IsNot)) \
                and isinstance(t.comparators[0], ast.Constant) and t.comparators[0].value is None \
                and isinstance(t.left, ast.Name) and t.left.id in _MODULE_DEFS:
            node.test = ast.copy_location(ast.Constant(value=isinstance(t.ops[0], ast.IsNot)), t)
        # `(a, b) is None` / `[..] is not None`: a display is a fresh object, never None (its elements are still evaluated: only
        # displays of names and constants are folded)
        t = node.test
        if isinstance(t, ast.Compare) and len(t.ops) == 1 and isinstance(t.ops[0], (ast.Is, ast.IsNot)) \
                and isinstance(t.comparators[0], ast.Constant) and t.comparators[0].value is None \
                and isinstance(t.left, (ast.Tuple, ast.List)) and _pure_simple(t.left):
            node.test = ast.copy_location(ast.Constant(value=isinstance(t.ops[0], ast.IsNot)), t)
        if isinstance(node.test, ast.Constant) and isinstance(node.test.value, (bool, int)) and not isinstance(node.test.value, str):
            arm = node.body if node.test.value else node.orelse
            return arm if arm else ast.copy_location(ast.Pass(), node)
        return node

    def visit_FunctionDef(self, node):
        self.generic_visit(node)
        _drop_unreachable(node.body)
        return node

    def visit_While(self, node):
        self.generic_visit(node)
        if isinstance(node.test, ast.Constant) and node.test.value is False and not node.orelse:
            return ast.copy_location(ast.Pass(), node)
        return node


def _expand_const_dict_lookups(tree):
    """A module-level dict display of at most 8 entries that the module never mutates (`_BY_TYPE = {"linear": A, "log16": B}`) is a
    spelled-out decision: `x = T.get(k[, d])`, `x = T[k]`, `return T.get(k)` / `return T[k]` become the if/elif chain over the keys in
    display order (else: the default, None, or `raise KeyError(k)`), and `k in T` becomes the disjunction of the comparisons.  Keys
    written `np.dtype(X)` are compared as `X` (a dtype equals the scalar type it was built from)."""
    tables = {}
    for n in tree.body:
        if isinstance(n, ast.Assign) and len(n.targets) == 1 and isinstance(n.targets[0], ast.Name) and isinstance(n.value, ast.Dict) \
                and 0 < len(n.value.keys) <= 8 and all(k is not None for k in n.value.keys):
            def keyok(k):
                return (isinstance(k, ast.Constant) and isinstance(k.value, (str, int)) and not isinstance(k.value, bool)) or \
                    (isinstance(k, ast.Call) and _dotted_name(k.func) in ("np.dtype", "numpy.dtype") and len(k.args) == 1 and not k.keywords
                     and _dotted_name(k.args[0]) is not None)
            def valok(v):
                return isinstance(v, ast.Constant) or (isinstance(v, ast.Name) and v.id in _MODULE_STABLE)
            if all(keyok(k) for k in n.value.keys) and all(valok(v) for v in n.value.values):
                tables[n.targets[0].id] = n.value
    if not tables:
        return 0
    # never rebound, never mutated, never passed on as a value
    for x in ast.walk(tree):
        if isinstance(x, ast.Name) and x.id in tables and isinstance(x.ctx, (ast.Store, ast.Del)):
            pass
    uses = {t: 0 for t in tables}
    bad = set()
    parents = {}
    for p_ in ast.walk(tree):
        for c_ in ast.iter_child_nodes(p_):
            parents[id(c_)] = p_
    for x in ast.walk(tree):
        if not (isinstance(x, ast.Name) and x.id in tables):
            continue
        par = parents.get(id(x))
        if isinstance(x.ctx, ast.Store):
            if not (isinstance(par, ast.Assign) and par in tree.body):
                bad.add(x.id)
            continue
        if isinstance(par, ast.Attribute) and par.attr == "get" and isinstance(parents.get(id(par)), ast.Call) and parents[id(par)].func is par:
            continue
        if isinstance(par, ast.Subscript) and par.value is x and isinstance(par.ctx, ast.Load):
            continue
        if isinstance(par, ast.Compare) and x in par.comparators and len(par.ops) == 1 and isinstance(par.ops[0], (ast.In, ast.NotIn)):
            continue
        bad.add(x.id)
    for b in bad:
        tables.pop(b, None)
    if not tables:
        return 0
    count = [0]

    def keyexpr(k):
        return copy.deepcopy(k.args[0]) if isinstance(k, ast.Call) else copy.deepcopy(k)

    def simple(a):
        return isinstance(a, (ast.Name, ast.Constant)) or (isinstance(a, ast.Attribute) and simple(a.value))

    def lookup(v):
        """(table, key expr, default expr | 'raise') if v is a lookup in a constant table with a simple key."""
        if isinstance(v, ast.Call) and isinstance(v.func, ast.Attribute) and v.func.attr == "get" and isinstance(v.func.value, ast.Name) \
                and v.func.value.id in tables and 1 <= len(v.args) <= 2 and not v.keywords and all(simple(a) for a in v.args):
            return tables[v.func.value.id], v.args[0], (v.args[1] if len(v.args) == 2 else ast.Constant(value=None))
        if isinstance(v, ast.Subscript) and isinstance(v.value, ast.Name) and v.value.id in tables and simple(v.slice):
            return tables[v.value.id], v.slice, "raise"
        return None

    def chain(tab, key, default, mk, at):
        node = None
        last = [mk(copy.deepcopy(default))] if default != "raise" else \
            [ast.Raise(exc=ast.Call(func=ast.Name(id="KeyError", ctx=ast.Load()), args=[copy.deepcopy(key)], keywords=[]), cause=None)]
        orelse = last
        for k, val in reversed(list(zip(tab.keys, tab.values))):
            test = ast.Compare(left=copy.deepcopy(key), ops=[ast.Eq()], comparators=[keyexpr(k)])
            node = ast.If(test=test, body=[mk(copy.deepcopy(val))], orelse=orelse)
            orelse = [node]
        ast.copy_location(node, at)
        ast.fix_missing_locations(node)
        for sub in ast.walk(node):
            ast.copy_location(sub, at) if not hasattr(sub, "lineno") else None
        return node

    def block(stmts):
        out = []
        for st in stmts:
            if isinstance(st, (ast.ClassDef,)):
                st.body = block(st.body)
                out.append(st)
                continue
            for fld in ("body", "orelse", "finalbody"):
                if hasattr(st, fld) and isinstance(getattr(st, fld), list):
                    setattr(st, fld, block(getattr(st, fld)))
            if isinstance(st, ast.Try):
                for h in st.handlers:
                    h.body = block(h.body)
            if isinstance(st, ast.Assign) and len(st.targets) == 1 and isinstance(st.targets[0], ast.Name):
                lk = lookup(st.value)
                if lk is not None:
                    tgt = st.targets[0]
                    out.append(chain(lk[0], lk[1], lk[2], lambda v: ast.Assign(targets=[copy.deepcopy(tgt)], value=v), st))
                    count[0] += 1
                    continue
            if isinstance(st, ast.Return) and st.value is not None:
                lk = lookup(st.value)
                if lk is not None:
                    out.append(chain(lk[0], lk[1], lk[2], lambda v: ast.Return(value=v), st))
                    count[0] += 1
                    continue
            out.append(st)
        return out
    tree.body = block(tree.body)

    class T(ast.NodeTransformer):
        def visit_Compare(self, c):
            self.generic_visit(c)
            if len(c.ops) == 1 and isinstance(c.ops[0], (ast.In, ast.NotIn)) and isinstance(c.comparators[0], ast.Name) \
                    and c.comparators[0].id in tables and simple(c.left):
                tab = tables[c.comparators[0].id]
                alts = [ast.Compare(left=copy.deepcopy(c.left), ops=[ast.Eq()], comparators=[keyexpr(k)]) for k in tab.keys]
                e = alts[0] if len(alts) == 1 else ast.BoolOp(op=ast.Or(), values=alts)
                if isinstance(c.ops[0], ast.NotIn):
                    e = ast.UnaryOp(op=ast.Not(), operand=e)
                count[0] += 1
                return ast.copy_location(e, c)
            return c
    T().visit(tree)
    ast.fix_missing_locations(tree)
    return count[0]


def _dotted_name(n):
    parts = []
    while isinstance(n, ast.Attribute):
        parts.append(n.attr)
        n = n.value
    if isinstance(n, ast.Name):
        parts.append(n.id)
        return ".".join(reversed(parts))
    return None


def _specialise_table_helpers(tree):
    """A private plain helper one of whose parameters is used only as the iterable of its loops / comprehensions, and which every call
    site hands a module-level constant tuple by name (`_first_mismatch(self, other, _MERGE_ATTRS)`): a copy per table is made with the
    parameter replaced by the table and the loops unrolled, and the call sites call the copy.  The copy is then an ordinary helper
    (a decision tree of returns, straight-line stores) that the inliner can expand."""
    # a literal tuple of constants handed over at the call site is a table too: it is given a module-level name first
    privates = {n.name for n in ast.walk(tree) if isinstance(n, ast.FunctionDef) and _is_private(n.name) and not _is_njit(n)}
    lits = {}
    for c in ast.walk(tree):
        if isinstance(c, ast.Call) and ((isinstance(c.func, ast.Name) and c.func.id in privates) or
                                        (isinstance(c.func, ast.Attribute) and c.func.attr in privates)) and not c.keywords:
            for i_, a in enumerate(c.args):
                if isinstance(a, (ast.Tuple, ast.List)) and 0 < len(a.elts) <= 8 and all(
                        isinstance(e, ast.Constant) and isinstance(e.value, (str, int)) and not isinstance(e.value, bool) for e in a.elts):
                    key = ast.dump(a)
                    if key not in lits:
                        lits[key] = ("LITTABLE__%d" % (len(lits) + 1), a)
                    c.args[i_] = ast.copy_location(ast.Name(id=lits[key][0], ctx=ast.Load()), a)
    if lits:
        i0 = 0
        while i0 < len(tree.body) and (isinstance(tree.body[i0], (ast.Import, ast.ImportFrom)) or
                                       (isinstance(tree.body[i0], ast.Expr) and isinstance(tree.body[i0].value, ast.Constant))):
            i0 += 1
        tree.body[i0:i0] = [ast.Assign(targets=[ast.Name(id=nm, ctx=ast.Store())], value=ast.Tuple(elts=list(a.elts), ctx=ast.Load()), lineno=1, col_offset=0)
                            for nm, a in lits.values()]
        ast.fix_missing_locations(tree)
    consts = _module_const_tuples(tree)
    if not consts:
        return 0
    owners = [(tree, None)] + [(c, c) for c in tree.body if isinstance(c, ast.ClassDef)]
    count = 0
    for owner, cls in owners:
        for fn in [n for n in list(owner.body) if isinstance(n, ast.FunctionDef)]:
            if not _is_private(fn.name) or _is_njit(fn) or fn.args.vararg or fn.args.kwarg or fn.args.kwonlyargs:
                continue
            params = [a.arg for a in fn.args.posonlyargs + fn.args.args]
            is_method = cls is not None and "staticmethod" not in _decorators(fn)
            tparams = []
            for pi, pname in enumerate(params):
                if is_method and pi == 0:
                    continue
                uses = [n for n in ast.walk(fn) if isinstance(n, ast.Name) and n.id == pname]
                iters = {id(n.iter) for n in ast.walk(fn) if isinstance(n, (ast.For, ast.comprehension)) and isinstance(n.iter, ast.Name)}
                if uses and all(id(u) in iters for u in uses):
                    tparams.append((pi, pname))
            if not tparams:
                continue
            # call sites
            sites = []
            ok = True
            for c in ast.walk(tree):
                if not isinstance(c, ast.Call):
                    continue
                f = c.func
                hit = (isinstance(f, ast.Name) and f.id == fn.name and cls is None) or \
                      (isinstance(f, ast.Attribute) and f.attr == fn.name and cls is not None and isinstance(f.value, ast.Name) and f.value.id in ("self", cls.name))
                if not hit:
                    continue
                if c.keywords or any(isinstance(a, ast.Starred) for a in c.args):
                    ok = False
                    break
                off = 1 if (is_method and isinstance(f, ast.Attribute) and f.value.id == "self") else 0
                names = []
                for pi, pname in tparams:
                    ai = pi - off
                    if not (0 <= ai < len(c.args)) or not (isinstance(c.args[ai], ast.Name) and c.args[ai].id in consts):
                        ok = False
                        break
                    names.append(c.args[ai].id)
                if not ok:
                    break
                sites.append((c, off, tuple(names)))
            # the name must not be used as a value anywhere else (passed on, stored)
            refs = [n for n in ast.walk(tree) if (isinstance(n, ast.Name) and n.id == fn.name and cls is None) or
                    (isinstance(n, ast.Attribute) and n.attr == fn.name and cls is not None)]
            if not ok or not sites or len(refs) != len(sites):
                continue
            made = {}
            for c, off, names in sites:
                if names not in made:
                    cp = copy.deepcopy(fn)
                    cp.name = "%s__%s" % (fn.name, "_".join(n.strip("_") for n in names))
                    drop = {pname for _, pname in tparams}
                    cp.args.args = [a for a in cp.args.args if a.arg not in drop]
                    cp.args.posonlyargs = [a for a in cp.args.posonlyargs if a.arg not in drop]
                    if cp.args.defaults:
                        cp.args.defaults = []        # (helpers with defaults on the remaining parameters are not specialised)
                    for (pi, pname), cname in zip(tparams, names):
                        cp = _ConstSubst(pname, ast.Name(id=cname, ctx=ast.Load())).visit(cp)
                    _static_expand(cp, consts)
                    ast.fix_missing_locations(cp)
                    owner.body.insert(owner.body.index(fn) + 1, cp)
                    made[names] = cp
                if fn.args.defaults:
                    continue
                cp = made[names]
                idxs = sorted((pi - off for pi, _ in tparams), reverse=True)
                for ai in idxs:
                    del c.args[ai]
                if isinstance(c.func, ast.Name):
                    c.func.id = cp.name
                else:
                    c.func.attr = cp.name
                count += 1
    return count


def _ndindex_loops(tree):
    """`for i, j in np.ndindex(a, b):` (tuple target of the same arity, no break, no else) is the row-major nest
    `for i in range(a): for j in range(b):` -- `continue` means the same in both spellings."""
    count = [0]
    fresh = itertools.count()

    class G(ast.NodeTransformer):
        # `for T in (E for V in IT if C): BODY` -- the generator is consumed lazily, one element per iteration, so this is
        # `for V' in IT: if C: T = E; BODY` (V' a fresh name: the generator's variable is its own)
        def nest(self, n, ge):
            # `for T in (E for V1 in I1 for V2 in I2 if C): BODY` is the nest `for V1' in I1: for V2' in I2: if C: T = E; BODY`;
            # a `break` in BODY would leave only the inner loop of the nest, so such bodies are left alone
            def own_break(stmts):
                for st in stmts:
                    if isinstance(st, ast.Break):
                        return True
                    if isinstance(st, (ast.For, ast.While, ast.AsyncFor, ast.FunctionDef, ast.AsyncFunctionDef, ast.ClassDef)):
                        if own_break(getattr(st, "orelse", []) or []):
                            return True
                        continue
                    for fld in ("body", "orelse", "finalbody"):
                        if own_break(getattr(st, fld, []) or []):
                            return True
                    for h in getattr(st, "handlers", []) or []:
                        if own_break(h.body):
                            return True
                return False
            if own_break(n.body):
                return n
            k = next(fresh)
            vnames = {x.id for g_ in ge.generators for x in ast.walk(g_.target) if isinstance(x, ast.Name)}
            ren = {v: "%s__gx%d" % (v, k) for v in vnames}

            class R(ast.NodeTransformer):
                def visit_Name(self, x):
                    if x.id in ren:
                        return ast.copy_location(ast.Name(id=ren[x.id], ctx=x.ctx), x)
                    return x
            elt = R().visit(copy.deepcopy(ge.elt))
            body = list(n.body)
            tstores = {x.id for st in n.body for x in ast.walk(st) if isinstance(x, ast.Name) and isinstance(x.ctx, (ast.Store, ast.Del))}
            if isinstance(n.target, ast.Name) and isinstance(elt, ast.Tuple) and all(isinstance(e, ast.Name) for e in elt.elts) \
                    and n.target.id not in tstores and not (tstores & {e.id for e in elt.elts}):
                # the item is a tuple of the nest's own variables: the body reads the display
                body = [_ConstSubst(n.target.id, elt).visit(st) for st in body]
            body = [ast.Assign(targets=[copy.deepcopy(n.target)], value=elt)] + body
            # the first iterable is evaluated in the enclosing scope, the others and the conditions see the renamed variables
            for gi in range(len(ge.generators) - 1, -1, -1):
                g_ = ge.generators[gi]
                conds = [R().visit(copy.deepcopy(c)) for c in g_.ifs]
                if conds:
                    test = conds[0] if len(conds) == 1 else ast.BoolOp(op=ast.And(), values=conds)
                    body = [ast.If(test=test, body=body, orelse=[])]
                it = copy.deepcopy(g_.iter) if gi == 0 else R().visit(copy.deepcopy(g_.iter))
                body = [ast.For(target=R().visit(copy.deepcopy(g_.target)), iter=it, body=body, orelse=[], type_comment=None)]
            count[0] += 1
            return ast.fix_missing_locations(ast.copy_location(body[0], n))

        def visit_For(self, n):
            self.generic_visit(n)
            ge = n.iter
            if isinstance(ge, ast.GeneratorExp) and len(ge.generators) > 1 and not n.orelse and not any(g_.is_async for g_ in ge.generators) \
                    and not any(isinstance(x, (ast.NamedExpr, ast.Yield, ast.YieldFrom, ast.Await, ast.Lambda)) for x in ast.walk(ge)):
                return self.nest(n, ge)
            if not (isinstance(ge, ast.GeneratorExp) and len(ge.generators) == 1 and not ge.generators[0].is_async and not n.orelse):
                return n
            g = ge.generators[0]
            if any(isinstance(x, (ast.NamedExpr, ast.Yield, ast.YieldFrom, ast.Await, ast.Lambda)) for x in ast.walk(ge)):
                return n
            k = next(fresh)
            vnames = {x.id for x in ast.walk(g.target) if isinstance(x, ast.Name)}
            ren = {v: "%s__gx%d" % (v, k) for v in vnames}

            class R(ast.NodeTransformer):
                def visit_Name(self, x):
                    if x.id in ren:
                        return ast.copy_location(ast.Name(id=ren[x.id], ctx=x.ctx), x)
                    return x
            tgt = R().visit(copy.deepcopy(g.target))
            elt = R().visit(copy.deepcopy(ge.elt))
            conds = [R().visit(copy.deepcopy(c)) for c in g.ifs]
            if isinstance(g.target, ast.Name) and isinstance(ge.elt, ast.Name) and ge.elt.id == g.target.id and isinstance(n.target, (ast.Tuple, ast.List)) \
                    and all(isinstance(t, ast.Name) for t in n.target.elts) and isinstance(g.iter, ast.Call) \
                    and _dotted_name(g.iter.func) in ("product", "itertools.product", "np.ndindex", "numpy.ndindex") and len(g.iter.args) == len(n.target.elts):
                # the element is the item itself and the item is a k-tuple: the loop's own targets take its components
                disp = ast.Tuple(elts=[ast.Name(id=t.id, ctx=ast.Load()) for t in n.target.elts], ctx=ast.Load())
                conds = [_ConstSubst(ren[g.target.id], disp).visit(c) for c in conds]
                tgt, first = copy.deepcopy(n.target), []
            else:
                first = [ast.Assign(targets=[copy.deepcopy(n.target)], value=elt)]
            body = first + n.body
            if conds:
                test = conds[0] if len(conds) == 1 else ast.BoolOp(op=ast.And(), values=conds)
                body = [ast.If(test=test, body=body, orelse=[])]
            new = ast.For(target=tgt, iter=g.iter, body=body, orelse=[], type_comment=None)
            count[0] += 1
            return ast.fix_missing_locations(ast.copy_location(new, n))
    G().visit(tree)

    class T(ast.NodeTransformer):
        def visit_For(self, n):
            self.generic_visit(n)
            it = n.iter
            # itertools.product(range(a), range(b)) visits the same index pairs in the same order as np.ndindex(a, b)
            if isinstance(it, ast.Call) and _dotted_name(it.func) in ("product", "itertools.product") and not it.keywords and len(it.args) >= 1 \
                    and all(isinstance(a, ast.Call) and isinstance(a.func, ast.Name) and a.func.id == "range" and len(a.args) == 1 and not a.keywords
                            for a in it.args):
                it = ast.copy_location(ast.Call(func=ast.Attribute(value=ast.Name(id="np", ctx=ast.Load()), attr="ndindex", ctx=ast.Load()),
                                                args=[a.args[0] for a in it.args], keywords=[]), it)
            if isinstance(it, ast.Call) and _dotted_name(it.func) in ("np.ndindex", "numpy.ndindex") and not it.keywords and not n.orelse \
                    and isinstance(n.target, (ast.Tuple, ast.List)) and len(n.target.elts) == len(it.args) >= 1 \
                    and all(isinstance(t, ast.Name) for t in n.target.elts) and not any(isinstance(a, ast.Starred) for a in it.args) \
                    and not any(isinstance(x, ast.Break) for b in n.body for x in ast.walk(b)):
                # the extents are evaluated once, before the loop: they must be expressions the body cannot change
                simple = lambda a: isinstance(a, (ast.Name, ast.Constant)) or (isinstance(a, ast.Attribute) and simple(a.value)) or \
                    (isinstance(a, ast.Call) and isinstance(a.func, ast.Name) and a.func.id == "int" and len(a.args) == 1 and not a.keywords and simple(a.args[0]))
                if not all(simple(a) for a in it.args):
                    return n
                body = n.body
                for tgt, ext in reversed(list(zip(n.target.elts, it.args))):
                    rng = ast.Call(func=ast.Name(id="range", ctx=ast.Load()), args=[ext], keywords=[])
                    body = [ast.copy_location(ast.For(target=tgt, iter=rng, body=body, orelse=[], type_comment=None), n)]
                count[0] += 1
                ast.fix_missing_locations(body[0])
                return body[0]
            return n
    T().visit(tree)

    # `for b in range(A * B): r, c = divmod(b, B); BODY` (b used nowhere else): the same row-major nest
    class D(ast.NodeTransformer):
        def visit_For(self, n):
            self.generic_visit(n)
            it = n.iter
            if not (isinstance(it, ast.Call) and isinstance(it.func, ast.Name) and it.func.id == "range" and len(it.args) == 1 and not it.keywords
                    and isinstance(it.args[0], ast.BinOp) and isinstance(it.args[0].op, ast.Mult) and isinstance(n.target, ast.Name) and not n.orelse and n.body):
                return n
            first = n.body[0]
            if not (isinstance(first, ast.Assign) and len(first.targets) == 1 and isinstance(first.targets[0], (ast.Tuple, ast.List))
                    and len(first.targets[0].elts) == 2 and all(isinstance(t, ast.Name) for t in first.targets[0].elts)
                    and isinstance(first.value, ast.Call) and isinstance(first.value.func, ast.Name) and first.value.func.id == "divmod"
                    and len(first.value.args) == 2 and isinstance(first.value.args[0], ast.Name) and first.value.args[0].id == n.target.id):
                return n
            a, b = it.args[0].left, it.args[0].right
            simple = lambda x: isinstance(x, (ast.Name, ast.Constant)) or (isinstance(x, ast.Attribute) and simple(x.value)) or \
                (isinstance(x, ast.Call) and isinstance(x.func, ast.Name) and x.func.id == "int" and len(x.args) == 1 and not x.keywords and simple(x.args[0]))
            if not (simple(a) and simple(b) and ast.dump(first.value.args[1]) == ast.dump(b)):
                return n
            rest = n.body[1:]
            uses = [x for st in rest for x in ast.walk(st) if isinstance(x, ast.Name) and x.id == n.target.id]
            stores = {x.id for st in rest for x in ast.walk(st) if isinstance(x, ast.Name) and isinstance(x.ctx, (ast.Store, ast.Del))}
            names_ab = {x.id for e in (a, b) for x in ast.walk(e) if isinstance(x, ast.Name)}
            if uses or not rest or (stores & (names_ab | {t.id for t in first.targets[0].elts})) \
                    or any(isinstance(x, ast.Break) for st in rest for x in ast.walk(st)):
                return n
            r, c = first.targets[0].elts
            inner = ast.For(target=c, iter=ast.Call(func=ast.Name(id="range", ctx=ast.Load()), args=[copy.deepcopy(b)], keywords=[]), body=rest, orelse=[], type_comment=None)
            outer = ast.For(target=r, iter=ast.Call(func=ast.Name(id="range", ctx=ast.Load()), args=[copy.deepcopy(a)], keywords=[]), body=[inner], orelse=[], type_comment=None)
            ast.copy_location(inner, n)
            ast.copy_location(outer, n)
            ast.fix_missing_locations(outer)
            count[0] += 1
            return outer
    D().visit(tree)
    return count[0]


def _eliminate_loop_continues(fn):
    """Guard clauses of a loop body: `if T: A; continue` followed by REST is `if T: A else: REST` (recursively; A must not contain
    another break/continue).  Python-level functions only: the rules read loop bodies as decision trees."""
    count = [0]

    def fix_body(body):
        for i, st in enumerate(body):
            if isinstance(st, ast.If) and not st.orelse and st.body and isinstance(st.body[-1], ast.Continue) \
                    and not any(isinstance(x, (ast.Break, ast.Continue)) for b in st.body[:-1] for x in ast.walk(b)) and i + 1 < len(body):
                rest = fix_body(body[i + 1:])
                st.body = st.body[:-1] or [ast.copy_location(ast.Pass(), st)]
                st.orelse = rest
                count[0] += 1
                return body[:i + 1]
        return body

    def visit(stmts):
        for st in stmts:
            if isinstance(st, (ast.FunctionDef, ast.AsyncFunctionDef, ast.ClassDef)):
                continue
            for fld in ("body", "orelse", "finalbody"):
                blk = getattr(st, fld, None)
                if isinstance(blk, list):
                    visit(blk)
            if isinstance(st, ast.Try):
                for h in st.handlers:
                    visit(h.body)
            if isinstance(st, (ast.For, ast.While)):
                st.body = fix_body(st.body)
    visit(fn.body)
    return count[0]


def _hoist_class_constants(tree):
    """A class-level constant (`_ARRAYS = ("a", "b")`, `_P_MIN = 7`, `_MSG = "..."`) that nothing in the module ever stores to is
    read as a module-level constant `Class__NAME`: `self.NAME` / `cls.NAME` / `Class.NAME` loads inside the class's own methods
    (and `Class.NAME` anywhere in the module) are replaced by that name.  Only literal tuples/lists of literals and scalar literals;
    subclasses that rebind the name disqualify it."""
    count = 0
    classes = [c for c in tree.body if isinstance(c, ast.ClassDef)]
    stored_attrs = {n.attr for n in ast.walk(tree) if isinstance(n, ast.Attribute) and isinstance(n.ctx, (ast.Store, ast.Del))}
    setattr_names = {c.args[1].value for c in ast.walk(tree) if isinstance(c, ast.Call) and isinstance(c.func, ast.Name) and c.func.id in ("setattr", "delattr")
                     and len(c.args) >= 2 and isinstance(c.args[1], ast.Constant)}
    dyn = any(isinstance(c, ast.Call) and isinstance(c.func, ast.Name) and c.func.id in ("setattr", "delattr") and len(c.args) >= 2
              and not isinstance(c.args[1], ast.Constant) for c in ast.walk(tree))
    if dyn:
        return 0

    def lit(v):
        if isinstance(v, ast.Constant) and isinstance(v.value, (str, int, float)) and not isinstance(v.value, bool):
            return True
        # `np.uint64(7)`: a numpy scalar of a literal
        if isinstance(v, ast.Call) and len(v.args) == 1 and not v.keywords and isinstance(v.args[0], ast.Constant) \
                and isinstance(v.args[0].value, (int, float)) and not isinstance(v.args[0].value, bool) \
                and (_dotted_name(v.func) or "").split(".")[-1] in ("uint8", "uint16", "uint32", "uint64", "int8", "int16", "int32", "int64", "float32", "float64") \
                and (_dotted_name(v.func) or "").split(".")[0] in ("np", "numpy", "uint8", "uint16", "uint32", "uint64", "int8", "int16", "int32", "int64", "float32", "float64"):
            return True
        if isinstance(v, (ast.Tuple, ast.List)) and v.elts:
            return all(lit(e) or (isinstance(e, (ast.Tuple, ast.List)) and all(lit(x) for x in e.elts)) for e in v.elts)
        return False
    new_defs = []
    for c in classes:
        for st in list(c.body):
            if not (isinstance(st, ast.Assign) and len(st.targets) == 1 and isinstance(st.targets[0], ast.Name) and lit(st.value)):
                continue
            name = st.targets[0].id
            if name in stored_attrs or name in setattr_names or name.startswith("__"):
                continue
            # bound once in this class, not rebound in any other class of the module, no method parameter/local of that name matters
            binds = [x for k in classes for x in k.body if isinstance(x, ast.Assign) and any(isinstance(t, ast.Name) and t.id == name for t in x.targets)]
            if len(binds) != 1:
                continue
            subs = {k.name for k in classes if k is c or any(isinstance(b, ast.Name) and b.id == c.name for b in k.bases)}
            # transitive subclasses
            grew = True
            while grew:
                grew = False
                for k in classes:
                    if k.name not in subs and any(isinstance(b, ast.Name) and b.id in subs for b in k.bases):
                        subs.add(k.name)
                        grew = True
            gname = "%s__%s" % (c.name, name.strip("_"))

            class T(ast.NodeTransformer):
                def __init__(self, in_cls):
                    self.in_cls = in_cls
                    self.n = 0

                def visit_Attribute(self, a):
                    self.generic_visit(a)
                    if a.attr == name and isinstance(a.ctx, ast.Load) and isinstance(a.value, ast.Name) and (
                            (self.in_cls and a.value.id in ("self", "cls")) or a.value.id in subs):
                        self.n += 1
                        return ast.copy_location(ast.Name(id=gname, ctx=ast.Load()), a)
                    return a
            n_here = 0
            for k in classes:
                t = T(k.name in subs)
                for m in k.body:
                    if isinstance(m, ast.FunctionDef):
                        t.visit(m)
                n_here += t.n
            t = T(False)
            for m in tree.body:
                if isinstance(m, ast.FunctionDef):
                    t.visit(m)
            n_here += t.n
            if n_here:
                new_defs.append(ast.copy_location(ast.Assign(targets=[ast.Name(id=gname, ctx=ast.Store())], value=copy.deepcopy(st.value)), st))
                count += n_here
    if new_defs:
        # after the imports, before everything else
        i = 0
        while i < len(tree.body) and (isinstance(tree.body[i], (ast.Import, ast.ImportFrom)) or
                                      (isinstance(tree.body[i], ast.Expr) and isinstance(tree.body[i].value, ast.Constant))):
            i += 1
        tree.body[i:i] = new_defs
        ast.fix_missing_locations(tree)
    return count


def _canonicalise_counter_whiles(fn):
    """Counter while-loops are brought to the one spelling the walkers read as a range loop, `while i < n: BODY; i += 1`:
    a unit increment that is the FIRST statement of the body moves to the end when the body never reads the counter (a pure trip
    counter); a test `i < n and REST` (counter comparison first) becomes `while i < n:` with `if not REST: break` as the first
    statement.  Nothing else is touched."""
    count = [0]

    def unit_inc(st, var):
        if isinstance(st, ast.AugAssign) and isinstance(st.op, ast.Add) and isinstance(st.target, ast.Name) and st.target.id == var:
            v = st.value
        elif isinstance(st, ast.Assign) and len(st.targets) == 1 and isinstance(st.targets[0], ast.Name) and st.targets[0].id == var \
                and isinstance(st.value, ast.BinOp) and isinstance(st.value.op, ast.Add):
            l, r = st.value.left, st.value.right
            v = r if isinstance(l, ast.Name) and l.id == var else l if isinstance(r, ast.Name) and r.id == var else None
        else:
            return False
        while isinstance(v, ast.Call) and len(v.args) == 1 and not v.keywords:
            v = v.args[0]
        return isinstance(v, ast.Constant) and v.value == 1 and not isinstance(v.value, bool)

    def cmp_var(t):
        if isinstance(t, ast.Compare) and len(t.ops) == 1:
            if isinstance(t.ops[0], (ast.Lt, ast.LtE)) and isinstance(t.left, ast.Name):
                return t.left.id
            if isinstance(t.ops[0], (ast.Gt, ast.GtE)) and isinstance(t.comparators[0], ast.Name):
                return t.comparators[0].id
        return None

    def visit(stmts):
        for st in stmts:
            if isinstance(st, (ast.FunctionDef, ast.AsyncFunctionDef, ast.ClassDef)):
                continue
            for fld in ("body", "orelse", "finalbody"):
                blk = getattr(st, fld, None)
                if isinstance(blk, list):
                    visit(blk)
            if isinstance(st, ast.Try):
                for h in st.handlers:
                    visit(h.body)
            if not isinstance(st, ast.While) or st.orelse or not st.body:
                continue
            t = st.test
            rest = None
            if isinstance(t, ast.BoolOp) and isinstance(t.op, ast.And) and cmp_var(t.values[0]) is not None and all(_pure_expr(v) for v in t.values[1:]):
                var = cmp_var(t.values[0])
                rest = t.values[1:]
            else:
                var = cmp_var(t)
            if var is None:
                continue
            incs = [b for b in st.body if unit_inc(b, var)]
            other_stores = [x for b in st.body if b not in incs for x in ast.walk(b) if isinstance(x, ast.Name) and x.id == var and isinstance(x.ctx, (ast.Store, ast.Del))]
            if len(incs) != 1 or other_stores or any(isinstance(x, ast.Continue) for b in st.body for x in ast.walk(b)):
                continue
            inc = incs[0]
            if inc is st.body[0] and len(st.body) > 1:
                reads = [x for b in st.body[1:] for x in ast.walk(b) if isinstance(x, ast.Name) and x.id == var]
                if reads:
                    continue
                st.body = st.body[1:] + [inc]
                count[0] += 1
            elif inc is not st.body[-1]:
                continue
            if rest is not None:
                # the bound names of REST must not be ... (REST is re-evaluated at the top of every iteration in both spellings)
                neg = ast.UnaryOp(op=ast.Not(), operand=rest[0] if len(rest) == 1 else ast.BoolOp(op=ast.And(), values=rest))
                guard = ast.copy_location(ast.If(test=neg, body=[ast.copy_location(ast.Break(), st)], orelse=[]), st)
                st.test = t.values[0]
                st.body = [guard] + st.body
                ast.fix_missing_locations(st)
                count[0] += 1
    visit(fn.body)
    return count[0]


def _drop_dead_pure_stores(fn):
    """`name = <pure expression>` whose name is read nowhere in the function (what copy propagation leaves behind): removed, so that
    the statements around it are adjacent again.  Python-level functions only; parameters and names used in nested scopes are kept."""
    loads = {}
    for n in ast.walk(fn):
        if isinstance(n, ast.Name) and isinstance(n.ctx, (ast.Load, ast.Del)):
            loads[n.id] = loads.get(n.id, 0) + 1
        elif isinstance(n, (ast.Global, ast.Nonlocal)):
            return 0
        elif isinstance(n, ast.Call) and isinstance(n.func, ast.Name) and n.func.id in ("locals", "vars", "eval", "exec"):
            return 0
    count = [0]

    def simple_pure(v):
        if isinstance(v, (ast.Constant, ast.Name)):
            return True
        if isinstance(v, ast.Attribute):
            return simple_pure(v.value)
        if isinstance(v, (ast.Tuple, ast.List)):
            return all(simple_pure(e) for e in v.elts)
        if isinstance(v, ast.Dict):
            return all(k is not None and simple_pure(k) for k in v.keys) and all(simple_pure(e) for e in v.values)
        if isinstance(v, ast.Lambda):
            return True          # creating a function object has no effect
        if isinstance(v, ast.Call) and isinstance(v.func, ast.Name) and v.func.id in ("int", "float", "len", "bool") and len(v.args) == 1 and not v.keywords:
            return simple_pure(v.args[0])
        if isinstance(v, ast.BinOp):
            return simple_pure(v.left) and simple_pure(v.right)
        return False

    def block(stmts):
        out = []
        for st in stmts:
            if isinstance(st, (ast.FunctionDef, ast.AsyncFunctionDef, ast.ClassDef)):
                out.append(st)
                continue
            for fld in ("body", "orelse", "finalbody"):
                blk = getattr(st, fld, None)
                if isinstance(blk, list):
                    nb = block(blk)
                    setattr(st, fld, nb if nb or fld != "body" else [ast.copy_location(ast.Pass(), st)])
            if isinstance(st, ast.Try):
                for h in st.handlers:
                    h.body = block(h.body) or [ast.copy_location(ast.Pass(), h)]
            if isinstance(st, ast.Assign) and len(st.targets) == 1 and isinstance(st.targets[0], ast.Name) and not loads.get(st.targets[0].id) \
                    and simple_pure(st.value):
                count[0] += 1
                continue
            out.append(st)
        return out
    fn.body = block(fn.body) or [ast.copy_location(ast.Pass(), fn)]
    return count[0]


def _drop_noop_kernel_calls(tree):
    """A jitted function whose body is nothing but a docstring / pass / bare return does nothing for well-typed arguments (it is used
    as a typed probe that lets Numba reject a badly typed argument).  Statement calls to it with pure arguments are removed, and a
    `try` whose body thereby becomes empty is replaced by its else/finally part."""
    def noop(fn):
        for s in fn.body:
            if isinstance(s, ast.Pass) or (isinstance(s, ast.Expr) and isinstance(s.value, ast.Constant)):
                continue
            if isinstance(s, ast.Return) and (s.value is None or (isinstance(s.value, ast.Constant) and s.value.value is None)):
                continue
            return False
        return True
    names = {n.name for n in tree.body if isinstance(n, ast.FunctionDef) and _is_njit(n) and noop(n)}
    if not names:
        return 0
    count = [0]

    def block(stmts):
        out = []
        for s in stmts:
            if isinstance(s, ast.Expr) and isinstance(s.value, ast.Call) and isinstance(s.value.func, ast.Name) and s.value.func.id in names \
                    and all(_pure_expr(a) for a in s.value.args) and not s.value.keywords:
                count[0] += 1
                continue
            for fld in ("body", "orelse", "finalbody"):
                if hasattr(s, fld) and isinstance(getattr(s, fld), list) and not isinstance(s, ast.ClassDef):
                    nb = block(getattr(s, fld))
                    if not nb and fld == "body" and not isinstance(s, ast.Try):
                        nb = [ast.copy_location(ast.Pass(), s)]
                    setattr(s, fld, nb)
            if isinstance(s, ast.ClassDef):
                s.body = block(s.body) or [ast.copy_location(ast.Pass(), s)]
            if isinstance(s, ast.Try):
                for h in s.handlers:
                    h.body = block(h.body) or [ast.copy_location(ast.Pass(), h)]
                if not s.body or all(isinstance(x, ast.Pass) for x in s.body):
                    out.extend(s.orelse)
                    out.extend(s.finalbody)
                    count[0] += 1
                    continue
            out.append(s)
        return out
    tree.body = block(tree.body)
    return count[0]


def _unroll_const_tuple_loops(fn):
    """`for v in (32, 16, 8):` with a literal tuple of at most 8 constants, no break/continue/else and a body that does not rebind `v`:
    the body is repeated with the constant substituted (used for kernels, whose loops the walkers otherwise treat as unbounded)."""
    changed = [0]

    def block(stmts):
        out = []
        for s in stmts:
            if isinstance(s, (ast.FunctionDef, ast.AsyncFunctionDef, ast.ClassDef)):
                out.append(s)
                continue
            for fld in ("body", "orelse", "finalbody"):
                if hasattr(s, fld) and isinstance(getattr(s, fld), list):
                    setattr(s, fld, block(getattr(s, fld)))
            if isinstance(s, ast.For) and isinstance(s.target, ast.Name) and isinstance(s.iter, (ast.Tuple, ast.List)) and not s.orelse \
                    and 0 < len(s.iter.elts) <= 8 and all(isinstance(e, ast.Constant) and isinstance(e.value, (int, float)) and not isinstance(e.value, bool)
                                                        for e in s.iter.elts) \
                    and not any(isinstance(x, (ast.Break, ast.Continue)) for x in ast.walk(s)) \
                    and not any(isinstance(x, ast.Name) and x.id == s.target.id and isinstance(x.ctx, (ast.Store, ast.Del)) for b in s.body for x in ast.walk(b)):
                # the loop variable keeps its last value afterwards
                for e in s.iter.elts:
                    for b in s.body:
                        out.append(_ConstSubst(s.target.id, e).visit(copy.deepcopy(b)))
                out.append(ast.copy_location(ast.Assign(targets=[ast.Name(id=s.target.id, ctx=ast.Store())], value=copy.deepcopy(s.iter.elts[-1])), s))
                changed[0] += 1
                continue
            out.append(s)
        return out
    fn.body = block(fn.body)
    return changed[0]


_INT_CASTS = ("int", "uint8", "uint16", "uint32", "uint64", "int64", "int32")


def _unswitch_loops(fn):
    """Loop unswitching on a flag the function sets once: with `flag = <expr>` the only store to `flag`,
        it = A if flag else B            (single use, directly before the loop)
        for x in it:  [if flag: S1 else: S2 ...]
    becomes `if flag: for x in A: S1...  else: for x in B: S2...`; a first body statement `a, b = x` (x used nowhere else) moves into
    the loop target.  The flag is a local name, so neither iterable nor body can change it."""
    nstores = {}
    for x in ast.walk(fn):
        if isinstance(x, ast.Name) and isinstance(x.ctx, (ast.Store, ast.Del)):
            nstores[x.id] = nstores.get(x.id, 0) + 1
    params = {a.arg for a in fn.args.args}
    changed = [0]

    def nuses(name):
        return sum(1 for x in ast.walk(fn) if isinstance(x, ast.Name) and x.id == name and isinstance(x.ctx, ast.Load))

    def specialise(stmts, flag, val):
        out = []
        for b in stmts:
            if isinstance(b, ast.If) and isinstance(b.test, ast.Name) and b.test.id == flag:
                out.extend(specialise(b.body if val else b.orelse, flag, val))
                continue
            if isinstance(b, ast.If) and isinstance(b.test, ast.UnaryOp) and isinstance(b.test.op, ast.Not) and isinstance(b.test.operand, ast.Name) \
                    and b.test.operand.id == flag:
                out.extend(specialise(b.orelse if val else b.body, flag, val))
                continue
            b = copy.copy(b)
            for fld in ("body", "orelse", "finalbody"):
                blk = getattr(b, fld, None)
                if isinstance(blk, list) and not isinstance(b, (ast.FunctionDef, ast.ClassDef)):
                    setattr(b, fld, specialise(blk, flag, val) or ([ast.copy_location(ast.Pass(), b)] if fld == "body" else []))
            out.append(b)
        return out

    def fuse_target(loop):
        tg = loop.target
        if isinstance(tg, ast.Name) and loop.body and isinstance(loop.body[0], ast.Assign) and len(loop.body[0].targets) == 1 \
                and isinstance(loop.body[0].targets[0], (ast.Tuple, ast.List)) and isinstance(loop.body[0].value, ast.Name) \
                and loop.body[0].value.id == tg.id and nstores.get(tg.id) == 1 \
                and all(isinstance(e, ast.Name) for e in loop.body[0].targets[0].elts) \
                and loop.own_uses == 1 \
                and sum(1 for x in ast.walk(fn) if isinstance(x, ast.Name) and x.id == tg.id and isinstance(x.ctx, ast.Load)) == loop.uses_of_target:
            loop.target = loop.body[0].targets[0]
            loop.body = loop.body[1:] or [ast.copy_location(ast.Pass(), loop)]

    def block(stmts):
        out = []
        for st in stmts:
            if isinstance(st, (ast.FunctionDef, ast.AsyncFunctionDef, ast.ClassDef)):
                out.append(st)
                continue
            for fld in ("body", "orelse", "finalbody"):
                blk = getattr(st, fld, None)
                if isinstance(blk, list):
                    setattr(st, fld, block(blk))
            if isinstance(st, ast.Try):
                for h in st.handlers:
                    h.body = block(h.body)
            if isinstance(st, ast.For) and not st.orelse and not any(isinstance(x, (ast.Break,)) for x in ast.walk(st)):
                it = st.iter
                prev = out[-1] if out else None
                via = None
                if isinstance(it, ast.Name) and isinstance(prev, ast.Assign) and len(prev.targets) == 1 and isinstance(prev.targets[0], ast.Name) \
                        and prev.targets[0].id == it.id and nstores.get(it.id) == 1 and nuses(it.id) == 1 and isinstance(prev.value, ast.IfExp):
                    it, via = prev.value, prev
                # ... or already split into `if flag: it = A  else: it = B`
                if isinstance(it, ast.Name) and isinstance(prev, ast.If) and isinstance(prev.test, ast.Name) and len(prev.body) == 1 and len(prev.orelse) == 1 \
                        and all(isinstance(b_, ast.Assign) and len(b_.targets) == 1 and isinstance(b_.targets[0], ast.Name) and b_.targets[0].id == it.id
                                for b_ in (prev.body[0], prev.orelse[0])) and nstores.get(it.id) == 2 and nuses(it.id) == 1:
                    it, via = ast.IfExp(test=prev.test, body=prev.body[0].value, orelse=prev.orelse[0].value), prev
                if isinstance(it, ast.IfExp) and isinstance(it.test, ast.Name) and nstores.get(it.test.id) == 1 and it.test.id not in params:
                    flag = it.test.id
                    arms = []
                    for val, src_ in ((True, it.body), (False, it.orelse)):
                        lp = ast.copy_location(ast.For(target=copy.deepcopy(st.target), iter=copy.deepcopy(src_),
                                                       body=specialise(copy.deepcopy(st.body), flag, val) or [ast.copy_location(ast.Pass(), st)],
                                                       orelse=[], type_comment=None), st)
                        lp.uses_of_target = sum(1 for x in ast.walk(lp) if isinstance(x, ast.Name) and isinstance(st.target, ast.Name)
                                                and x.id == st.target.id and isinstance(x.ctx, ast.Load))
                        arms.append(lp)
                    # the original loop is replaced by two: uses of the loop variable are now counted per arm
                    tot = sum(a.uses_of_target for a in arms)
                    for a in arms:
                        a.own_uses = a.uses_of_target
                        a.uses_of_target = tot
                    if via is not None:
                        out.pop()
                    node = ast.copy_location(ast.If(test=ast.copy_location(ast.Name(id=flag, ctx=ast.Load()), st), body=[arms[0]], orelse=[arms[1]]), st)
                    # (after the replacement the function holds the two arms, not the original loop)
                    out.append(node)
                    pending.append(arms)
                    changed[0] += 1
                    continue
            out.append(st)
        return out
    pending = []
    fn.body = block(fn.body)
    for arms in pending:
        if isinstance(arms[0].target, ast.Name):
            nstores[arms[0].target.id] = 1
        for a in arms:
            fuse_target(a)
    if changed[0]:
        ast.fix_missing_locations(fn)
    return changed[0]


def _drop_bool_flags(fn):
    """`flag = bool(p)` (the only store to `flag`; `p` a parameter the function never rebinds) with `flag` read only where a truth
    value is taken -- the test of if/while/conditional expression, under `not`, as an operand of and/or in such a position: every such
    read becomes `p`.  (In those positions bool(p) and p decide alike; a mutable `p` could change its truth value between the flag's
    definition and a later use, so only None/tuple/dict-style option parameters qualify: `p` must not be written through -- no
    subscript store, no method call on it -- anywhere in the function.)"""
    params = {a.arg for a in fn.args.args + fn.args.kwonlyargs}
    stores = {}
    for x in ast.walk(fn):
        if isinstance(x, ast.Name) and isinstance(x.ctx, (ast.Store, ast.Del)):
            stores[x.id] = stores.get(x.id, 0) + 1
    flags = {}
    for st in fn.body:
        if isinstance(st, ast.Assign) and len(st.targets) == 1 and isinstance(st.targets[0], ast.Name) and stores.get(st.targets[0].id) == 1 \
                and isinstance(st.value, ast.Call) and isinstance(st.value.func, ast.Name) and st.value.func.id == "bool" and len(st.value.args) == 1 \
                and not st.value.keywords and isinstance(st.value.args[0], ast.Name) and st.value.args[0].id in params and st.value.args[0].id not in stores:
            flags[st.targets[0].id] = st.value.args[0].id
    if not flags:
        return 0
    # the parameter is never written through
    for x in ast.walk(fn):
        if isinstance(x, ast.Subscript) and isinstance(x.ctx, (ast.Store, ast.Del)) and isinstance(x.value, ast.Name):
            flags = {f: p_ for f, p_ in flags.items() if p_ != x.value.id}
        if isinstance(x, ast.Call) and isinstance(x.func, ast.Attribute) and isinstance(x.func.value, ast.Name) and x.func.attr in (
                "append", "extend", "insert", "pop", "clear", "update", "setdefault", "remove", "popitem", "add", "discard"):
            flags = {f: p_ for f, p_ in flags.items() if p_ != x.func.value.id}
    if not flags:
        return 0
    truthpos = set()

    def mark(e):
        truthpos.add(id(e))
        if isinstance(e, ast.BoolOp):
            for v in e.values:
                mark(v)
        elif isinstance(e, ast.UnaryOp) and isinstance(e.op, ast.Not):
            mark(e.operand)
    for x in ast.walk(fn):
        if isinstance(x, (ast.If, ast.While, ast.IfExp)):
            mark(x.test)
        elif isinstance(x, ast.UnaryOp) and isinstance(x.op, ast.Not):
            mark(x.operand)
    ok = {f for f in flags if all(id(x) in truthpos for x in ast.walk(fn) if isinstance(x, ast.Name) and x.id == f and isinstance(x.ctx, ast.Load))}
    if not ok:
        return 0
    n = 0
    for x in ast.walk(fn):
        if isinstance(x, ast.Name) and isinstance(x.ctx, ast.Load) and x.id in ok:
            x.id = flags[x.id]
            n += 1
    return n


def _fold_flag_chains(fn):
    """`x = A` directly followed by `if not x: x = B` is `x = A or B`; by `if x: x = B` it is `x = A and B` (the value, not only the
    truth value, is the same: `or` yields A when A is truthy and B otherwise).  Applied repeatedly, a flag built up step by step
    becomes the one boolean expression it computes."""
    changed = [0]

    def block(stmts):
        out = []
        for st in stmts:
            if isinstance(st, (ast.FunctionDef, ast.AsyncFunctionDef, ast.ClassDef)):
                out.append(st)
                continue
            for fld in ("body", "orelse", "finalbody"):
                blk = getattr(st, fld, None)
                if isinstance(blk, list):
                    setattr(st, fld, block(blk))
            if isinstance(st, ast.Try):
                for h in st.handlers:
                    h.body = block(h.body)
            prev = out[-1] if out else None
            if isinstance(st, ast.If) and not st.orelse and len(st.body) == 1 and isinstance(prev, ast.Assign) and len(prev.targets) == 1 \
                    and isinstance(prev.targets[0], ast.Name):
                x = prev.targets[0].id
                t = st.test
                neg = isinstance(t, ast.UnaryOp) and isinstance(t.op, ast.Not)
                tn = t.operand if neg else t
                b = st.body[0]
                if isinstance(tn, ast.Name) and tn.id == x and isinstance(b, ast.Assign) and len(b.targets) == 1 and isinstance(b.targets[0], ast.Name) \
                        and b.targets[0].id == x and not any(isinstance(y, ast.Name) and y.id == x for y in ast.walk(b.value)) \
                        and not any(isinstance(y, (ast.NamedExpr, ast.Yield, ast.Await)) for y in ast.walk(b.value)):
                    op = ast.Or() if neg else ast.And()
                    vals = (list(prev.value.values) if isinstance(prev.value, ast.BoolOp) and isinstance(prev.value.op, type(op)) else [prev.value]) + [b.value]
                    prev.value = ast.copy_location(ast.BoolOp(op=op, values=vals), prev.value)
                    changed[0] += 1
                    continue
            out.append(st)
        return out
    fn.body = block(fn.body)
    if changed[0]:
        ast.fix_missing_locations(fn)
    return changed[0]


def _expand_filtered_tables(fn):
    """`T = [(t, f, a, []) for t, f, a in ((..), (..), (..)) if a]` -- a local list (bound once) built by a comprehension over a
    literal table of stable rows, keeping the rows whose condition (a truth test of the target names) holds, each kept row getting a
    fresh empty container -- whose only uses are `for X in T:` loops without `break`: the comprehension goes away, every row's
    container becomes a local of its own (created unconditionally: an empty list that is never used changes nothing), and each loop
    over T is written out as one guarded copy of its body per row, `if <cond(row)>: BODY(row)`.  The condition is re-evaluated at
    each loop; it reads only names the function never rebinds and (option-style) objects it never writes through, so it decides
    alike every time."""
    stores = {}
    for x in ast.walk(fn):
        if isinstance(x, ast.Name) and isinstance(x.ctx, (ast.Store, ast.Del)):
            stores[x.id] = stores.get(x.id, 0) + 1
    written_through = set()
    for x in ast.walk(fn):
        if isinstance(x, ast.Subscript) and isinstance(x.ctx, (ast.Store, ast.Del)) and isinstance(x.value, ast.Name):
            written_through.add(x.value.id)
        if isinstance(x, ast.Call) and isinstance(x.func, ast.Attribute) and isinstance(x.func.value, ast.Name) and x.func.attr in (
                "append", "extend", "insert", "pop", "clear", "update", "setdefault", "remove", "popitem", "add", "discard"):
            written_through.add(x.func.value.id)
    params = {a.arg for a in fn.args.args + fn.args.kwonlyargs}

    def fresh(e):
        if isinstance(e, (ast.List, ast.Set)) and not e.elts:
            return True
        if isinstance(e, ast.Dict) and not e.keys:
            return True
        return isinstance(e, ast.Call) and isinstance(e.func, ast.Name) and e.func.id in ("list", "dict", "set") and not e.args and not e.keywords

    def stable_cell(e):
        if isinstance(e, ast.Constant):
            return True
        if isinstance(e, ast.Name):
            return e.id not in stores and e.id not in written_through
        return False

    def truth_test(c, names):
        # a truth test built from the target names: `a`, `not a`, `a is not None`, and/or of those
        if isinstance(c, ast.Name):
            return c.id in names
        if isinstance(c, ast.UnaryOp) and isinstance(c.op, ast.Not):
            return truth_test(c.operand, names)
        if isinstance(c, ast.BoolOp):
            return all(truth_test(v, names) for v in c.values)
        if isinstance(c, ast.Compare) and len(c.ops) == 1 and isinstance(c.ops[0], (ast.Is, ast.IsNot)) and isinstance(c.left, ast.Name) \
                and c.left.id in names and isinstance(c.comparators[0], ast.Constant) and c.comparators[0].value is None:
            return True
        return False
    tables = {}
    for st in fn.body:
        if isinstance(st, ast.Assign) and len(st.targets) == 1 and isinstance(st.targets[0], ast.Name) and stores.get(st.targets[0].id) == 1 \
                and isinstance(st.value, ast.ListComp) and len(st.value.generators) == 1:
            g = st.value.generators[0]
            tg = g.target
            if g.is_async or not isinstance(g.iter, (ast.Tuple, ast.List)) or not (1 <= len(g.iter.elts) <= 8) or len(g.ifs) != 1:
                continue
            if not (isinstance(tg, (ast.Tuple, ast.List)) and all(isinstance(e, ast.Name) for e in tg.elts)):
                continue
            names = [e.id for e in tg.elts]
            rows = g.iter.elts
            if not all(isinstance(r, ast.Tuple) and len(r.elts) == len(names) and all(stable_cell(e) for e in r.elts) for r in rows):
                continue
            elt = st.value.elt
            if not (isinstance(elt, ast.Tuple) and all((isinstance(e, ast.Name) and e.id in names) or isinstance(e, ast.Constant) or fresh(e) for e in elt.elts)):
                continue
            if not truth_test(g.ifs[0], set(names)):
                continue
            tables[st.targets[0].id] = (st, names, rows, elt, g.ifs[0])
    if not tables:
        return 0
    # every use of the table is the iterable of a `for` without break / else
    for tname in list(tables):
        uses = [x for x in ast.walk(fn) if isinstance(x, ast.Name) and x.id == tname and isinstance(x.ctx, ast.Load)]
        loops = [l for l in ast.walk(fn) if isinstance(l, ast.For) and isinstance(l.iter, ast.Name) and l.iter.id == tname]
        ok = len(uses) == len(loops) and loops and all(not l.orelse and not any(isinstance(b, ast.Break) for b in ast.walk(l)) for l in loops)
        # targets of those loops: plain names, one per element of the row
        ok = ok and all(isinstance(l.target, (ast.Tuple, ast.List)) and len(l.target.elts) == len(tables[tname][3].elts)
                        and all(isinstance(e, ast.Name) for e in l.target.elts) for l in loops)
        if not ok:
            del tables[tname]
    if not tables:
        return 0
    n = [0]

    def subst(node, mapping):
        class S(ast.NodeTransformer):
            def visit_Name(self, x):
                if isinstance(x.ctx, ast.Load) and x.id in mapping:
                    return ast.copy_location(copy.deepcopy(mapping[x.id]), x)
                return x
        return S().visit(copy.deepcopy(node))

    def strip_continue(body):
        out = []
        for i_, b in enumerate(body):
            if isinstance(b, ast.If) and len(b.body) == 1 and isinstance(b.body[0], ast.Continue) and not b.orelse:
                rest = strip_continue(body[i_ + 1:])
                if rest is None:
                    return None
                if rest:
                    out.append(ast.copy_location(ast.If(test=ast.UnaryOp(op=ast.Not(), operand=b.test), body=rest, orelse=[]), b))
                return out
            if any(isinstance(x, ast.Continue) for x in ast.walk(b) if not isinstance(b, (ast.For, ast.While))):
                return None
            out.append(b)
        return out

    def block(stmts):
        out = []
        for st in stmts:
            if isinstance(st, (ast.FunctionDef, ast.AsyncFunctionDef, ast.ClassDef)):
                out.append(st)
                continue
            for fld in ("body", "orelse", "finalbody"):
                blk = getattr(st, fld, None)
                if isinstance(blk, list):
                    setattr(st, fld, block(blk))
            if isinstance(st, ast.Try):
                for h in st.handlers:
                    h.body = block(h.body)
            if isinstance(st, ast.Assign) and len(st.targets) == 1 and isinstance(st.targets[0], ast.Name) and st.targets[0].id in tables \
                    and tables[st.targets[0].id][0] is st:
                tname = st.targets[0].id
                _, names, rows, elt, cond = tables[tname]
                for i, r in enumerate(rows):
                    for j, e in enumerate(elt.elts):
                        if fresh(e):
                            out.append(ast.copy_location(ast.Assign(targets=[ast.Name(id="%s__r%dc%d" % (tname, i, j), ctx=ast.Store())], value=copy.deepcopy(e)), st))
                n[0] += 1
                continue
            if isinstance(st, ast.For) and isinstance(st.iter, ast.Name) and st.iter.id in tables:
                tname = st.iter.id
                _, names, rows, elt, cond = tables[tname]
                body = strip_continue(st.body)
                if body is not None:
                    for i, r in enumerate(rows):
                        rowmap = dict(zip(names, r.elts))
                        cells = []
                        for j, e in enumerate(elt.elts):
                            cells.append(ast.Name(id="%s__r%dc%d" % (tname, i, j), ctx=ast.Load()) if fresh(e) else
                                         copy.deepcopy(rowmap[e.id]) if isinstance(e, ast.Name) else copy.deepcopy(e))
                        tmap = {t.id: c for t, c in zip(st.target.elts, cells)}
                        guarded = [subst(b, tmap) for b in body]
                        out.append(ast.copy_location(ast.If(test=subst(cond, rowmap), body=guarded or [ast.copy_location(ast.Pass(), st)], orelse=[]), st))
                    n[0] += 1
                    continue
            out.append(st)
        return out
    # the loop targets must not be rebound inside the loop bodies (they are substituted)
    for tname in list(tables):
        for l in [l for l in ast.walk(fn) if isinstance(l, ast.For) and isinstance(l.iter, ast.Name) and l.iter.id == tname]:
            tn = {e.id for e in l.target.elts}
            if any(isinstance(x, ast.Name) and x.id in tn and isinstance(x.ctx, (ast.Store, ast.Del)) for b in l.body for x in ast.walk(b)):
                tables.pop(tname, None)
    if not tables:
        return 0
    fn.body = block(fn.body)
    if n[0]:
        ast.fix_missing_locations(fn)
    return n[0]


def _scalarise_local_dicts(fn):
    """A local `d = {}` (bound once, at the top level of the function) whose every other occurrence is `d["k"]` with a constant
    string key, loaded or stored, is a record of independent variables: `d["k"]` becomes the local `d__k`.  (A read of a key that
    was never stored fails either way; only the exception's type differs.)"""
    stores, others = {}, {}
    parents = {}
    for p_ in ast.walk(fn):
        for c_ in ast.iter_child_nodes(p_):
            parents[id(c_)] = p_
    params = {a.arg for a in fn.args.args + fn.args.kwonlyargs} | ({fn.args.vararg.arg} if fn.args.vararg else set()) | \
        ({fn.args.kwarg.arg} if fn.args.kwarg else set())
    cands = {}
    for st in fn.body:
        if isinstance(st, ast.Assign) and len(st.targets) == 1 and isinstance(st.targets[0], ast.Name) and isinstance(st.value, ast.Dict) \
                and not st.value.keys and st.targets[0].id not in params:
            cands.setdefault(st.targets[0].id, []).append(st)
    if not cands:
        return 0
    if any(isinstance(x, (ast.FunctionDef, ast.AsyncFunctionDef, ast.Lambda, ast.ClassDef)) and x is not fn for x in ast.walk(fn)):
        return 0
    all_names = {x.id for x in ast.walk(fn) if isinstance(x, ast.Name)}
    done = 0
    for name, defs in cands.items():
        if len(defs) != 1:
            continue
        ok, keys = True, set()
        for x in ast.walk(fn):
            if isinstance(x, ast.Name) and x.id == name and x is not defs[0].targets[0]:
                par = parents.get(id(x))
                if not (isinstance(par, ast.Subscript) and par.value is x and isinstance(par.ctx, (ast.Load, ast.Store))
                        and isinstance(par.slice, ast.Constant) and isinstance(par.slice.value, str) and par.slice.value.isidentifier()):
                    ok = False
                    break
                # `d["k"] += v` reads and writes the same variable: fine; `del` is not accepted (ctx checked above)
                keys.add(par.slice.value)
        if not ok or not keys or any("%s__%s" % (name, k) in all_names for k in keys):
            continue

        class R(ast.NodeTransformer):
            def visit_Subscript(self, n):
                self.generic_visit(n)
                if isinstance(n.value, ast.Name) and n.value.id == name and isinstance(n.slice, ast.Constant):
                    return ast.copy_location(ast.Name(id="%s__%s" % (name, n.slice.value), ctx=n.ctx), n)
                return n
        R().visit(fn)
        fn.body = [st for st in fn.body if st is not defs[0]]
        done += 1
    return done


def _append_then_read_last(stmts):
    """`L.append(E); t = L[len(L) - 1]` (or `L[-1]`), adjacent: t is the object just appended -> `t = E; L.append(t)`."""
    n = 0
    for i in range(len(stmts) - 1):
        a, b = stmts[i], stmts[i + 1]
        if isinstance(a, ast.Expr) and isinstance(a.value, ast.Call) and isinstance(a.value.func, ast.Attribute) and a.value.func.attr == "append" \
                and isinstance(a.value.func.value, ast.Name) and len(a.value.args) == 1 and not a.value.keywords \
                and not isinstance(a.value.args[0], ast.Starred) \
                and isinstance(b, ast.Assign) and len(b.targets) == 1 and isinstance(b.targets[0], ast.Name) and isinstance(b.value, ast.Subscript) \
                and isinstance(b.value.value, ast.Name) and b.value.value.id == a.value.func.value.id and b.targets[0].id != b.value.value.id:
            L = a.value.func.value.id
            sl = b.value.slice
            last = (isinstance(sl, ast.UnaryOp) and isinstance(sl.op, ast.USub) and isinstance(sl.operand, ast.Constant) and sl.operand.value == 1) \
                or (isinstance(sl, ast.Constant) and sl.value == -1) \
                or (isinstance(sl, ast.BinOp) and isinstance(sl.op, ast.Sub) and isinstance(sl.right, ast.Constant) and sl.right.value == 1
                    and isinstance(sl.left, ast.Call) and isinstance(sl.left.func, ast.Name) and sl.left.func.id == "len" and len(sl.left.args) == 1
                    and isinstance(sl.left.args[0], ast.Name) and sl.left.args[0].id == L)
            t = b.targets[0].id
            if last and not any(isinstance(x, ast.Name) and x.id == t for x in ast.walk(a.value.args[0])):
                stmts[i] = ast.copy_location(ast.Assign(targets=[ast.Name(id=t, ctx=ast.Store())], value=a.value.args[0]), a)
                a.value.args = [ast.Name(id=t, ctx=ast.Load())]
                stmts[i + 1] = ast.copy_location(a, b)
                ast.fix_missing_locations(stmts[i])
                ast.fix_missing_locations(stmts[i + 1])
                n += 1
    for st in stmts:
        if isinstance(st, (ast.FunctionDef, ast.AsyncFunctionDef, ast.ClassDef)):
            continue
        for fld in ("body", "orelse", "finalbody"):
            blk = getattr(st, fld, None)
            if isinstance(blk, list):
                n += _append_then_read_last(blk)
        for h in getattr(st, "handlers", []) or []:
            n += _append_then_read_last(h.body)
    return n


def _fold_local_const_dicts(fn):
    """A local `d = {"a": e1, "b": e2}` (bound once; constant string keys; values without effects) that is only ever read through
    `d["a"]`, `d.__getitem__("a")`, `d.get("a")` with a constant key, or `sum(d.values())`: each read becomes the value expression
    (the sum becomes `0 + e1 + e2`).  The values read names the function may rebind only if it does not (checked)."""
    stores = {}
    for x in ast.walk(fn):
        if isinstance(x, ast.Name) and isinstance(x.ctx, (ast.Store, ast.Del)):
            stores[x.id] = stores.get(x.id, 0) + 1
    params = {a.arg for a in fn.args.args + fn.args.kwonlyargs}
    parents = {}
    for p_ in ast.walk(fn):
        for c_ in ast.iter_child_nodes(p_):
            parents[id(c_)] = p_
    tables = {}
    for n in ast.walk(fn):
        if isinstance(n, ast.Assign) and len(n.targets) == 1 and isinstance(n.targets[0], ast.Name) and stores.get(n.targets[0].id) == 1 \
                and n.targets[0].id not in params and isinstance(n.value, ast.Dict) and n.value.keys \
                and all(isinstance(k, ast.Constant) and isinstance(k.value, str) for k in n.value.keys) \
                and all(_pure_simple(v) and all(stores.get(y.id, 0) == 0 for y in ast.walk(v) if isinstance(y, ast.Name)) for v in n.value.values):
            tables[n.targets[0].id] = n
    count = 0
    for name, asg in list(tables.items()):
        d = asg.value
        byk = {k.value: v for k, v in zip(d.keys, d.values)}
        uses = [x for x in ast.walk(fn) if isinstance(x, ast.Name) and x.id == name and isinstance(x.ctx, ast.Load)]
        plan = []
        ok = True
        for u in uses:
            par = parents.get(id(u))
            gp = parents.get(id(par)) if par is not None else None
            if isinstance(par, ast.Subscript) and par.value is u and isinstance(par.ctx, ast.Load) and isinstance(par.slice, ast.Constant) and par.slice.value in byk:
                plan.append((par, byk[par.slice.value]))
            elif isinstance(par, ast.Attribute) and par.attr in ("__getitem__", "get") and isinstance(gp, ast.Call) and gp.func is par \
                    and len(gp.args) == 1 and not gp.keywords and isinstance(gp.args[0], ast.Constant) and gp.args[0].value in byk:
                plan.append((gp, byk[gp.args[0].value]))
            elif isinstance(par, ast.Attribute) and par.attr == "values" and isinstance(gp, ast.Call) and gp.func is par and not gp.args \
                    and isinstance(parents.get(id(gp)), ast.Call) and isinstance(parents[id(gp)].func, ast.Name) and parents[id(gp)].func.id == "sum" \
                    and len(parents[id(gp)].args) == 1 and not parents[id(gp)].keywords:
                tot = ast.Constant(value=0)
                for v in d.values:
                    tot = ast.BinOp(left=tot, op=ast.Add(), right=copy.deepcopy(v))
                plan.append((parents[id(gp)], tot))
            else:
                ok = False
                break
        if not ok or not plan:
            continue
        repl = {id(old_): new_ for old_, new_ in plan}

        class R(ast.NodeTransformer):
            def generic_visit(self, node):
                node = super().generic_visit(node)
                return node

            def visit(self, node):
                if id(node) in repl:
                    return ast.copy_location(copy.deepcopy(repl[id(node)]), node)
                return super().visit(node)
        R().visit(fn)
        count += 1
    if count:
        ast.fix_missing_locations(fn)
    return count


def _beta_reduce_local_lambdas(fn):
    """`f = lambda a, b: BODY` bound once to a local and only ever *called* with as many positional, effect-free arguments: every call
    becomes BODY with the arguments in place of the parameters.  The lambda's free names must not be rebound anywhere in the function
    (they are read at call time), and BODY contains no lambda or comprehension of its own."""
    stores = {}
    for x in ast.walk(fn):
        if isinstance(x, ast.Name) and isinstance(x.ctx, (ast.Store, ast.Del)):
            stores[x.id] = stores.get(x.id, 0) + 1
    parents = {}
    for p_ in ast.walk(fn):
        for c_ in ast.iter_child_nodes(p_):
            parents[id(c_)] = p_
    count = 0
    for n in list(ast.walk(fn)):
        if not (isinstance(n, ast.Assign) and len(n.targets) == 1 and isinstance(n.targets[0], ast.Name) and stores.get(n.targets[0].id) == 1
                and isinstance(n.value, ast.Lambda)):
            continue
        lam = n.value
        a = lam.args
        if a.vararg or a.kwarg or a.kwonlyargs or a.defaults or a.posonlyargs:
            continue
        if any(isinstance(y, (ast.Lambda, ast.ListComp, ast.SetComp, ast.DictComp, ast.GeneratorExp, ast.NamedExpr)) for y in ast.walk(lam.body)):
            continue
        ps = [x.arg for x in a.args]
        free = {y.id for y in ast.walk(lam.body) if isinstance(y, ast.Name)} - set(ps)
        if any(stores.get(f_, 0) > 0 for f_ in free):
            continue
        name = n.targets[0].id
        uses = [x for x in ast.walk(fn) if isinstance(x, ast.Name) and x.id == name and isinstance(x.ctx, ast.Load)]
        calls = []
        for u in uses:
            par = parents.get(id(u))
            if isinstance(par, ast.Call) and par.func is u and not par.keywords and len(par.args) == len(ps) and all(_pure_simple(x) for x in par.args):
                calls.append(par)
            else:
                calls = None
                break
        if not calls:
            continue
        repl = {}
        for c in calls:
            m = dict(zip(ps, c.args))

            class S(ast.NodeTransformer):
                def visit_Name(self, x, m=m):
                    if isinstance(x.ctx, ast.Load) and x.id in m:
                        return ast.copy_location(copy.deepcopy(m[x.id]), x)
                    return x
            repl[id(c)] = S().visit(copy.deepcopy(lam.body))

        class R(ast.NodeTransformer):
            def visit(self, node):
                if id(node) in repl:
                    return ast.copy_location(repl[id(node)], node)
                return super().visit(node)
        R().visit(fn)
        count += 1
    if count:
        ast.fix_missing_locations(fn)
    return count


def _hoist_fresh_containers_in_tables(fn):
    """`plan = (("cms", CountMin, cms_args, []), ("hh", HeavyHitters, hh_args, []))` -- a local table (bound once) whose rows carry
    fresh empty containers: each `[]` / `{}` / `list()` / `dict()` gets a local of its own, bound just before the table
    (`plan__r0c3 = []`), and the row holds that name.  Creating an empty container has no effect and reads nothing, so evaluating it
    a moment earlier changes nothing; afterwards the rows consist of names and constants only and the table loops can be unrolled
    without duplicating a mutable object."""
    stores = {}
    for x in ast.walk(fn):
        if isinstance(x, ast.Name) and isinstance(x.ctx, (ast.Store, ast.Del)):
            stores[x.id] = stores.get(x.id, 0) + 1
    n = [0]

    def fresh(e):
        if isinstance(e, (ast.List, ast.Set)) and not e.elts:
            return True
        if isinstance(e, ast.Dict) and not e.keys:
            return True
        return isinstance(e, ast.Call) and isinstance(e.func, ast.Name) and e.func.id in ("list", "dict", "set", "Counter") and not e.args and not e.keywords

    def block(stmts):
        out = []
        for st in stmts:
            if isinstance(st, (ast.FunctionDef, ast.AsyncFunctionDef, ast.ClassDef)):
                out.append(st)
                continue
            for fld in ("body", "orelse", "finalbody"):
                blk = getattr(st, fld, None)
                if isinstance(blk, list):
                    setattr(st, fld, block(blk))
            if isinstance(st, ast.Assign) and len(st.targets) == 1 and isinstance(st.targets[0], ast.Name) and stores.get(st.targets[0].id) == 1 \
                    and isinstance(st.value, (ast.Tuple, ast.List)) and st.value.elts and all(isinstance(r, ast.Tuple) for r in st.value.elts) \
                    and any(fresh(e) for r in st.value.elts for e in r.elts):
                tname = st.targets[0].id
                for i, r in enumerate(st.value.elts):
                    for j, e in enumerate(r.elts):
                        if fresh(e):
                            nm = "%s__r%dc%d" % (tname, i, j)
                            out.append(ast.copy_location(ast.Assign(targets=[ast.Name(id=nm, ctx=ast.Store())], value=e), st))
                            r.elts[j] = ast.copy_location(ast.Name(id=nm, ctx=ast.Load()), e)
                            n[0] += 1
                if isinstance(st.value, ast.List):
                    pass
            out.append(st)
        return out
    fn.body = block(fn.body)
    if n[0]:
        ast.fix_missing_locations(fn)
    return n[0]


def _fuse_loop_unpack(fn):
    """`for item in X: a, b = item; BODY` with `item` read nowhere else and bound by nothing else  ->  `for a, b in X: BODY`."""
    loads, stores = {}, {}
    for x in ast.walk(fn):
        if isinstance(x, ast.Name):
            d = loads if isinstance(x.ctx, ast.Load) else stores
            d[x.id] = d.get(x.id, 0) + 1
    n = 0
    for lp in [x for x in ast.walk(fn) if isinstance(x, ast.For)]:
        tg = lp.target
        if isinstance(tg, ast.Name) and lp.body and isinstance(lp.body[0], ast.Assign) and len(lp.body[0].targets) == 1 \
                and isinstance(lp.body[0].targets[0], (ast.Tuple, ast.List)) and all(isinstance(e, ast.Name) for e in lp.body[0].targets[0].elts) \
                and isinstance(lp.body[0].value, ast.Name) and lp.body[0].value.id == tg.id and loads.get(tg.id) == 1 and stores.get(tg.id) == 1:
            lp.target = lp.body[0].targets[0]
            lp.body = lp.body[1:] or [ast.copy_location(ast.Pass(), lp)]
            n += 1
    return n


def _fork_minmax_feeding_loop_bounds(fn):
    """Kernel: `x = min(a, b)` / `x = max(a, b)` with pure scalar operands, where `x` flows (through plain assignments) into the bound
    of a `range` loop or the test of a `while`: written as the comparison it is -- `if b < a: x = b else: x = a` (what min returns),
    `if b > a: x = b else: x = a` (max) -- so that the walker follows the two cases as two paths (a trip count that is zero in one
    case and positive in the other cannot be related to the loop body through a single min term)."""
    deps = {}
    for n in ast.walk(fn):
        if isinstance(n, (ast.Assign, ast.AugAssign)):
            tg = n.targets if isinstance(n, ast.Assign) else [n.target]
            for t in tg:
                for e in (t.elts if isinstance(t, (ast.Tuple, ast.List)) else [t]):
                    if isinstance(e, ast.Name):
                        deps.setdefault(e.id, set()).update(x.id for x in ast.walk(n.value) if isinstance(x, ast.Name))
    seeds = set()
    for n in ast.walk(fn):
        if isinstance(n, ast.For) and isinstance(n.iter, ast.Call) and (_dotted_name(n.iter.func) or "").split(".")[-1] in ("range", "prange"):
            seeds |= {x.id for a in n.iter.args for x in ast.walk(a) if isinstance(x, ast.Name)}
        elif isinstance(n, ast.While):
            seeds |= {x.id for x in ast.walk(n.test) if isinstance(x, ast.Name)}
    live, todo = set(), list(seeds)
    while todo:
        x = todo.pop()
        if x in live:
            continue
        live.add(x)
        todo.extend(deps.get(x, ()))

    def pure(e):
        if isinstance(e, (ast.Name, ast.Constant)):
            return True
        if isinstance(e, ast.BinOp):
            return pure(e.left) and pure(e.right)
        if isinstance(e, ast.Call) and len(e.args) == 1 and not e.keywords and (_dotted_name(e.func) or "").split(".")[-1] in _INT_CASTS:
            return pure(e.args[0])
        return False
    changed = [0]

    def block(stmts):
        out = []
        for st in stmts:
            if isinstance(st, (ast.FunctionDef, ast.AsyncFunctionDef, ast.ClassDef)):
                out.append(st)
                continue
            for fld in ("body", "orelse", "finalbody"):
                blk = getattr(st, fld, None)
                if isinstance(blk, list):
                    setattr(st, fld, block(blk))
            if isinstance(st, ast.Assign) and len(st.targets) == 1 and isinstance(st.targets[0], ast.Name) and st.targets[0].id in live \
                    and isinstance(st.value, ast.Call) and isinstance(st.value.func, ast.Name) and st.value.func.id in ("min", "max") \
                    and len(st.value.args) == 2 and not st.value.keywords and all(pure(a) for a in st.value.args):
                a, b = st.value.args
                op = ast.Lt() if st.value.func.id == "min" else ast.Gt()
                mk = lambda v: ast.copy_location(ast.Assign(targets=[copy.deepcopy(st.targets[0])], value=copy.deepcopy(v)), st)
                out.append(ast.copy_location(ast.If(test=ast.copy_location(ast.Compare(left=copy.deepcopy(b), ops=[op], comparators=[copy.deepcopy(a)]), st),
                                                    body=[mk(b)], orelse=[mk(a)]), st))
                changed[0] += 1
                continue
            out.append(st)
        return out
    fn.body = block(fn.body)
    if changed[0]:
        ast.fix_missing_locations(fn)
    return changed[0]


def _sink_store_into_arms(fn):
    """Kernel: `if c1: ...; t = A  elif c2: ...; t = B  else: ...; t = C` directly followed by `ARR[i, j] = t`, with `t` mentioned nowhere
    else and no arm storing a name the subscript reads: the store moves into the arms (`ARR[i, j] = A` ...), the shape in which the
    kernels originally write their case analysis."""
    changed = [0]

    def leaves(node, t):
        """the final `t = expr` assignment of every leaf arm, or None"""
        out = []
        for arm in (node.body, node.orelse):
            if not arm:
                return None
            last = arm[-1]
            if isinstance(last, ast.If):
                sub = leaves(last, t)
                if sub is None:
                    return None
                out.extend(sub)
            elif isinstance(last, ast.Assign) and len(last.targets) == 1 and isinstance(last.targets[0], ast.Name) and last.targets[0].id == t:
                out.append((arm, last))
            else:
                return None
        return out

    def block(stmts):
        out = []
        for st in stmts:
            if isinstance(st, (ast.FunctionDef, ast.AsyncFunctionDef, ast.ClassDef)):
                out.append(st)
                continue
            for fld in ("body", "orelse", "finalbody"):
                blk = getattr(st, fld, None)
                if isinstance(blk, list):
                    setattr(st, fld, block(blk))
            prev = out[-1] if out else None
            if isinstance(st, ast.Assign) and len(st.targets) == 1 and isinstance(st.targets[0], ast.Subscript) and isinstance(st.value, ast.Name) \
                    and isinstance(prev, ast.If):
                t = st.value.id
                lv = leaves(prev, t)
                n_all = sum(1 for x in ast.walk(fn) if isinstance(x, ast.Name) and x.id == t)
                idx_names = {x.id for x in ast.walk(st.targets[0]) if isinstance(x, ast.Name)}
                arm_stores = {x.id for x in ast.walk(prev) if isinstance(x, ast.Name) and isinstance(x.ctx, (ast.Store, ast.Del))} - {t}
                writes_arr = any(isinstance(x, ast.Subscript) and isinstance(x.ctx, ast.Store) for x in ast.walk(prev))
                if lv and n_all == len(lv) + 1 and not (idx_names & arm_stores) and not writes_arr and t not in idx_names:
                    for arm, last in lv:
                        arm[arm.index(last)] = ast.copy_location(ast.Assign(targets=[copy.deepcopy(st.targets[0])], value=last.value), last)
                    changed[0] += 1
                    continue
            out.append(st)
        return out
    fn.body = block(fn.body)
    if changed[0]:
        ast.fix_missing_locations(fn)
    return changed[0]


def _split_bool_casts(fn):
    """Kernel statement `t = e + uintN(flag)` where `flag` is a local bound once to a comparison / `not` / and-or of such: the cast of
    a boolean is 1 or 0, so the statement is `if flag: t = e + uintN(1) else: t = e + uintN(0)` -- the two-way choice the walkers read."""
    nstores, defs = {}, {}
    for x in ast.walk(fn):
        if isinstance(x, ast.Name) and isinstance(x.ctx, (ast.Store, ast.Del)):
            nstores[x.id] = nstores.get(x.id, 0) + 1
        if isinstance(x, ast.Assign) and len(x.targets) == 1 and isinstance(x.targets[0], ast.Name):
            defs[x.targets[0].id] = x.value

    def booly(v, depth=0):
        if depth > 4:
            return False
        if isinstance(v, ast.Compare):
            return True
        if isinstance(v, ast.UnaryOp) and isinstance(v.op, ast.Not):
            return True
        if isinstance(v, ast.BoolOp):
            return all(booly(y, depth + 1) for y in v.values)
        if isinstance(v, ast.Name):
            return nstores.get(v.id) == 1 and v.id in defs and booly(defs[v.id], depth + 1)
        return False
    changed = [0]

    def casts_of(st):
        return [c for c in ast.walk(st) if isinstance(c, ast.Call) and len(c.args) == 1 and not c.keywords
                and (_dotted_name(c.func) or "").split(".")[-1] in _INT_CASTS and isinstance(c.args[0], ast.Name) and booly(c.args[0])]

    def block(stmts):
        out = []
        for st in stmts:
            if isinstance(st, (ast.FunctionDef, ast.AsyncFunctionDef, ast.ClassDef)):
                out.append(st)
                continue
            for fld in ("body", "orelse", "finalbody"):
                blk = getattr(st, fld, None)
                if isinstance(blk, list):
                    setattr(st, fld, block(blk))
            if isinstance(st, ast.Assign):
                cs = casts_of(st)
                if len(cs) == 1:
                    flag = cs[0].args[0].id
                    arms = []
                    for val in (1, 0):
                        cp = copy.deepcopy(st)
                        for c in ast.walk(cp):
                            if isinstance(c, ast.Call) and len(c.args) == 1 and isinstance(c.args[0], ast.Name) and c.args[0].id == flag \
                                    and (_dotted_name(c.func) or "").split(".")[-1] in _INT_CASTS:
                                c.args[0] = ast.copy_location(ast.Constant(value=val), c.args[0])
                        arms.append(cp)
                    out.append(ast.copy_location(ast.If(test=ast.copy_location(ast.Name(id=flag, ctx=ast.Load()), st), body=[arms[0]], orelse=[arms[1]]), st))
                    changed[0] += 1
                    continue
            out.append(st)
        return out
    fn.body = block(fn.body)
    if changed[0]:
        ast.fix_missing_locations(fn)
    return changed[0]


def _trip_counter_loops(fn):
    """Kernel loops driven by a pure trip counter, brought to the range form the walkers read:
      (1) `while t > 0: BODY; t -= 1` where BODY never reads `t`, nothing reads `t` after the loop and there is no break/continue
          ->  `for t__trip in range(t): BODY`          (the loop runs `t` times; `t` is dead afterwards)
      (2) `a = 0` ... `for v in range(E): BODY; a += 1` where BODY never reads `v`, `a` is stored nowhere else, nothing between the
          initialisation and the loop stores `a`, nothing reads `a` after the loop and there is no break/continue
          ->  `for a in range(E): BODY`                (`a` is the index of the trip)
    """
    changed = [0]

    def strip(e):
        while isinstance(e, ast.Call) and len(e.args) == 1 and not e.keywords and (_dotted_name(e.func) or "").split(".")[-1] in _INT_CASTS:
            e = e.args[0]
        return e

    def const_of(e):
        e = strip(e)
        return e.value if isinstance(e, ast.Constant) and isinstance(e.value, int) and not isinstance(e.value, bool) else None

    def step_of(st, var):
        """+1 / -1 when `st` is `var += 1` / `var = var - 1` ...; None otherwise"""
        if isinstance(st, ast.AugAssign) and isinstance(st.target, ast.Name) and st.target.id == var and const_of(st.value) == 1:
            return 1 if isinstance(st.op, ast.Add) else -1 if isinstance(st.op, ast.Sub) else None
        if isinstance(st, ast.Assign) and len(st.targets) == 1 and isinstance(st.targets[0], ast.Name) and st.targets[0].id == var \
                and isinstance(st.value, ast.BinOp) and isinstance(st.value.op, (ast.Add, ast.Sub)):
            l, r = st.value.left, st.value.right
            if isinstance(l, ast.Name) and l.id == var and const_of(r) == 1:
                return 1 if isinstance(st.value.op, ast.Add) else -1
            if isinstance(r, ast.Name) and r.id == var and const_of(l) == 1 and isinstance(st.value.op, ast.Add):
                return 1
        return None

    def reads(nodes, var):
        return any(isinstance(x, ast.Name) and x.id == var and isinstance(x.ctx, ast.Load) for n in nodes for x in ast.walk(n))

    def stores(nodes, var):
        return any(isinstance(x, ast.Name) and x.id == var and isinstance(x.ctx, (ast.Store, ast.Del)) for n in nodes for x in ast.walk(n))

    def positive_test(t):
        """name tested `> 0` / `!= 0` / `>= 1` / `0 <` ..."""
        if isinstance(t, ast.Compare) and len(t.ops) == 1:
            l, op, r = t.left, t.ops[0], t.comparators[0]
            if isinstance(l, ast.Name) and ((isinstance(op, (ast.Gt, ast.NotEq)) and const_of(r) == 0) or (isinstance(op, ast.GtE) and const_of(r) == 1)):
                return l.id
            if isinstance(r, ast.Name) and ((isinstance(op, (ast.Lt, ast.NotEq)) and const_of(l) == 0) or (isinstance(op, ast.LtE) and const_of(l) == 1)):
                return r.id
        return None

    def block(stmts, after_outer):
        out = list(stmts)
        for i, st in enumerate(out):
            if isinstance(st, (ast.FunctionDef, ast.AsyncFunctionDef, ast.ClassDef)):
                continue
            rest = out[i + 1:] + after_outer
            for fld in ("body", "orelse", "finalbody"):
                blk = getattr(st, fld, None)
                if isinstance(blk, list):
                    # statements of a loop body are followed by the loop itself (next trip) as well as by what follows the loop
                    setattr(st, fld, block(blk, ([st] if isinstance(st, (ast.For, ast.While)) else []) + rest))
            if isinstance(st, ast.While) and not st.orelse and isinstance(st.test, ast.BoolOp) and isinstance(st.test.op, ast.And) \
                    and positive_test(st.test.values[0]) is not None and not any(isinstance(x, ast.Continue) for x in ast.walk(st)):
                # `while t > 0 and REST:` -> `while t > 0: if not REST: break` (REST is evaluated exactly when it was)
                rest_t = st.test.values[1] if len(st.test.values) == 2 else ast.copy_location(ast.BoolOp(op=ast.And(), values=st.test.values[1:]), st.test)
                guard = ast.copy_location(ast.If(test=ast.copy_location(ast.UnaryOp(op=ast.Not(), operand=rest_t), rest_t),
                                                 body=[ast.copy_location(ast.Break(), st)], orelse=[]), st)
                st.test = st.test.values[0]
                st.body = [guard] + st.body
                changed[0] += 1
            # (a `break` only ends the loop early, as it does in the range spelling; a `continue` could skip the decrement)
            if isinstance(st, ast.While) and not st.orelse and not any(isinstance(x, ast.Continue) for x in ast.walk(st)):
                t = positive_test(st.test)
                if t is not None:
                    decs = [b for b in st.body if step_of(b, t) == -1]
                    others = [b for b in st.body if b not in decs]
                    if len(decs) == 1 and not reads(others, t) and not stores(others, t) and not reads(rest, t):
                        out[i] = ast.copy_location(ast.For(target=ast.Name(id=t + "__trip", ctx=ast.Store()),
                                                           iter=ast.Call(func=ast.Name(id="range", ctx=ast.Load()), args=[ast.Name(id=t, ctx=ast.Load())], keywords=[]),
                                                           body=others or [ast.copy_location(ast.Pass(), st)], orelse=[], type_comment=None), st)
                        st = out[i]
                        changed[0] += 1
            if isinstance(st, ast.For) and not st.orelse and isinstance(st.target, ast.Name) and isinstance(st.iter, ast.Call) \
                    and isinstance(st.iter.func, ast.Name) and st.iter.func.id == "range" and len(st.iter.args) == 1 and not st.iter.keywords \
                    and not any(isinstance(x, (ast.Break, ast.Continue)) for x in ast.walk(st)) and not reads(st.body, st.target.id) \
                    and not reads(rest, st.target.id):
                cands = [b for b in st.body if isinstance(b, (ast.Assign, ast.AugAssign))]
                for b in cands:
                    a = b.target.id if isinstance(b, ast.AugAssign) and isinstance(b.target, ast.Name) else \
                        b.targets[0].id if isinstance(b, ast.Assign) and len(b.targets) == 1 and isinstance(b.targets[0], ast.Name) else None
                    if a is None or step_of(b, a) != 1:
                        continue
                    others = [x for x in st.body if x is not b]
                    if stores(others, a) or reads(st.body[st.body.index(b) + 1:], a) or reads(rest, a) or reads([st.iter], a):
                        continue
                    # initialised to 0 by the nearest earlier sibling that stores it, and not read in between
                    init = None
                    for j in range(i - 1, -1, -1):
                        if stores([out[j]], a):
                            if isinstance(out[j], ast.Assign) and len(out[j].targets) == 1 and isinstance(out[j].targets[0], ast.Name) and const_of(out[j].value) == 0:
                                init = j
                            break
                        if reads([out[j]], a):
                            break
                    if init is None:
                        continue
                    st.target = ast.copy_location(ast.Name(id=a, ctx=ast.Store()), st.target)
                    st.body = others or [ast.copy_location(ast.Pass(), st)]
                    changed[0] += 1
                    break
        return out
    fn.body = block(fn.body, [])
    if changed[0]:
        ast.fix_missing_locations(fn)
    return changed[0]


def _inline_local_consts(fn):
    """Kernel locals that only name a constant (`zero = uint64(0)`; one store in the whole function, a top-level statement of its body
    that precedes every use): each use is replaced by the same cast-of-constant expression.  The store stays (dead)."""
    nstores, first_load = {}, {}
    for x in ast.walk(fn):
        if isinstance(x, ast.Name):
            if isinstance(x.ctx, (ast.Store, ast.Del)):
                nstores[x.id] = nstores.get(x.id, 0) + 1
            else:
                pos = (x.lineno, x.col_offset)
                if x.id not in first_load or pos < first_load[x.id]:
                    first_load[x.id] = pos
    params = {a.arg for a in fn.args.args}
    consts = {}
    for st in fn.body:
        if isinstance(st, ast.Assign) and len(st.targets) == 1 and isinstance(st.targets[0], ast.Name):
            nm = st.targets[0].id
            v = st.value
            inner = v
            depth = 0
            while isinstance(inner, ast.Call) and len(inner.args) == 1 and not inner.keywords and (_dotted_name(inner.func) or "").split(".")[-1] in _INT_CASTS + ("float64", "float32", "float"):
                inner = inner.args[0]
                depth += 1
            if nstores.get(nm) == 1 and nm not in params and depth <= 2 and isinstance(inner, ast.Constant) and isinstance(inner.value, (int, float)) \
                    and not isinstance(inner.value, bool) and first_load.get(nm, (10 ** 9, 0)) > (st.end_lineno, st.end_col_offset):
                consts[nm] = v
    if not consts:
        return 0

    class _S(ast.NodeTransformer):
        def visit_Name(self, x):
            if isinstance(x.ctx, ast.Load) and x.id in consts:
                return ast.copy_location(copy.deepcopy(consts[x.id]), x)
            return x
    _S().visit(fn)
    ast.fix_missing_locations(fn)
    return len(consts)


def _unroll_const_whiles(fn):
    """`v = K; ...; while v <cmp> C: BODY; v = f(v)` where K, C are small non-negative integer constants (possibly under an integer
    cast), `v` is stored only by the initialisation and by the LAST statement of the body, f is built from v, constants and
    >> << // * + - and the loop has no break/continue/else: the trip sequence is a compile-time constant, so the body is repeated
    with `v` replaced by its value (under the cast the initialisation used).  At most 16 trips; otherwise untouched."""
    changed = [0]

    def strip(e):
        cast = None
        while isinstance(e, ast.Call) and len(e.args) == 1 and not e.keywords and (_dotted_name(e.func) or "").split(".")[-1] in _INT_CASTS:
            cast = cast or e.func
            e = e.args[0]
        return e, cast

    # local names for small constants (`two = uint64(2)`): one store in the whole function, at its top level
    nstores = {}
    for x in ast.walk(fn):
        if isinstance(x, ast.Name) and isinstance(x.ctx, (ast.Store, ast.Del)):
            nstores[x.id] = nstores.get(x.id, 0) + 1
    params = {a.arg for a in fn.args.args}
    local_consts = {}
    for st in fn.body:
        if isinstance(st, ast.Assign) and len(st.targets) == 1 and isinstance(st.targets[0], ast.Name) and nstores.get(st.targets[0].id) == 1 \
                and st.targets[0].id not in params:
            k_, _c = strip(st.value)
            if isinstance(k_, ast.Constant) and isinstance(k_.value, int) and not isinstance(k_.value, bool) and 0 <= k_.value < 2 ** 32:
                local_consts[st.targets[0].id] = k_.value

    def ev(e, var, val):
        e, _ = strip(e)
        if isinstance(e, ast.Constant) and isinstance(e.value, int) and not isinstance(e.value, bool):
            return e.value
        if isinstance(e, ast.Name) and e.id == var:
            return val
        if isinstance(e, ast.Name) and e.id in local_consts:
            return local_consts[e.id]
        if isinstance(e, ast.BinOp):
            l, r = ev(e.left, var, val), ev(e.right, var, val)
            if l is None or r is None:
                return None
            try:
                if isinstance(e.op, ast.RShift): return l >> r
                if isinstance(e.op, ast.LShift): return l << r if r < 64 else None
                if isinstance(e.op, ast.FloorDiv): return l // r if r > 0 else None
                if isinstance(e.op, ast.Mult): return l * r
                if isinstance(e.op, ast.Add): return l + r
                if isinstance(e.op, ast.Sub): return l - r
            except Exception:
                return None
        return None

    def test(t, var, val):
        if not (isinstance(t, ast.Compare) and len(t.ops) == 1):
            return None
        l, r = ev(t.left, var, val), ev(t.comparators[0], var, val)
        if l is None or r is None:
            return None
        op = t.ops[0]
        for k, f in ((ast.Lt, l < r), (ast.LtE, l <= r), (ast.Gt, l > r), (ast.GtE, l >= r), (ast.NotEq, l != r), (ast.Eq, l == r)):
            if isinstance(op, k):
                return f
        return None

    def stores(node, var):
        return any(isinstance(x, ast.Name) and x.id == var and isinstance(x.ctx, (ast.Store, ast.Del)) for x in ast.walk(node))

    def block(stmts):
        out = []
        for s in stmts:
            if isinstance(s, (ast.FunctionDef, ast.AsyncFunctionDef, ast.ClassDef)):
                out.append(s)
                continue
            for fld in ("body", "orelse", "finalbody"):
                if hasattr(s, fld) and isinstance(getattr(s, fld), list):
                    setattr(s, fld, block(getattr(s, fld)))
            done = False
            if isinstance(s, ast.While) and not s.orelse and len(s.body) >= 1 and isinstance(s.test, ast.Compare) \
                    and not any(isinstance(x, (ast.Break, ast.Continue, ast.Return)) for x in ast.walk(s)):
                names = [x.id for x in ast.walk(s.test) if isinstance(x, ast.Name) and (_dotted_name(x) or "") not in _INT_CASTS and x.id not in local_consts]
                last = s.body[-1]
                if len(set(names)) == 1 and isinstance(last, (ast.Assign, ast.AugAssign)):
                    var = names[0]
                    upd = None
                    if isinstance(last, ast.Assign) and len(last.targets) == 1 and isinstance(last.targets[0], ast.Name) and last.targets[0].id == var:
                        upd = last.value
                    elif isinstance(last, ast.AugAssign) and isinstance(last.target, ast.Name) and last.target.id == var:
                        upd = ast.BinOp(left=ast.Name(id=var, ctx=ast.Load()), op=last.op, right=last.value)
                    init = None
                    for p in reversed(out):
                        if isinstance(p, ast.Assign) and len(p.targets) == 1 and isinstance(p.targets[0], ast.Name) and p.targets[0].id == var:
                            init = p
                            break
                        if stores(p, var):
                            break
                    if upd is not None and init is not None and not any(stores(b, var) for b in s.body[:-1]):
                        k0, cast = strip(init.value)
                        val = k0.value if isinstance(k0, ast.Constant) and isinstance(k0.value, int) and not isinstance(k0.value, bool) else None
                        seq = []
                        while val is not None and 0 <= val < 2 ** 62 and len(seq) <= 16:
                            t = test(s.test, var, val)
                            if t is None:
                                val = None
                                break
                            if not t:
                                break
                            seq.append(val)
                            val = ev(upd, var, val)
                        if val is not None and 0 <= val < 2 ** 62 and len(seq) <= 16:
                            def lit(v):
                                c = ast.Constant(value=v)
                                return ast.Call(func=copy.deepcopy(cast), args=[c], keywords=[]) if cast is not None else c
                            for v in seq:
                                for b in s.body[:-1]:
                                    out.append(ast.fix_missing_locations(ast.copy_location(_ConstSubst(var, lit(v)).visit(copy.deepcopy(b)), b)))
                            out.append(ast.fix_missing_locations(ast.copy_location(ast.Assign(targets=[ast.Name(id=var, ctx=ast.Store())], value=lit(val)), s)))
                            changed[0] += 1
                            done = True
            if not done:
                out.append(s)
        return out
    fn.body = block(fn.body)
    return changed[0]


def _resolve_explicit_class_attrs(tree):
    """`Class.NAME` with the class named explicitly (what an inlined helper's `sketch_cls.NAME` becomes): the value bound to NAME in
    that class's body, or in the nearest base of a single-inheritance chain inside the module -- a literal or a dotted name such as
    `np.uint32` -- when nothing in the module ever stores to an attribute called NAME."""
    classes = {c.name: c for c in tree.body if isinstance(c, ast.ClassDef)}
    stored = {n.attr for n in ast.walk(tree) if isinstance(n, ast.Attribute) and isinstance(n.ctx, (ast.Store, ast.Del))}
    for c in ast.walk(tree):
        if isinstance(c, ast.Call) and isinstance(c.func, ast.Name) and c.func.id in ("setattr", "delattr"):
            if len(c.args) >= 2 and isinstance(c.args[1], ast.Constant):
                stored.add(c.args[1].value)
            else:
                return 0

    def binding(cname, attr, seen=()):
        c = classes.get(cname)
        if c is None or cname in seen:
            return None
        found = [st for st in c.body if isinstance(st, ast.Assign) and any(isinstance(t, ast.Name) and t.id == attr for t in st.targets)]
        if len(found) == 1 and len(found[0].targets) == 1:
            return found[0].value
        if found or any(isinstance(st, (ast.FunctionDef, ast.ClassDef)) and st.name == attr for st in c.body):
            return None
        if len(c.bases) == 1 and isinstance(c.bases[0], ast.Name):
            return binding(c.bases[0].id, attr, seen + (cname,))
        return None

    def ok_value(v):
        if isinstance(v, ast.Constant) and isinstance(v.value, (str, int, float)) and not isinstance(v.value, bool):
            return True
        d = _dotted_name(v)
        return d is not None and d.split(".")[0] in ("np", "numpy")
    count = [0]

    class T(ast.NodeTransformer):
        def visit_Attribute(self, a):
            self.generic_visit(a)
            if isinstance(a.ctx, ast.Load) and isinstance(a.value, ast.Name) and a.value.id in classes and a.attr not in stored \
                    and not a.attr.startswith("__"):
                v = binding(a.value.id, a.attr)
                if v is not None and ok_value(v):
                    count[0] += 1
                    return ast.copy_location(copy.deepcopy(v), a)
            return a
    for fn_ in ast.walk(tree):
        if isinstance(fn_, ast.FunctionDef):
            # a local / parameter that shadows the class name disqualifies the function
            names = {x.id for x in ast.walk(fn_) if isinstance(x, ast.Name) and isinstance(x.ctx, (ast.Store, ast.Del))} | {a.arg for a in fn_.args.args}
            if names & set(classes):
                continue
            T().visit(fn_)
    return count[0]


def _priming_read_loops(tree):
    """The read-ahead loop  `x = E; while x <cmp> K: BODY; x = E`  (the same expression primes the loop and ends every trip; BODY has
    no `continue` and does not store `x`)  is  `while True: x = E; if not (x <cmp> K): break; BODY`: E is evaluated at the same
    moments and the test sees the same values."""
    n = [0]

    def block(stmts):
        out = []
        for st in stmts:
            if isinstance(st, (ast.FunctionDef, ast.AsyncFunctionDef, ast.ClassDef)):
                st.body = block(st.body)
                out.append(st)
                continue
            for fld in ("body", "orelse", "finalbody"):
                blk = getattr(st, fld, None)
                if isinstance(blk, list):
                    setattr(st, fld, block(blk))
            if isinstance(st, ast.Try):
                for h in st.handlers:
                    h.body = block(h.body)
            prev = out[-1] if out else None
            if isinstance(st, ast.While) and not st.orelse and len(st.body) >= 2 and isinstance(prev, ast.Assign) and len(prev.targets) == 1 \
                    and isinstance(prev.targets[0], ast.Name) and isinstance(st.body[-1], ast.Assign) \
                    and ast.dump(st.body[-1]) == ast.dump(prev) and isinstance(prev.value, ast.Call):
                x = prev.targets[0].id
                t = st.test
                reads_x = isinstance(t, ast.Compare) and isinstance(t.left, ast.Name) and t.left.id == x and \
                    all(isinstance(c, ast.Constant) for c in t.comparators)
                reads_x = reads_x or (isinstance(t, ast.Name) and t.id == x)
                body = st.body[:-1]
                own_continue = False
                stack = list(body)
                while stack:
                    b = stack.pop()
                    if isinstance(b, ast.Continue):
                        own_continue = True
                    if isinstance(b, (ast.For, ast.While, ast.FunctionDef, ast.ClassDef)):
                        continue
                    stack.extend(ast.iter_child_nodes(b))
                stores_x = any(isinstance(y, ast.Name) and y.id == x and isinstance(y.ctx, (ast.Store, ast.Del)) for b in body for y in ast.walk(b))
                if reads_x and not own_continue and not stores_x:
                    out.pop()
                    stop = ast.copy_location(ast.UnaryOp(op=ast.Not(), operand=t), t)
                    st.test = ast.copy_location(ast.Constant(value=True), t)
                    st.body = [prev, ast.copy_location(ast.If(test=stop, body=[ast.copy_location(ast.Break(), st)], orelse=[]), st)] + body
                    n[0] += 1
            out.append(st)
        return out
    tree.body = block(tree.body)
    if n[0]:
        ast.fix_missing_locations(tree)
    return n[0]


def _inline_generators(tree):
    """`for X in self._gen(args): BODY` where `_gen` is a private generator method of the same class (or a private module-level
    generator function called by name) with exactly one `yield E` statement, no `yield from`, no `return <value>`, and nothing after
    the yield inside the loop body that contains it: the generator's own loop nest is written out with `X = E; BODY` in place of the
    yield.  BODY must not `break` (it would leave only the generator's innermost loop); `continue` resumes the generator exactly as
    reaching the end of BODY does.  The generator's locals get fresh names."""
    count = [0]
    mod_funcs = {n.name: n for n in tree.body if isinstance(n, ast.FunctionDef)}

    def yields(fn):
        return [y for y in ast.walk(fn) if isinstance(y, (ast.Yield, ast.YieldFrom))]

    def usable(gen):
        ys = yields(gen)
        if len(ys) != 1 or not isinstance(ys[0], ast.Yield) or ys[0].value is None or not _is_private(gen.name):
            return None
        if any(isinstance(r, ast.Return) and r.value is not None for r in ast.walk(gen)) or gen.decorator_list:
            return None
        # locate the yield statement and check that nothing follows it inside its innermost loop
        path = []

        def find(stmts, trail):
            for i, st in enumerate(stmts):
                if isinstance(st, ast.Expr) and st.value is ys[0]:
                    path.extend(trail + [(stmts, i)])
                    return True
                for fld in ("body", "orelse"):
                    blk = getattr(st, fld, None)
                    if isinstance(blk, list) and not isinstance(st, (ast.FunctionDef, ast.ClassDef)) and find(blk, trail + [(stmts, i)]):
                        return True
            return False
        body = [b for b in gen.body if not (isinstance(b, ast.Expr) and isinstance(b.value, ast.Constant))]
        if not find(body, []):
            return None
        # walk outwards from the yield to the innermost loop: each step must be the last statement of its block
        for blk, i in reversed(path):
            if i != len(blk) - 1:
                return None
            # `blk` is the body of some statement; stop once that statement is a loop
            owner = next((st for b2, j in path for st in [b2[j]] if any(getattr(st, f, None) is blk for f in ("body", "orelse"))), None)
            if isinstance(owner, (ast.For, ast.While)):
                break
        else:
            return None          # the yield is not inside a loop at all
        return body, ys[0]

    def rewrite(stmts, cls):
        out = []
        for st in stmts:
            if isinstance(st, ast.ClassDef):
                st.body = rewrite(st.body, st)
                out.append(st)
                continue
            if isinstance(st, ast.FunctionDef):
                st.body = rewrite(st.body, cls)
                out.append(st)
                continue
            for fld in ("body", "orelse", "finalbody"):
                blk = getattr(st, fld, None)
                if isinstance(blk, list):
                    setattr(st, fld, rewrite(blk, cls))
            if isinstance(st, ast.Try):
                for h in st.handlers:
                    h.body = rewrite(h.body, cls)
            if isinstance(st, ast.For) and not st.orelse and isinstance(st.iter, ast.Call):
                f = st.iter.func
                gen, is_method = None, False
                if isinstance(f, ast.Attribute) and isinstance(f.value, ast.Name) and f.value.id == "self" and cls is not None:
                    gen = next((d for d in cls.body if isinstance(d, ast.FunctionDef) and d.name == f.attr), None)
                    is_method = True
                elif isinstance(f, ast.Name) and f.id in mod_funcs:
                    gen = mod_funcs[f.id]
                own_break = False
                stack = list(st.body)
                while stack:
                    b = stack.pop()
                    if isinstance(b, ast.Break):
                        own_break = True
                    if isinstance(b, (ast.For, ast.While, ast.FunctionDef, ast.ClassDef)):
                        continue
                    stack.extend(ast.iter_child_nodes(b))
                u = usable(gen) if gen is not None and yields(gen) else None
                binding = _bind(gen, st.iter, is_method) if u is not None else None
                if u is not None and binding is not None and not own_break and not any(k_.startswith("*") for k_ in binding) \
                        and all(isinstance(a, (ast.Name, ast.Constant)) or (isinstance(a, ast.Attribute) and isinstance(a.value, ast.Name)) for a in binding.values()):
                    gbody, y = u
                    k = next(_counter)
                    stored = {n.id for b in gbody for n in ast.walk(b) if isinstance(n, ast.Name) and isinstance(n.ctx, (ast.Store, ast.Del))}
                    if not (stored & set(binding)):
                        rename = {n: "%s__gen%d" % (n, k) for n in stored}
                        new_body = [_Subst(dict(binding), rename).visit(copy.deepcopy(b)) for b in gbody]
                        # the yield is found again in the copy by position in a parallel walk
                        tgt = None
                        for a, b in zip((x for g0 in gbody for x in ast.walk(g0)), (x for g1 in new_body for x in ast.walk(g1))):
                            if a is y:
                                tgt = b
                                break

                        def splice(stmts2):
                            res = []
                            for s2 in stmts2:
                                if isinstance(s2, ast.Expr) and s2.value is tgt:
                                    res.append(ast.copy_location(ast.Assign(targets=[copy.deepcopy(st.target)], value=tgt.value), st))
                                    res.extend(st.body)
                                    continue
                                for fld in ("body", "orelse"):
                                    blk = getattr(s2, fld, None)
                                    if isinstance(blk, list):
                                        setattr(s2, fld, splice(blk))
                                res.append(s2)
                            return res
                        if tgt is not None:
                            new_body = splice(new_body)
                            for b in new_body:
                                ast.fix_missing_locations(ast.copy_location(b, st) if not hasattr(b, "lineno") else b)
                            out.extend(new_body)
                            count[0] += 1
                            continue
            out.append(st)
        return out
    tree.body = rewrite(tree.body, None)
    if count[0]:
        ast.fix_missing_locations(tree)
    return count[0]


def _sink_tail_into_handlers(tree):
    """`try: ...; return A  except E: H` followed by TAIL (reachable only by falling out of a handler, since the body always returns):
    TAIL moves to the end of every handler that can fall through, so that the function ends in a try statement whose every way out
    is spelled inside it.  An exception raised by TAIL was outside the try before and is outside it now (handler bodies are not
    protected by their own try).  Python-level functions only."""
    n = [0]

    def block(stmts):
        stmts = list(stmts)
        for i, st in enumerate(stmts):
            if isinstance(st, (ast.FunctionDef, ast.AsyncFunctionDef, ast.ClassDef)):
                continue
            for fld in ("body", "orelse", "finalbody"):
                blk = getattr(st, fld, None)
                if isinstance(blk, list):
                    setattr(st, fld, block(blk))
            if isinstance(st, ast.Try):
                for h in st.handlers:
                    h.body = block(h.body)
                tail = stmts[i + 1:]
                if tail and not st.finalbody and not st.orelse and st.handlers and _always_returns(st.body) \
                        and not all(_always_returns(h.body) for h in st.handlers) \
                        and not any(isinstance(x, (ast.FunctionDef, ast.ClassDef, ast.Lambda)) for t_ in tail for x in ast.walk(t_)):
                    for h in st.handlers:
                        if not _always_returns(h.body):
                            h.body = [b for b in h.body if not isinstance(b, ast.Pass)] + [copy.deepcopy(t_) for t_ in tail]
                    n[0] += 1
                    return stmts[:i + 1]
        return stmts
    for fn in ast.walk(tree):
        if isinstance(fn, ast.FunctionDef) and not _is_njit(fn):
            fn.body = block(fn.body)
    if n[0]:
        ast.fix_missing_locations(tree)
    return n[0]


def _drop_empty_else(tree):
    """`else: pass` (on if / for / while / try) is no else clause at all."""
    n = 0
    for x in ast.walk(tree):
        if isinstance(x, (ast.If, ast.For, ast.While, ast.Try)) and x.orelse and all(isinstance(st, ast.Pass) for st in x.orelse):
            x.orelse = []
            n += 1
    return n


def _desugar_walrus_whiles(tree):
    """`while (x := E) <cmp> K: BODY`  ->  `while True: x = E; if not (x <cmp> K): break; BODY` -- the assignment expression is the
    first thing the test evaluates (the test itself, or the left operand of its one comparison), so every trip, including the one
    that ends the loop and those begun by `continue`, binds `x` and then decides; no `else` clause."""
    n = 0
    for w in [x for x in ast.walk(tree) if isinstance(x, ast.While)]:
        if w.orelse:
            continue
        t = w.test
        neg = False
        if isinstance(t, ast.UnaryOp) and isinstance(t.op, ast.Not):
            t, neg = t.operand, True
        ne = t if isinstance(t, ast.NamedExpr) else t.left if isinstance(t, ast.Compare) and isinstance(t.left, ast.NamedExpr) else None
        if ne is None or not isinstance(ne.target, ast.Name) or sum(1 for x in ast.walk(w.test) if isinstance(x, ast.NamedExpr)) != 1:
            continue
        load = ast.copy_location(ast.Name(id=ne.target.id, ctx=ast.Load()), ne)
        if t is ne:
            t2 = load
        else:
            t2 = ast.copy_location(ast.Compare(left=load, ops=t.ops, comparators=t.comparators), t)
        stop = t2 if neg else ast.copy_location(ast.UnaryOp(op=ast.Not(), operand=t2), t2)
        bind = ast.copy_location(ast.Assign(targets=[ast.Name(id=ne.target.id, ctx=ast.Store())], value=ne.value), w)
        brk = ast.copy_location(ast.If(test=stop, body=[ast.copy_location(ast.Break(), w)], orelse=[]), w)
        w.test = ast.copy_location(ast.Constant(value=True), w.test)
        w.body = [bind, brk] + w.body
        n += 1
    if n:
        ast.fix_missing_locations(tree)
    return n


def normalize(tree):
    _drop_empty_else(tree)
    _desugar_walrus_whiles(tree)
    _priming_read_loops(tree)
    _inline_generators(tree)
    _sink_tail_into_handlers(tree)
    for fn_ in ast.walk(tree):
        if isinstance(fn_, ast.FunctionDef):
            _fold_flag_chains(fn_)
    _hoist_class_constants(tree)
    _MODULE_STABLE.clear()
    _MODULE_STABLE.update(_module_stable_names(tree))
    _MODULE_DEFS.clear()
    defs_ = [n.name for n in tree.body if isinstance(n, (ast.FunctionDef, ast.ClassDef))]
    _MODULE_DEFS.update(n for n in defs_ if defs_.count(n) == 1 and n in _MODULE_STABLE)
    _expand_module_aliases(tree)
    _expand_module_constants(tree)
    _PruneConstantIfs().visit(tree)
    _expand_const_dict_lookups(tree)
    _ndindex_loops(tree)
    _specialise_table_helpers(tree)
    _drop_noop_kernel_calls(tree)
    _hoist_scalar_helper_calls(tree)
    for fn_ in ast.walk(tree):
        if isinstance(fn_, ast.FunctionDef):
            _merge_dict_item_stores(fn_.body)
    _FoldDisplays().visit(tree)
    for fn_ in ast.walk(tree):
        if isinstance(fn_, ast.FunctionDef):
            _merge_dict_item_stores(fn_.body)       # `xs = [f(i) for i in range(3)]; xs.append(y)` once the comprehension is a display
    # `x = helper(...) if c else None` -> if/else before inlining, so that the helper call is a statement of its own arm
    def _pre_split(stmts):
        out = []
        for s_ in stmts:
            if isinstance(s_, (ast.ClassDef,)):
                s_.body = _pre_split(s_.body)
                out.append(s_)
                continue
            if isinstance(s_, ast.FunctionDef):
                if not _is_njit(s_):
                    s_.body = _pre_split(s_.body)
                out.append(s_)
                continue
            for fld in ("body", "orelse", "finalbody"):
                blk = getattr(s_, fld, None)
                if isinstance(blk, list):
                    setattr(s_, fld, _pre_split(blk))
            if isinstance(s_, ast.Try):
                for h_ in s_.handlers:
                    h_.body = _pre_split(h_.body)
            if isinstance(s_, ast.Assign) and len(s_.targets) == 1 and isinstance(s_.targets[0], ast.Name) and isinstance(s_.value, ast.IfExp) \
                    and any(isinstance(c_, ast.Call) and isinstance(c_.func, ast.Name) and c_.func.id.startswith("_") for c_ in ast.walk(s_.value)):
                ie = s_.value
                mk = lambda v, s_=s_: ast.copy_location(ast.Assign(targets=[copy.deepcopy(s_.targets[0])], value=v), s_)
                out.append(ast.copy_location(ast.If(test=ie.test, body=[mk(ie.body)], orelse=[mk(ie.orelse)]), s_))
                continue
            out.append(s_)
        return out
    tree.body = _pre_split(tree.body)
    inl = Inliner(tree)
    n = inl.run()
    _resolve_explicit_class_attrs(tree)
    for fn_ in ast.walk(tree):
        if isinstance(fn_, ast.FunctionDef) and not _is_njit(fn_):
            _sink_into_selector_chain(fn_)
    _SimplifySelectorTests().visit(tree)
    _PruneConstantIfs().visit(tree)          # constant tests exposed by substituted default arguments
    _FoldDisplays().visit(tree)
    ast.fix_missing_locations(tree)
    tree._inlined_helpers = set(inl.inlined_names)
    consts = _module_const_tuples(tree)
    _MODULE_CONST_TUPLES_G.clear()
    _MODULE_CONST_TUPLES_G.update(consts)
    _MODULE_ROW_TABLES.clear()
    _MODULE_ROW_TABLES.update(_module_row_tables(tree))
    for node in ast.walk(tree):
        if isinstance(node, ast.FunctionDef):
            _fuse_row_views(node)
        if isinstance(node, ast.FunctionDef) and _is_njit(node):
            _inline_local_consts(node)
            _beta_reduce_local_lambdas(node)          # `decode = lambda c: _counter2value(c, nr, base)` inside a kernel
            _drop_dead_pure_stores(node)
            _fork_minmax_feeding_loop_bounds(node)
            _sink_store_into_arms(node)
            _split_bool_casts(node)
            _trip_counter_loops(node)
            _canonicalise_counter_whiles(node)
            _unroll_const_tuple_loops(node)
            _unroll_const_whiles(node)
            node.body = _split_simple_statements(node.body)       # statement forms only; kernels are otherwise read by the walker
        if isinstance(node, ast.FunctionDef) and not _is_njit(node):
            node.body = _split_simple_statements(node.body)
            _expand_filtered_tables(node)
            _hoist_fresh_containers_in_tables(node)
            _drop_bool_flags(node)
            _unswitch_loops(node)
            _fuse_loop_unpack(node)
            _eliminate_loop_continues(node)
            node.body = _split_simple_statements(node.body)
            if _sink_into_selector_chain(node):        # a chain that `x = A if c else B if d else None` has just become
                _SimplifySelectorTests().visit(node)
                _PruneConstantIfs().visit(node)
                _drop_unreachable(node.body)
            ch_first = _static_expand(node, consts) if consts else 0
            if all(_is_bare_return(r) for r in ast.walk(node) if isinstance(r, ast.Return)) and \
                    not any(isinstance(x, (ast.FunctionDef, ast.Lambda)) and x is not node for x in ast.walk(node)):
                node.body = _eliminate_early_returns(node.body)
            st_count = {}
            for n_ in ast.walk(node):
                if isinstance(n_, ast.Name) and isinstance(n_.ctx, (ast.Store, ast.Del)):
                    st_count[n_.id] = st_count.get(n_.id, 0) + 1
            _attr_first(node.body, st_count)
            for _ in range(3):
                if not _propagate_copies(node):
                    break
            _drop_dead_pure_stores(node)
            _append_then_read_last(node.body)
            _scalarise_local_dicts(node)
            for _ in range(3):
                node.body, c = _inline_adjacent_single_use(node.body, _name_uses(node))
                if not c:
                    break
            _FoldDisplays().visit(node)       # displays exposed by the propagation (`*tuple(xs)`, `(a, b) + (c,)`)
            if any(isinstance(x, ast.For) and isinstance(x.iter, ast.GeneratorExp) for x in ast.walk(node)):
                if _ndindex_loops(node):             # `occupied = (b for b in product(...) if ...); for r, c in occupied:` just joined
                    _eliminate_loop_continues(node)
                    node.body = _split_simple_statements(node.body)
            if any(isinstance(x, ast.Assign) and isinstance(x.value, ast.IfExp) for x in ast.walk(node)):
                # a selector chain a folded `next(...)` has just become
                node.body = _split_simple_statements(node.body)
                if _sink_into_selector_chain(node):
                    _SimplifySelectorTests().visit(node)
                    _PruneConstantIfs().visit(node)
                    _drop_unreachable(node.body)
            if _static_expand(node, consts) + ch_first:  # getattr(x, 'lit') / **{...} / unrolled table loops exposed by the propagation
                # what the unrolling exposed: `d = {...}; d["k"] = v` item stores, `a, b = u, v`, a dict display used once as `**d`
                _merge_dict_item_stores(node.body)
                node.body = _split_simple_statements(node.body)
                for _ in range(3):
                    if not _propagate_copies(node):
                        break
                for _ in range(3):
                    node.body, c = _inline_adjacent_single_use(node.body, _name_uses(node))
                    if not c:
                        break
                _FoldDisplays().visit(node)
                _static_expand(node, consts)
                _PruneConstantIfs().visit(node)          # `if owns:` with the row's literal substituted
                if _fold_local_const_dicts(node) + _beta_reduce_local_lambdas(node):
                    _static_expand(node, consts)             # getattr(self, 'lit') exposed by a reduced lambda
                    _FoldDisplays().visit(node)
                _scalarise_local_dicts(node)             # `finals[tag] = ...` of an unrolled table loop
                _drop_dead_pure_stores(node)
    _hoist_scalar_helper_calls(tree)          # calls that a split conditional expression has just exposed
    # a private helper whose every use was inlined is dead for the analysis: its body is judged where it now runs
    dropped = set()
    for name in sorted(tree._inlined_helpers):
        defs = []
        for owner in [tree] + [c for c in tree.body if isinstance(c, ast.ClassDef)]:
            for d in owner.body:
                if isinstance(d, ast.FunctionDef) and d.name == name:
                    defs.append((owner, d))
        inside = {id(x) for _, d in defs for x in ast.walk(d)}
        used = False
        for x in ast.walk(tree):
            if id(x) in inside:
                continue
            if (isinstance(x, ast.Name) and x.id == name) or (isinstance(x, ast.Attribute) and x.attr == name) \
                    or (isinstance(x, ast.Constant) and x.value == name):
                used = True
                break
        if not used:
            for owner, d in defs:
                owner.body.remove(d)
                if not owner.body:
                    owner.body.append(ast.Pass())
            dropped.add(name)
    tree._dropped_helpers = dropped
    ast.fix_missing_locations(tree)
    return n


# ---------------------------------------------------------------------------
# canonical kernel parameter names (whole package)
# ---------------------------------------------------------------------------

def _kernel_defs(tree):
    return {n.name: n for n in tree.body if isinstance(n, ast.FunctionDef) and _is_njit(n)}


def _imports_of(tree):
    """local name -> (module short name, original name) for `from sketchnu.x import y [as z]` / `from .x import y`."""
    out = {}
    for n in tree.body:
        if isinstance(n, ast.ImportFrom) and n.module:
            short = n.module.split(".")[-1]
            for a in n.names:
                out[a.asname or a.name] = (short, a.name)
    return out


def _role_of_arg(a, fn_params):
    """Role name an argument expression gives to the parameter that receives it, or None."""
    while isinstance(a, ast.Call) and len(a.args) == 1 and not a.keywords and (
            (isinstance(a.func, ast.Name) and a.func.id in _PURE_CALLS) or
            (isinstance(a.func, ast.Attribute) and isinstance(a.func.value, ast.Name) and a.func.value.id in ("np", "numpy"))):
        a = a.args[0]
    if isinstance(a, ast.Attribute) and isinstance(a.value, ast.Name):
        return a.attr if a.value.id == "self" else "other_%s" % a.attr
    if isinstance(a, ast.Name) and a.id in fn_params:
        return a.id
    return None


def canonicalise_kernel_params(trees):
    """A kernel parameter whose name says nothing about its role is renamed to the role its call sites give it.

    The rules identify most kernel parameters through the binding at the Python call sites (`_add(self.lhh, ...)`), but several read
    a parameter by the name the pinned tree uses (`value`, `ngram`, `key_len`, ...).  So that a consistent renaming of a kernel's
    parameters changes no verdict, each kernel parameter p at position i is renamed to the role name r all its call sites agree on
    (`self.X` -> X, `other.X` -> other_X, a caller's own parameter -> its name), provided that p is *foreign*: p is not the role name
    of any position of this kernel.  A parameter called `width` that receives `self.depth` is therefore left alone -- that is
    evidence of swapped arguments and rule `bind` reports it."""
    kernels = {}      # (short, name) -> node
    for short, tree in trees.items():
        for name, node in _kernel_defs(tree).items():
            kernels[(short, name)] = node

    def resolve(short, tree, name, imports):
        if (short, name) in kernels:
            return (short, name)
        if name in imports and (imports[name][0], imports[name][1]) in kernels:
            return (imports[name][0], imports[name][1])
        return None

    for _round in range(3):
        roles = {}     # kernel key -> list (per position) of sets of role names
        for short, tree in trees.items():
            imports = _imports_of(tree)
            for fn in ast.walk(tree):
                if not isinstance(fn, ast.FunctionDef):
                    continue
                caller_is_kernel = _is_njit(fn)
                fparams = {a.arg for a in fn.args.args + fn.args.kwonlyargs} - {"self"}
                for c in ast.walk(fn):
                    if not (isinstance(c, ast.Call) and isinstance(c.func, ast.Name)):
                        continue
                    key = resolve(short, tree, c.func.id, imports)
                    if key is None or kernels[key] is fn:
                        continue
                    if any(isinstance(a, ast.Starred) for a in c.args) or c.keywords:
                        continue
                    slots = roles.setdefault(key, [dict(py=set(), k=set()) for _ in kernels[key].args.args])
                    for i, a in enumerate(c.args):
                        if i >= len(slots):
                            break
                        r = _role_of_arg(a, fparams)
                        slots[i]["k" if caller_is_kernel else "py"].add(r)
        changed = False
        for key, slots in roles.items():
            node = kernels[key]
            params = [a.arg for a in node.args.args]
            want = []
            for i, sl in enumerate(slots):
                src = sl["py"] if sl["py"] else sl["k"]      # Python call sites decide; kernel call sites only pass roles on
                want.append(next(iter(src)) if len(src) == 1 and None not in src else None)
            roleset = {w for w in want if w}
            if any(w and p != w and p in roleset for p, w in zip(params, want)):
                continue        # a parameter carries the role name of another position: leave the evidence for rule `bind`
            locals_ = {n.id for n in ast.walk(node) if isinstance(n, ast.Name) and isinstance(n.ctx, ast.Store)}
            ren = {}
            for p, w in zip(params, want):
                if w and p != w and w not in locals_ and w not in params and w not in ren.values() and w.isidentifier():
                    ren[p] = w
            if not ren:
                continue
            for a in node.args.args:
                if a.arg in ren:
                    a.arg = ren[a.arg]
            for n in ast.walk(node):
                if isinstance(n, ast.Name) and n.id in ren:
                    n.id = ren[n.id]
            changed = True
        if not changed:
            break
    # positions no call site names (fed from a caller's local): the published positional interface of the anchored kernels.  Only a
    # foreign name is replaced, only for a kernel of the same module, name and arity.
    for key, canon in ANCHOR_SIGNATURES.items():
        node = kernels.get(key)
        if node is None or len(node.args.args) != len(canon):
            continue
        params = [a.arg for a in node.args.args]
        locals_ = {n.id for n in ast.walk(node) if isinstance(n, ast.Name) and isinstance(n.ctx, ast.Store)} - set(params)
        ren = {}
        for p_, c in zip(params, canon):
            if p_ != c and p_ not in canon and c not in locals_ and c not in params and c not in ren.values():
                ren[p_] = c
        if ren:
            for a in node.args.args:
                if a.arg in ren:
                    a.arg = ren[a.arg]
            for n in ast.walk(node):
                if isinstance(n, ast.Name) and n.id in ren:
                    n.id = ren[n.id]


ANCHOR_SIGNATURES = {
    ("countmin", "_func"): ["base", "max_count", "num_reserved", "uint_max"],
    ("countmin", "_funcprime"): ["base", "max_count", "num_reserved", "uint_max"],
    ("countmin", "_counter2value"): ["counter", "num_reserved", "base"],
    ("countmin", "_rand"): ["rand_batch", "rand_ptr"],
    ("countmin", "_log_counter"): ["counter", "num_reserved", "uint_maxval", "base", "rand_nums", "rand_ptr", "value"],
    ("heavyhitters", "_max_count"): ["lhh", "lhh_count", "key_lens", "width", "depth", "max_key_len", "key", "key_len"],
    ("hyperloglog", "_linear_counting"): ["m", "n_zero"],
    ("hyperloglog", "_estimation_function"): ["registers", "m", "alpha"],
    ("hyperloglog", "_n_leading_zeros64"): ["x"],
    ("hashes", "fasthash64"): ["key", "seed"],
    ("hashes", "fasthash32"): ["key", "seed"],
    ("hashes", "murmur3"): ["key", "seed"],
}


# ---------------------------------------------------------------------------
# canonical names of the anchored private functions
# ---------------------------------------------------------------------------

def _process_targets(fn):
    """[(target name, Process call node, inside a for loop?)] for `<ctx>.Process(target=<name>, ...)` in fn."""
    out = []

    def visit(node, in_for):
        for ch in ast.iter_child_nodes(node):
            if isinstance(ch, (ast.FunctionDef, ast.Lambda)):
                continue
            if isinstance(ch, ast.Call) and isinstance(ch.func, ast.Attribute) and ch.func.attr == "Process":
                kw = {k.arg: k.value for k in ch.keywords}
                if isinstance(kw.get("target"), ast.Name):
                    out.append((kw["target"].id, ch, in_for, kw.get("args")))
            visit(ch, in_for or isinstance(ch, (ast.For, ast.While)))
    visit(fn, False)
    return out


def canonicalise_anchor_functions(trees):
    """The properties anchor a few private functions by name (`_worker`, `_fill_queue`, `_merge_worker`, `_log_counter`, `_rand`,
    `_counter2value`, `_find_base`).  When such a name is missing but exactly one function plays its role, that function is renamed
    to the anchor name throughout the package (AST only), so that a consistent renaming of a private function changes no verdict."""
    ren = {}       # (short, old) -> new

    def have(short, name):
        return any(isinstance(n, ast.FunctionDef) and n.name == name for n in trees[short].body)

    def funcs(short):
        return {n.name: n for n in trees[short].body if isinstance(n, ast.FunctionDef)}

    if "helpers" in trees:
        fs = funcs("helpers")
        pa, pm = fs.get("parallel_add"), fs.get("parallel_merging")
        if pa is not None:
            for tgt, call, in_for, args in _process_targets(pa):
                if tgt not in fs:
                    continue
                argnames = {x.id for x in ast.walk(args) if isinstance(x, ast.Name)} if args is not None else set()
                role = "_fill_queue" if "items" in argnames else "_worker" if in_for else "_log_worker"
                if tgt != role and not have("helpers", role):
                    ren[("helpers", tgt)] = role
        if pm is not None:
            ts = {t for t, _, _, _ in _process_targets(pm) if t in fs}
            if len(ts) == 1 and not have("helpers", "_merge_worker"):
                t = next(iter(ts))
                if t != "_merge_worker":
                    ren[("helpers", t)] = "_merge_worker"
    if "countmin" in trees:
        fs = funcs("countmin")
        ks = {n: f for n, f in fs.items() if _is_njit(f)}

        def sig_text(f):
            return " ".join(ast.unparse(d) for d in f.decorator_list)
        cands = {
            "_log_counter": [n for n, f in ks.items() if len(f.args.args) == 7 and "Tuple" in sig_text(f)],
            "_rand": [n for n, f in ks.items() if len(f.args.args) == 2 and "Tuple" in sig_text(f)],
            "_counter2value": [n for n, f in ks.items() if len(f.args.args) == 3 and sig_text(f).replace(" ", "").startswith("njit(float64(")],
        }
        fb = set()
        for n in ast.walk(trees["countmin"]):
            if isinstance(n, ast.Assign) and len(n.targets) == 1 and isinstance(n.targets[0], ast.Attribute) and n.targets[0].attr == "base" \
                    and isinstance(n.value, ast.Call) and isinstance(n.value.func, ast.Name) and n.value.func.id in ks:
                fb.add(n.value.func.id)
        cands["_find_base"] = sorted(fb)
        cands["_counter2value"] = [c for c in cands["_counter2value"] if c not in fb]
        for role, cs in cands.items():
            if not have("countmin", role) and len(cs) == 1 and cs[0] != role:
                ren[("countmin", cs[0])] = role
    if "heavyhitters" in trees and not have("heavyhitters", "_max_count"):
        # the reader kernel: the one kernel HeavyHitters.__getitem__ calls
        fs = funcs("heavyhitters")
        ks = {n for n, f in fs.items() if _is_njit(f)}
        for cl in trees["heavyhitters"].body:
            if isinstance(cl, ast.ClassDef) and cl.name == "HeavyHitters":
                for m_ in cl.body:
                    if isinstance(m_, ast.FunctionDef) and m_.name == "__getitem__":
                        called = {c.func.id for c in ast.walk(m_) if isinstance(c, ast.Call) and isinstance(c.func, ast.Name) and c.func.id in ks}
                        if len(called) == 1:
                            ren[("heavyhitters", next(iter(called)))] = "_max_count"
    if not ren:
        return {}
    for (short, old), new in ren.items():
        for s2, tree in trees.items():
            imports = _imports_of(tree)
            local_names = {old} if s2 == short else {ln for ln, (ms, on) in imports.items() if ms == short and on == old}
            if not local_names:
                continue
            for n in ast.walk(tree):
                if isinstance(n, ast.FunctionDef) and n.name == old and s2 == short and n in tree.body:
                    n.name = new
                elif isinstance(n, ast.Name) and n.id in local_names:
                    n.id = new
                elif isinstance(n, ast.ImportFrom) and n.module and n.module.split(".")[-1] == short:
                    for a in n.names:
                        if a.name == old:
                            a.name = new
                            if a.asname in local_names:
                                a.asname = None
    return ren


def positionalise_kernel_calls(trees):
    """`_kernel(a, b, key=k, value=v)` -> `_kernel(a, b, k, v)` when the keywords name exactly the remaining parameters: the rules
    read kernel arguments by position."""
    kernels = {}
    for short, tree in trees.items():
        for name, node in _kernel_defs(tree).items():
            kernels[(short, name)] = node
    for short, tree in trees.items():
        imports = _imports_of(tree)
        for c in ast.walk(tree):
            if not (isinstance(c, ast.Call) and isinstance(c.func, ast.Name) and c.keywords):
                continue
            key = (short, c.func.id) if (short, c.func.id) in kernels else \
                ((imports[c.func.id][0], imports[c.func.id][1]) if c.func.id in imports and (imports[c.func.id][0], imports[c.func.id][1]) in kernels else None)
            if key is None or any(isinstance(a, ast.Starred) for a in c.args) or any(k.arg is None for k in c.keywords):
                continue
            params = [a.arg for a in kernels[key].args.args]
            rest = params[len(c.args):]
            kw = {k.arg: k.value for k in c.keywords}
            if set(kw) == set(rest) and len(kw) == len(c.keywords):
                c.args = list(c.args) + [kw[p_] for p_ in rest]
                c.keywords = []


def positionalise_python_calls(trees):
    """Keyword arguments at calls of the package's own Python-level functions, constructors and methods are read as positional:
    `self.add_ngram(key=key, ngram=n)` -> `self.add_ngram(key, n)`, `CountMinLog16(width=w, depth=d)` -> `CountMinLog16(w, d)`.
    Only the longest prefix of the remaining parameters that is supplied by keyword is moved (a gap keeps the later keywords), and
    only where the callee is resolved: a module-level def (own module or `from .x import f`), a class of the package (its __init__),
    `self.m` / `cls.m` / `Class.m` through the class hierarchy, or -- for any other receiver -- a method name whose every definition
    in the package has the same parameter list."""
    funcs, classes = {}, {}
    for short, tree in trees.items():
        for n in tree.body:
            if isinstance(n, ast.FunctionDef) and not _is_njit(n):
                funcs[(short, n.name)] = n
            elif isinstance(n, ast.ClassDef):
                classes[(short, n.name)] = n

    def params_of(fn, drop_first):
        a = fn.args
        if a.vararg is not None:
            return None
        ps = [x.arg for x in list(a.posonlyargs) + list(a.args)]
        return ps[1:] if drop_first and ps else ps

    def is_static(fn):
        return any((isinstance(d, ast.Name) and d.id == "staticmethod") for d in fn.decorator_list)

    def class_key(short, name, imports):
        if (short, name) in classes:
            return (short, name)
        if name in imports and (imports[name][0], imports[name][1]) in classes:
            return (imports[name][0], imports[name][1])
        return None

    def method_of(ckey, mname, seen=()):
        if ckey is None or ckey in seen:
            return None
        c = classes[ckey]
        for d in c.body:
            if isinstance(d, ast.FunctionDef) and d.name == mname:
                return d
        imports = _imports_of(trees[ckey[0]])
        for b in c.bases:
            if isinstance(b, ast.Name):
                r = method_of(class_key(ckey[0], b.id, imports), mname, seen + (ckey,))
                if r is not None:
                    return r
        return None

    by_method = {}
    for ck, c in classes.items():
        for d in c.body:
            if isinstance(d, ast.FunctionDef):
                by_method.setdefault(d.name, []).append(d)

    def move(c, params):
        if params is None or any(isinstance(a, ast.Starred) for a in c.args) or any(k.arg is None for k in c.keywords):
            return
        kw = {k.arg: k for k in c.keywords}
        if len(kw) != len(c.keywords):
            return
        i = len(c.args)
        moved = []
        while i < len(params) and params[i] in kw:
            moved.append(kw[params[i]])
            i += 1
        if moved:
            c.args = list(c.args) + [k.value for k in moved]
            c.keywords = [k for k in c.keywords if k not in moved]

    def trim_defaults(c, fn, drop_first):
        """`self.add(key, 1)` where 1 is the literal default of that parameter is `self.add(key)`: a trailing positional argument that
        is a constant equal to the callee's constant default says nothing.  (Only where the callee is this class's own method, found
        through the hierarchy; a subclass overriding it with another default is not considered -- the package has none.)"""
        if any(isinstance(a, ast.Starred) for a in c.args) or c.keywords or fn.args.vararg is not None or fn.args.kwarg is not None:
            return
        ps = list(fn.args.posonlyargs) + list(fn.args.args)
        if drop_first and ps:
            ps = ps[1:]
        defaults = dict(zip([p.arg for p in ps][len(ps) - len(fn.args.defaults):], fn.args.defaults)) if fn.args.defaults else {}
        names = [p.arg for p in ps]
        while c.args and len(c.args) <= len(names):
            pname = names[len(c.args) - 1]
            d, a = defaults.get(pname), c.args[-1]
            if isinstance(d, ast.Constant) and isinstance(a, ast.Constant) and type(d.value) is type(a.value) and d.value == a.value:
                c.args = list(c.args[:-1])
            else:
                break

    for short, tree in trees.items():
        imports = _imports_of(tree)

        def visit(node, cls):
            for ch in ast.iter_child_nodes(node):
                visit(ch, node if isinstance(node, ast.ClassDef) else cls)
            c = node
            if not isinstance(c, ast.Call):
                return
            if not c.keywords:
                # no keywords to move: only the explicit-default trimming below applies, and only to `self.m(...)` / `cls.m(...)`
                f = c.func
                if isinstance(f, ast.Attribute) and isinstance(f.value, ast.Name) and f.value.id in ("self", "cls") and cls is not None:
                    m = method_of((short, cls.name), f.attr)
                    if m is not None:
                        trim_defaults(c, m, not is_static(m))
                return
            f = c.func
            if isinstance(f, ast.Name):
                if (short, f.id) in funcs:
                    move(c, params_of(funcs[(short, f.id)], False))
                elif f.id in imports and (imports[f.id][0], imports[f.id][1]) in funcs:
                    move(c, params_of(funcs[(imports[f.id][0], imports[f.id][1])], False))
                else:
                    ck = class_key(short, f.id, imports)
                    if ck is not None:
                        init = method_of(ck, "__init__")
                        if init is not None:
                            move(c, params_of(init, True))
            elif isinstance(f, ast.Attribute):
                recv = f.value
                m = None
                if isinstance(recv, ast.Name) and recv.id in ("self", "cls") and cls is not None:
                    m = method_of((short, cls.name), f.attr)
                elif isinstance(recv, ast.Name) and class_key(short, recv.id, imports) is not None:
                    m = method_of(class_key(short, recv.id, imports), f.attr)
                if m is None and not (isinstance(recv, ast.Name) and recv.id in ("np", "numpy", "os", "gc", "logging", "time", "math")):
                    cands = by_method.get(f.attr, [])
                    sigs = {(tuple(params_of(d, not is_static(d)) or ()), is_static(d)) for d in cands}
                    if cands and len(sigs) == 1 and not (isinstance(recv, ast.Name) and recv.id in imports and class_key(short, recv.id, imports) is None):
                        m = cands[0]
                if m is not None:
                    move(c, params_of(m, not is_static(m)))
        visit(tree, None)


_BUILTIN_EXC = {"Exception", "TypeError", "ValueError", "RuntimeError", "KeyError", "IndexError", "MemoryError", "AttributeError", "OSError",
                "IOError", "EOFError", "ArithmeticError", "ZeroDivisionError", "OverflowError", "LookupError", "NotImplementedError", "AssertionError"}


def canonicalise_exception_raises(trees):
    """`raise PkgError(...)` where PkgError is a class of the package whose base chain ends in a builtin exception and which defines no
    methods of its own (a docstring-only subclass): the raise is read as raising that builtin (an instance of the subclass IS one).
    Only `raise` statements are rewritten -- an `except PkgError` clause catches less than `except TypeError` and is left alone."""
    classes = {}
    for short, tree in trees.items():
        for n in tree.body:
            if isinstance(n, ast.ClassDef):
                classes[(short, n.name)] = n

    def base_of(key, seen=()):
        c = classes.get(key)
        if c is None or key in seen or len(c.bases) != 1 or not isinstance(c.bases[0], ast.Name):
            return None
        if any(isinstance(b, (ast.FunctionDef, ast.AsyncFunctionDef)) for b in c.body):
            return None
        b = c.bases[0].id
        if b in _BUILTIN_EXC:
            return b
        imports = _imports_of(trees[key[0]])
        nk = (key[0], b) if (key[0], b) in classes else ((imports[b][0], imports[b][1]) if b in imports else None)
        return base_of(nk, seen + (key,)) if nk else None
    n_rewritten = 0
    for short, tree in trees.items():
        imports = _imports_of(tree)
        for r in ast.walk(tree):
            if not isinstance(r, ast.Raise) or r.exc is None:
                continue
            fn = r.exc.func if isinstance(r.exc, ast.Call) else r.exc
            if not isinstance(fn, ast.Name):
                continue
            key = (short, fn.id) if (short, fn.id) in classes else ((imports[fn.id][0], imports[fn.id][1]) if fn.id in imports else None)
            b = base_of(key) if key else None
            if b is not None:
                fn.id = b
                n_rewritten += 1
    return n_rewritten
