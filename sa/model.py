"""E1 -- source model of /repo/sketchnu, rebuilt from the working tree on every run.

Pure ``ast``; nothing is imported from the repository.
"""
from __future__ import annotations

import ast
import hashlib
import os

REPO = os.environ.get("SKETCHNU_REPO", "/repo")
PKG = "sketchnu"
MODULES = ["__init__", "countmin", "hashes", "heavyhitters", "helpers",
           "hll_bias_experiment", "hll_constants", "hyperloglog"]


class AnalysisError(Exception):
    """The analysis cannot speak (vanished anchor, unreadable shape).  Exit code 2."""


class Ty:
    """A Numba type as written in an explicit @njit signature."""
    __slots__ = ("kind", "bits", "ndim", "items")

    def __init__(self, kind, bits=0, ndim=0, items=()):
        self.kind = kind      # 'uint' | 'int' | 'float' | 'void' | 'bytes' | 'tuple' | 'bool' | 'other'
        self.bits = bits
        self.ndim = ndim
        self.items = tuple(items)

    @property
    def is_array(self):
        return self.ndim > 0

    @property
    def scalar(self):
        return Ty(self.kind, self.bits)

    def range(self):
        if self.kind == "uint":
            return (0, 2 ** self.bits - 1)
        if self.kind == "int":
            return (-(2 ** (self.bits - 1)), 2 ** (self.bits - 1) - 1)
        return (None, None)

    def __eq__(self, o):
        return isinstance(o, Ty) and (self.kind, self.bits, self.ndim, self.items) == (o.kind, o.bits, o.ndim, o.items)

    def __hash__(self):
        return hash((self.kind, self.bits, self.ndim, self.items))

    def __repr__(self):
        if self.kind == "tuple":
            return "Tuple(%s)" % ", ".join(map(repr, self.items))
        base = {"uint": "uint%d", "int": "int%d", "float": "float%d"}.get(self.kind)
        s = (base % self.bits) if base else self.kind
        if self.ndim:
            s += "[" + ",".join(":" * self.ndim) + "]"
        return s


_SCALARS = {}
for _b in (8, 16, 32, 64):
    _SCALARS["uint%d" % _b] = Ty("uint", _b)
    _SCALARS["int%d" % _b] = Ty("int", _b)
_SCALARS["float64"] = Ty("float", 64)
_SCALARS["float32"] = Ty("float", 32)
_SCALARS["void"] = Ty("void")
_SCALARS["boolean"] = Ty("bool")


def parse_type(node):
    """Numba type expression -> Ty."""
    if isinstance(node, ast.Name) and node.id in _SCALARS:
        return _SCALARS[node.id]
    if isinstance(node, ast.Attribute) and node.attr in _SCALARS:
        return _SCALARS[node.attr]
    if isinstance(node, ast.Subscript):
        base = parse_type(node.value)
        sl = node.slice
        n = len(sl.elts) if isinstance(sl, ast.Tuple) else 1
        return Ty(base.kind, base.bits, n)
    if isinstance(node, ast.Call):
        fn = node.func
        name = fn.attr if isinstance(fn, ast.Attribute) else getattr(fn, "id", None)
        if name == "Bytes":
            return Ty("bytes")
        if name in ("Tuple", "UniTuple"):
            arg = node.args[0]
            if isinstance(arg, (ast.Tuple, ast.List)):
                return Ty("tuple", items=[parse_type(e) for e in arg.elts])
        # a signature-call nested: ret(args...)
    return Ty("other")


class Func:
    """A module-level function or a method."""

    def __init__(self, module, node, cls=None):
        self.module = module
        self.node = node
        self.cls = cls
        self.name = node.name
        self.params = [a.arg for a in node.args.posonlyargs + node.args.args]
        self.kwonly = [a.arg for a in node.args.kwonlyargs]
        self.vararg = node.args.vararg.arg if node.args.vararg else None
        self.kwarg = node.args.kwarg.arg if node.args.kwarg else None
        self.is_kernel = False
        self.parallel = False
        self.ptypes = {}
        self.rtype = None
        self.decorators = [d for d in node.decorator_list]
        self.is_static = any(isinstance(d, ast.Name) and d.id == "staticmethod" for d in self.decorators)
        self._parse_njit()

    @property
    def qualname(self):
        return "%s.%s" % (self.cls.name, self.name) if self.cls else self.name

    @property
    def is_noop(self):
        """A body of nothing but a docstring, `pass` and bare returns: calling it neither reads nor changes anything (used e.g. as a
        typed probe that lets Numba reject a badly typed argument)."""
        for s in self.node.body:
            if isinstance(s, ast.Pass) or (isinstance(s, ast.Expr) and isinstance(s.value, ast.Constant)):
                continue
            if isinstance(s, ast.Return) and (s.value is None or (isinstance(s.value, ast.Constant) and s.value.value is None)):
                continue
            return False
        return True

    @property
    def file(self):
        return self.module.relpath

    @property
    def key(self):
        return "%s::%s" % (self.module.short, self.qualname)

    def _parse_njit(self):
        for d in self.decorators:
            if isinstance(d, ast.Call) and getattr(d.func, "id", getattr(d.func, "attr", None)) in ("njit", "jit"):
                self.is_kernel = True
                for kw in d.keywords:
                    if kw.arg == "parallel" and isinstance(kw.value, ast.Constant):
                        self.parallel = bool(kw.value.value)
                sig0 = self._alias(d.args[0]) if d.args else None
                if sig0 is not None and isinstance(sig0, ast.Call):
                    sig = sig0
                    self.rtype = parse_type(self._alias(sig.func))
                    tys = [parse_type(self._alias(a)) for a in sig.args]
                    if len(tys) != len(self.params):
                        raise AnalysisError("%s: signature has %d types for %d parameters"
                                            % (self.key, len(tys), len(self.params)))
                    self.ptypes = dict(zip(self.params, tys))
            elif isinstance(d, ast.Name) and d.id in ("njit", "jit"):
                self.is_kernel = True

    def _alias(self, node, depth=0):
        """A signature element written as a module-level alias is replaced by the aliased expression."""
        al = getattr(self.module, "sig_aliases", {})
        while isinstance(node, ast.Name) and node.id in al and depth < 5:
            node = al[node.id]
            depth += 1
        return node

    def body(self):
        """Statements without the docstring."""
        b = self.node.body
        if b and isinstance(b[0], ast.Expr) and isinstance(getattr(b[0], "value", None), ast.Constant) \
                and isinstance(b[0].value.value, str):
            return b[1:]
        return b


class Cls:
    def __init__(self, module, node):
        self.module = module
        self.node = node
        self.name = node.name
        self.base_names = [b.id for b in node.bases if isinstance(b, ast.Name)]
        self.methods = {}
        for n in node.body:
            if isinstance(n, (ast.FunctionDef, ast.AsyncFunctionDef)):
                self.methods[n.name] = Func(module, n, self)
        self.bases = []   # resolved later

    def mro(self):
        out = [self]
        for b in self.bases:
            for c in b.mro():
                if c not in out:
                    out.append(c)
        return out

    def resolve(self, name):
        for c in self.mro():
            if name in c.methods:
                return c.methods[name]
        return None

    @property
    def key(self):
        return "%s::%s" % (self.module.short, self.name)


def parse_and_normalise(short, relpath, text):
    try:
        tree = ast.parse(text, filename=relpath)
    except SyntaxError as e:
        raise AnalysisError("cannot parse %s: %s" % (relpath, e))
    # "extract method" refactorings must not change verdicts: inline private non-jitted helpers at their call sites
    tree._inlined = 0
    if short not in ("hll_constants", "hll_bias_experiment"):
        from .normalize import normalize
        try:
            tree._inlined = normalize(tree)
        except RecursionError:
            tree._inlined = 0
    return tree


class Module:
    def __init__(self, short, relpath, text, tree=None):
        self.short = short
        self.relpath = relpath
        self.text = text
        self.lines = text.splitlines()
        self.tree = tree if tree is not None else parse_and_normalise(short, relpath, text)
        self.inlined = getattr(self.tree, "_inlined", 0)
        # module-level simple assignments first: Numba signatures may be written through aliases (`_BYTES = types.Bytes(...)`)
        self.sig_aliases = {}
        for n in self.tree.body:
            if isinstance(n, ast.Assign) and len(n.targets) == 1 and isinstance(n.targets[0], ast.Name):
                self.sig_aliases[n.targets[0].id] = n.value
        self.funcs = {}
        self.classes = {}
        self.imports = {}    # local name -> (module short | external dotted, original name)
        self.globals = {}    # name -> value node (module-level simple assignments)
        for n in self.tree.body:
            if isinstance(n, (ast.FunctionDef, ast.AsyncFunctionDef)):
                self.funcs[n.name] = Func(self, n)
            elif isinstance(n, ast.ClassDef):
                self.classes[n.name] = Cls(self, n)
            elif isinstance(n, ast.ImportFrom):
                for a in n.names:
                    self.imports[a.asname or a.name] = (n.module or "", a.name)
            elif isinstance(n, ast.Import):
                for a in n.names:
                    self.imports[a.asname or a.name.split(".")[0]] = (a.name, None)
            elif isinstance(n, ast.Assign):
                for t in n.targets:
                    if isinstance(t, ast.Name):
                        self.globals[t.id] = n.value

    def segment(self, node):
        try:
            return ast.get_source_segment(self.text, node) or ""
        except Exception:
            return ""


class Model:
    """All modules of the package + name resolution."""

    def __init__(self, sources=None, repo=None):
        self.repo = repo or REPO
        self.modules = {}
        self.digests = {}
        if sources is None:
            sources = {}
            d = os.path.join(self.repo, PKG)
            if not os.path.isdir(d):
                raise AnalysisError("package directory %s not found" % d)
            for fn in sorted(os.listdir(d)):
                if fn.endswith(".py"):
                    with open(os.path.join(d, fn), encoding="utf-8") as f:
                        sources[fn[:-3]] = f.read()
        trees = {short: parse_and_normalise(short, "%s/%s.py" % (PKG, short), text) for short, text in sources.items()}
        from .normalize import canonicalise_anchor_functions, canonicalise_kernel_params
        pk = {k: v for k, v in trees.items() if k not in ("hll_constants", "hll_bias_experiment")}
        self.renamed_anchors = canonicalise_anchor_functions(pk)
        from .normalize import positionalise_kernel_calls, positionalise_python_calls, canonicalise_exception_raises
        canonicalise_exception_raises(trees)
        positionalise_kernel_calls(pk)
        positionalise_python_calls(pk)
        canonicalise_kernel_params(pk)
        for short, text in sources.items():
            self.modules[short] = Module(short, "%s/%s.py" % (PKG, short), text, tree=trees[short])
            self.digests[short] = hashlib.sha256(text.encode()).hexdigest()[:16]
        # resolve class bases (same module or imported sibling)
        for m in self.modules.values():
            for c in m.classes.values():
                for bn in c.base_names:
                    b = self.lookup_class(m, bn)
                    if b:
                        c.bases.append(b)

    # -- lookup ---------------------------------------------------------
    def module(self, short):
        if short not in self.modules:
            raise AnalysisError("module %s/%s.py not found" % (PKG, short))
        return self.modules[short]

    def _sibling(self, dotted):
        if dotted.startswith(PKG + "."):
            return self.modules.get(dotted[len(PKG) + 1:])
        return None

    def lookup_class(self, module, name):
        if name in module.classes:
            return module.classes[name]
        if name in module.imports:
            sib = self._sibling(module.imports[name][0])
            if sib and module.imports[name][1] in sib.classes:
                return sib.classes[module.imports[name][1]]
        return None

    def lookup_func(self, module, name):
        if name in module.funcs:
            return module.funcs[name]
        if name in module.imports:
            sib = self._sibling(module.imports[name][0])
            if sib and module.imports[name][1] in sib.funcs:
                return sib.funcs[module.imports[name][1]]
        return None

    def func(self, short, name):
        m = self.module(short)
        if name not in m.funcs:
            raise AnalysisError("anchor function %s::%s not found" % (short, name))
        return m.funcs[name]

    def cls(self, short, name):
        m = self.module(short)
        if name not in m.classes:
            raise AnalysisError("anchor class %s::%s not found" % (short, name))
        return m.classes[name]

    def method(self, short, cname, mname):
        c = self.cls(short, cname)
        f = c.resolve(mname)
        if f is None:
            raise AnalysisError("anchor method %s::%s.%s not found (MRO searched)" % (short, cname, mname))
        return f

    def kernels(self, short=None):
        out = []
        for m in self.modules.values():
            if short and m.short != short:
                continue
            out.extend(f for f in m.funcs.values() if f.is_kernel)
        return out

    def all_funcs(self):
        for m in self.modules.values():
            for f in m.funcs.values():
                yield f
            for c in m.classes.values():
                for f in c.methods.values():
                    yield f

    def digest(self, shorts):
        h = hashlib.sha256()
        for s in sorted(shorts):
            h.update(self.digests.get(s, "").encode())
        return h.hexdigest()[:16]


# ---------------------------------------------------------------------------
# small AST helpers shared by the rules
# ---------------------------------------------------------------------------

def call_name(node):
    """Dotted name of a call's callee: 'np.savez', 'self.add', '_add', or None."""
    if not isinstance(node, ast.Call):
        return None
    return dotted(node.func)


def dotted(node):
    if isinstance(node, ast.Name):
        return node.id
    if isinstance(node, ast.Attribute):
        b = dotted(node.value)
        return (b + "." + node.attr) if b else None
    return None


def self_attr(node, obj="self"):
    """'X' if node is `<obj>.X` else None."""
    if isinstance(node, ast.Attribute) and isinstance(node.value, ast.Name) and node.value.id == obj:
        return node.attr
    return None


def walk_no_nested(node):
    """ast.walk that does not descend into nested function/class definitions."""
    stack = [node]
    while stack:
        n = stack.pop()
        yield n
        for c in ast.iter_child_nodes(n):
            if isinstance(c, (ast.FunctionDef, ast.AsyncFunctionDef, ast.ClassDef, ast.Lambda)):
                continue
            stack.append(c)


def calls_in(node):
    return [n for n in walk_no_nested(node) if isinstance(n, ast.Call)]


def norm_src(module, node, limit=160):
    s = " ".join(module.segment(node).split())
    return s if len(s) <= limit else s[:limit - 3] + "..."


def unparse(node, limit=160):
    try:
        s = " ".join(ast.unparse(node).split())
    except Exception:
        s = "<%s>" % type(node).__name__
    return s if len(s) <= limit else s[:limit - 3] + "..."


# ---------------------------------------------------------------------------
# single-assignment temporaries
# ---------------------------------------------------------------------------

def single_assignments(fnode, allow_subscript=False, in_loops=False, loose=False):
    """name -> value expression for every local that is bound exactly once in `fnode`, by a plain `name = expr` statement that is
    not inside a loop, and whose value mentions only parameters that are never rebound or other such locals.  At any later use the
    name therefore denotes the value of that expression (a use before the definition would raise UnboundLocalError)."""
    stores = {}
    in_loop = set()
    loop_targets = {}

    def scan(stmts, loop):
        for s in stmts:
            if isinstance(s, (ast.FunctionDef, ast.AsyncFunctionDef, ast.ClassDef, ast.Lambda)):
                continue
            for n in ([s] if not hasattr(s, "body") else []):
                pass
            if isinstance(s, ast.Assign):
                for t in s.targets:
                    for e in ast.walk(t):
                        if isinstance(e, ast.Name) and isinstance(e.ctx, ast.Store):
                            stores.setdefault(e.id, []).append(s if (len(s.targets) == 1 and t is e) else None)
                            if loop:
                                in_loop.add(e.id)
            else:
                for e in ast.walk(s) if not isinstance(s, (ast.For, ast.While, ast.If, ast.With, ast.Try)) else []:
                    if isinstance(e, ast.Name) and isinstance(e.ctx, (ast.Store, ast.Del)):
                        stores.setdefault(e.id, []).append(None)
            if isinstance(s, (ast.For, ast.AsyncFor)):
                for e in ast.walk(s.target):
                    if isinstance(e, ast.Name):
                        stores.setdefault(e.id, []).append(None)
                        loop_targets[e.id] = loop_targets.get(e.id, 0) + 1
                scan(s.body, True)
                scan(s.orelse, loop)
            elif isinstance(s, ast.While):
                for e in ast.walk(s.test):
                    if isinstance(e, ast.NamedExpr):
                        stores.setdefault(e.target.id, []).append(None)
                scan(s.body, True)
                scan(s.orelse, loop)
            elif isinstance(s, ast.If):
                scan(s.body, loop)
                scan(s.orelse, loop)
            elif isinstance(s, (ast.With, ast.AsyncWith)):
                for it in s.items:
                    if it.optional_vars is not None:
                        for e in ast.walk(it.optional_vars):
                            if isinstance(e, ast.Name):
                                stores.setdefault(e.id, []).append(None)
                scan(s.body, loop)
            elif isinstance(s, ast.Try):
                scan(s.body, loop)
                for h in s.handlers:
                    if h.name:
                        stores.setdefault(h.name, []).append(None)
                    scan(h.body, loop)
                scan(s.orelse, loop)
                scan(s.finalbody, loop)

    scan(fnode.body, False)
    for e in ast.walk(fnode):
        if isinstance(e, ast.NamedExpr):
            stores.setdefault(e.target.id, []).append(None)
    params = {a.arg for a in fnode.args.args + fnode.args.kwonlyargs + fnode.args.posonlyargs}
    if fnode.args.vararg:
        params.add(fnode.args.vararg.arg)
    if fnode.args.kwarg:
        params.add(fnode.args.kwarg.arg)
    cand = {n: v[0].value for n, v in stores.items() if len(v) == 1 and v[0] is not None and (in_loops or n not in in_loop) and n not in params
            and not isinstance(v[0].value, (ast.List, ast.Dict, ast.Set, ast.ListComp, ast.DictComp, ast.SetComp, ast.GeneratorExp))}
    if loose:
        # only "which expression defines this name" is wanted (role finding), not equality of values at the use
        return cand
    stable = {p for p in params if p not in stores}
    if in_loops:
        # a loop variable bound by exactly one `for` (and nothing else) is constant within an iteration
        stable |= {n for n, c in loop_targets.items() if c == 1 and len(stores.get(n, ())) == 1}
    changed = True
    good = {}
    while changed:
        changed = False
        for n, val in cand.items():
            if n in good:
                continue
            ok = True
            for e in ast.walk(val):
                if isinstance(e, ast.Name) and isinstance(e.ctx, ast.Load):
                    if e.id in stores and e.id not in good and e.id not in stable:
                        ok = False
                    elif e.id in params and e.id not in stable:
                        ok = False
                elif isinstance(e, ast.Subscript) and not allow_subscript:
                    ok = False
                elif isinstance(e, (ast.Yield, ast.YieldFrom, ast.Await, ast.NamedExpr, ast.Lambda)):
                    ok = False
            if ok:
                good[n] = val
                changed = True
    return good


class _SubstNames(ast.NodeTransformer):
    def __init__(self, env):
        self.env = env
        self.depth = 0

    def visit_Name(self, n):
        if isinstance(n.ctx, ast.Load) and n.id in self.env and self.depth < 20:
            import copy
            self.depth += 1
            r = self.visit(copy.deepcopy(self.env[n.id]))
            self.depth -= 1
            return r
        return n


def resolve_temps(fnode, expr, allow_subscript=False, pure_only=True, in_loops=False, loose=False):
    """`expr` with every single-assignment temporary of `fnode` replaced by its defining expression (recursively).  With pure_only
    a temporary whose definition contains a call other than a NumPy scalar constructor / len / int / float is left alone."""
    import copy
    env = single_assignments(fnode, allow_subscript, in_loops, loose)
    if pure_only:
        def pure(v):
            for e in ast.walk(v):
                if isinstance(e, ast.Call):
                    d = dotted(e.func) or ""
                    last = d.split(".")[-1]
                    if last not in ("uint8", "uint16", "uint32", "uint64", "int8", "int16", "int32", "int64", "float32", "float64", "int", "float",
                                    "len", "log", "log2", "sqrt", "exp", "array", "asarray", "min", "max", "abs"):
                        return False
            return True
        env = {n: v for n, v in env.items() if pure(v)}
    return _SubstNames(env).visit(copy.deepcopy(expr))


def expand_expr(model, func, expr, depth=0):
    """`expr` of `func` as one self-contained expression: single-assignment temporaries replaced by their definitions and calls to
    package functions that consist of one `return <expression>` (after their own temporaries are resolved) replaced by that
    expression with the arguments substituted.  Used to compare arithmetic shapes independently of helpers and temporaries."""
    import copy
    e = resolve_temps(func.node, expr, allow_subscript=True, pure_only=False, in_loops=True, loose=True)
    if depth > 3:
        return e

    class T(ast.NodeTransformer):
        def visit_Call(self, c):
            self.generic_visit(c)
            if isinstance(c.func, ast.Name) and not c.keywords and not any(isinstance(a, ast.Starred) for a in c.args):
                callee = model.lookup_func(func.module, c.func.id)
                if callee is not None and callee is not func and len(callee.params) == len(c.args):
                    rets = [n for n in walk_no_nested(callee.node) if isinstance(n, ast.Return)]
                    others = [n for n in callee.body() if not isinstance(n, (ast.Return, ast.Assign, ast.AnnAssign))
                              and not (isinstance(n, ast.Expr) and isinstance(n.value, ast.Constant))]
                    if len(rets) == 1 and rets[0].value is not None and not others and callee.body() and callee.body()[-1] is rets[0]:
                        inner = expand_expr(model, callee, rets[0].value, depth + 1)
                        env = dict(zip(callee.params, c.args))
                        return _SubstNames(env).visit(copy.deepcopy(inner))
            return c
    return T().visit(copy.deepcopy(e))



# ---------------------------------------------------------------------------
# textual order inside a (normalised) function, independent of line numbers
# ---------------------------------------------------------------------------

def node_span(root, node):
    """(first, last) pre-order index of `node`'s subtree inside `root`.  Line numbers are not a reliable order after normalisation:
    code inlined from a helper keeps the helper's lines (so that its source text can still be quoted)."""
    spans = getattr(root, "_spans", None)
    if spans is None:
        spans = {}
        counter = [0]

        def visit(n):
            start = counter[0]
            counter[0] += 1
            for ch in ast.iter_child_nodes(n):
                visit(ch)
            spans[id(n)] = (start, counter[0] - 1)
        visit(root)
        try:
            root._spans = spans
        except AttributeError:
            pass
    return spans.get(id(node))


def comes_before(root, a, b):
    """a ends before b starts (in the text of the normalised function)."""
    sa_, sb_ = node_span(root, a), node_span(root, b)
    if sa_ is None or sb_ is None:
        return getattr(a, "end_lineno", getattr(a, "lineno", 0)) < getattr(b, "lineno", 0)
    return sa_[1] < sb_[0]


def is_inside(root, inner, outer):
    si, so = node_span(root, inner), node_span(root, outer)
    if si is None or so is None:
        return getattr(outer, "lineno", 0) <= getattr(inner, "lineno", 0) <= getattr(outer, "end_lineno", 0)
    return so[0] <= si[0] and si[1] <= so[1]


def path_returns(func_node, limit=64):
    """The returned expressions of a loop-free function, one per syntactic path, with the local assignments made on that path
    substituted (a tiny symbolic run over assignments / if / return: `d = A; if c: d = B; return d` gives [B, A]).  None when the
    body uses anything else (loops, try, with, augmented stores into subscripts, ...)."""
    import copy

    def subst(e, env):
        class T(ast.NodeTransformer):
            def visit_Name(self, n):
                if isinstance(n.ctx, ast.Load) and n.id in env:
                    return copy.deepcopy(env[n.id])
                return n
        return T().visit(copy.deepcopy(e))
    out = []

    def run(stmts, env):
        """returns list of environments that fall through, or None on an unsupported statement"""
        envs = [env]
        for st in stmts:
            nxt = []
            for ev in envs:
                if isinstance(st, ast.Expr) and isinstance(st.value, ast.Constant):
                    nxt.append(ev)
                elif isinstance(st, ast.Pass):
                    nxt.append(ev)
                elif isinstance(st, ast.Assign) and len(st.targets) == 1 and isinstance(st.targets[0], ast.Name):
                    e2 = dict(ev)
                    e2[st.targets[0].id] = subst(st.value, ev)
                    nxt.append(e2)
                elif isinstance(st, ast.AugAssign) and isinstance(st.target, ast.Name):
                    e2 = dict(ev)
                    cur = ev.get(st.target.id, ast.Name(id=st.target.id, ctx=ast.Load()))
                    e2[st.target.id] = ast.BinOp(left=copy.deepcopy(cur), op=st.op, right=subst(st.value, ev))
                    nxt.append(e2)
                elif isinstance(st, ast.Return):
                    if st.value is None:
                        return None
                    out.append(subst(st.value, ev))
                    if len(out) > limit:
                        return None
                elif isinstance(st, ast.If):
                    a = run(st.body, dict(ev))
                    b = run(st.orelse, dict(ev))
                    if a is None or b is None:
                        return None
                    nxt.extend(a + b)
                elif isinstance(st, ast.Raise):
                    pass
                else:
                    return None
            envs = nxt
            if len(envs) > limit:
                return None
        return envs
    r = run(func_node.body, {})
    if r is None:
        return None
    for x in out:
        ast.fix_missing_locations(x)
    return out
