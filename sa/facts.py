"""Repository facts shared by the rules: classes, constructor attributes, wrapper->kernel
bindings (``bind``), counter ceilings (``ceil``), kernel parameter roles, cached flow walks."""
from __future__ import annotations

import ast

from .flow import NP_DTYPES, Effects, Num, Tup, Walker, cast_target
from .lin import Lin
from .model import AnalysisError, Ty, call_name, dotted, self_attr, unparse, walk_no_nested

SKETCH_CLASSES = [
    ("countmin", "CountMinLinear"),
    ("countmin", "CountMinLog16"),
    ("countmin", "CountMinLog8"),
    ("heavyhitters", "HeavyHitters"),
    ("hyperloglog", "HyperLogLog"),
]
COUNTMIN = SKETCH_CLASSES[:3]

# kernel parameter names that differ from the attribute they are fed from (one line of reason each)
BIND_ALIASES = {
    ("_find_base", "uint_max"): "uint_maxval",   # constructor helper; names the same quantity
    ("_counter2value", "counter"): None,          # local value (query result), not an attribute
}


def const_int(node):
    """Evaluate a closed integer expression (2**32 - 1, 8 * 2, 0xFF) or return None."""
    try:
        if isinstance(node, ast.Constant) and isinstance(node.value, int) and not isinstance(node.value, bool):
            return node.value
        if isinstance(node, ast.BinOp):
            a, b = const_int(node.left), const_int(node.right)
            if a is None or b is None:
                return None
            op = node.op
            if isinstance(op, ast.Add):
                return a + b
            if isinstance(op, ast.Sub):
                return a - b
            if isinstance(op, ast.Mult):
                return a * b
            if isinstance(op, ast.Pow) and 0 <= b <= 256:
                return a ** b
            if isinstance(op, ast.LShift) and 0 <= b <= 256:
                return a << b
            if isinstance(op, ast.FloorDiv) and b:
                return a // b
        if isinstance(node, ast.UnaryOp) and isinstance(node.op, ast.USub):
            v = const_int(node.operand)
            return None if v is None else -v
        if isinstance(node, ast.Call) and cast_target(node.func) is not None and len(node.args) == 1:
            return const_int(node.args[0])
    except Exception:
        return None
    return None


class AttrDef:
    """One `self.X = <value>` in a constructor."""
    __slots__ = ("attr", "node", "value", "branch", "stmt")

    def __init__(self, attr, stmt, value, branch):
        self.attr = attr
        self.stmt = stmt
        self.node = stmt
        self.value = value
        self.branch = branch       # tuple of (test-src, polarity) for enclosing ifs


def init_attr_defs(func):
    """All self.X assignments of a constructor-like method, with their enclosing-if context.  A value that is a local temporary
    is replaced by the expression that defines the temporary (`cms = np.zeros(...); self.cms = cms`)."""
    out = []
    from .model import resolve_temps

    def resolved(v):
        if isinstance(v, ast.Name):
            r = resolve_temps(func.node, v, allow_subscript=True, pure_only=False, in_loops=False, loose=True)
            # loose resolution names the defining expression; accept it only when that expression creates a fresh value
            # (a call) or is a plain parameter / attribute
            if isinstance(r, (ast.Call, ast.Attribute, ast.Name, ast.Subscript, ast.Constant, ast.BinOp)):
                return r
        return v

    def visit(stmts, branch):
        for s in stmts:
            if isinstance(s, ast.Assign):
                for t in s.targets:
                    a = self_attr(t)
                    if a:
                        out.append(AttrDef(a, s, resolved(s.value), branch))
            elif isinstance(s, ast.AnnAssign) and s.value is not None:
                a = self_attr(s.target)
                if a:
                    out.append(AttrDef(a, s, resolved(s.value), branch))
            elif isinstance(s, ast.If):
                t = unparse(s.test)
                visit(s.body, branch + ((t, True),))
                visit(s.orelse, branch + ((t, False),))
            elif isinstance(s, (ast.For, ast.While, ast.With, ast.Try)):
                for fld in ("body", "orelse", "finalbody"):
                    visit(getattr(s, fld, []) or [], branch)
                for h in getattr(s, "handlers", []) or []:
                    visit(h.body, branch)
    visit(func.body(), ())
    return out


def scalar_ctor(node):
    """(Ty, arg) if node is np.uintN(arg) / uintN(arg) / np.float64(arg)."""
    if isinstance(node, ast.Call) and len(node.args) == 1 and not node.keywords:
        ty = cast_target(node.func)
        if ty is not None and dotted(node.func) not in ("int", "float"):
            return ty, node.args[0]
    return None


def param_rebinds(func_node, name):
    """Stores to the parameter `name` inside a function, classified by what they can do to a caller's value:
         ("conv", stmt)                  name = int(name) / np.T(name)                       -- the value itself, converted
         ("none-default", stmt)          a store that happens only when `name is None`        -- resolves a None default
         ("truthy-default", stmt, node)  name = name or C / a store guarded by `not name`     -- also replaces a legal 0
         ("other", stmt)                 anything else
    (syntax-directed: the guards looked at are the enclosing `if` tests)"""
    out = []

    def is_name(n):
        return isinstance(n, ast.Name) and n.id == name

    def none_test(t):
        """+1 if t is `name is None`, -1 if `name is not None`, 0 otherwise."""
        if isinstance(t, ast.Compare) and len(t.ops) == 1 and is_name(t.left) and isinstance(t.comparators[0], ast.Constant) \
                and t.comparators[0].value is None:
            if isinstance(t.ops[0], (ast.Is, ast.Eq)):
                return 1
            if isinstance(t.ops[0], (ast.IsNot, ast.NotEq)):
                return -1
        return 0

    def truthy_test(t):
        """+1 if t is `not name` (taken when falsy), -1 if `name` (taken when truthy)."""
        if isinstance(t, ast.UnaryOp) and isinstance(t.op, ast.Not) and is_name(t.operand):
            return 1
        if is_name(t):
            return -1
        return 0

    def classify(stmt, value, guards):
        if is_name(value):
            return
        if isinstance(value, ast.Call) and len(value.args) == 1 and not value.keywords and is_name(value.args[0]) \
                and (dotted(value.func) in ("int", "operator.index") or cast_target(value.func) is not None):
            out.append(("conv", stmt))
            return
        if isinstance(value, ast.BoolOp) and isinstance(value.op, ast.Or) and is_name(value.values[0]):
            out.append(("truthy-default", stmt, value.values[-1]))
            return
        if isinstance(value, ast.IfExp):
            nt, tt = none_test(value.test), truthy_test(value.test)
            if (nt == 1 and is_name(value.orelse)) or (nt == -1 and is_name(value.body)):
                out.append(("none-default", stmt))
                return
            if (tt == 1 and is_name(value.orelse)) or (tt == -1 and is_name(value.body)):
                out.append(("truthy-default", stmt, value.body if tt == 1 else value.orelse))
                return
        for t, in_body in reversed(guards):
            nt, tt = none_test(t), truthy_test(t)
            if (nt == 1 and in_body) or (nt == -1 and not in_body):
                out.append(("none-default", stmt))
                return
            if (tt == 1 and in_body) or (tt == -1 and not in_body):
                out.append(("truthy-default", stmt, value))
                return
        out.append(("other", stmt))

    def walk(stmts, guards):
        for st in stmts:
            if isinstance(st, (ast.FunctionDef, ast.AsyncFunctionDef, ast.ClassDef)):
                continue
            if isinstance(st, ast.Assign):
                for t in st.targets:
                    if is_name(t):
                        classify(st, st.value, guards)
                    elif isinstance(t, (ast.Tuple, ast.List)) and any(is_name(x) for x in ast.walk(t)):
                        out.append(("other", st))
            elif isinstance(st, ast.AnnAssign) and is_name(st.target) and st.value is not None:
                classify(st, st.value, guards)
            elif isinstance(st, ast.AugAssign) and is_name(st.target):
                out.append(("other", st))
            elif isinstance(st, ast.If):
                walk(st.body, guards + [(st.test, True)])
                walk(st.orelse, guards + [(st.test, False)])
            elif isinstance(st, (ast.For, ast.While)):
                if isinstance(st, ast.For) and any(is_name(x) for x in ast.walk(st.target)):
                    out.append(("other", st))
                walk(st.body, guards)
                walk(st.orelse, guards)
            elif isinstance(st, ast.With):
                if any(i.optional_vars is not None and any(is_name(x) for x in ast.walk(i.optional_vars)) for i in st.items):
                    out.append(("other", st))
                walk(st.body, guards)
            elif isinstance(st, ast.Try):
                walk(st.body, guards)
                for h in st.handlers:
                    walk(h.body, guards)
                walk(st.orelse, guards)
                walk(st.finalbody, guards)
    walk(func_node.body, [])
    return out


def array_alloc(node):
    """Describe an array allocation expression.

    np.zeros(shape, dtype)                         -> ('zeros', dtype Ty, shape nodes)
    np.frombuffer(buf[a:b], dtype).reshape(d...)   -> ('frombuffer', dtype Ty, shape nodes|None, buffer slice node)
    """
    if not isinstance(node, ast.Call):
        return None
    d = dotted(node.func)
    if d in ("np.zeros", "numpy.zeros", "np.empty", "numpy.empty"):
        if not node.args:
            return None
        shape = node.args[0]
        dt = node.args[1] if len(node.args) > 1 else next((k.value for k in node.keywords if k.arg == "dtype"), None)
        dims = list(shape.elts) if isinstance(shape, (ast.Tuple, ast.List)) else [shape]
        return {"kind": "zeros", "dtype": _dtype(dt), "dtype_node": dt, "dims": dims, "node": node}
    # frombuffer possibly followed by .reshape
    if isinstance(node.func, ast.Attribute) and node.func.attr == "reshape":
        inner = array_alloc(node.func.value)
        if inner and inner["kind"] == "frombuffer":
            dims = list(node.args)
            if len(dims) == 1 and isinstance(dims[0], (ast.Tuple, ast.List)):
                dims = list(dims[0].elts)
            inner = dict(inner)
            inner["dims"] = dims
            inner["node"] = node
            return inner
        return None
    if d in ("np.frombuffer", "numpy.frombuffer"):
        if not node.args:
            return None
        dt = node.args[1] if len(node.args) > 1 else next((k.value for k in node.keywords if k.arg == "dtype"), None)
        return {"kind": "frombuffer", "dtype": _dtype(dt), "dtype_node": dt, "dims": None, "buf": node.args[0], "node": node}
    return None


def _dtype(node):
    if node is None:
        return None
    d = dotted(node)
    if d:
        last = d.split(".")[-1]
        if last in NP_DTYPES and d.split(".")[0] in ("np", "numpy", last):
            return NP_DTYPES[last]
    return None


class KCall:
    """A resolved call from `caller` to a package function `callee`."""
    __slots__ = ("caller", "node", "callee", "argmap", "starred")

    def __init__(self, caller, node, callee):
        self.caller = caller
        self.node = node
        self.callee = callee
        self.argmap = {}
        # a `*xs` the normaliser could not write out supplies an unknown number of positions: what follows it is not mapped
        self.starred = any(isinstance(a, ast.Starred) for a in node.args) or any(kw.arg is None for kw in node.keywords)
        for i, a in enumerate(node.args):
            if isinstance(a, ast.Starred):
                break
            if i < len(callee.params):
                self.argmap[callee.params[i]] = a
        for kw in node.keywords:
            if kw.arg:
                self.argmap[kw.arg] = kw.value


UNIT_RESOLVERS = []      # functions RepoFacts -> names of helper kernels that some rule treats as a unit (filled in by the rule modules)


class RepoFacts:
    def __init__(self, ctx):
        self.ctx = ctx
        self.model = ctx.model
        self.effects = Effects(self.model)
        self._walks = {}
        self._units = None
        self.extra_units = set()
        self._kcalls = None
        self._consts = {}
        self._param_attr = None

    # -- classes --------------------------------------------------------
    def classes(self, which=SKETCH_CLASSES):
        return [self.model.cls(m, c) for m, c in which]

    def ctor(self, cls):
        f = cls.resolve("__init__")
        if f is None:
            raise AnalysisError("%s has no __init__" % cls.key)
        return f

    def attr_defs(self, cls):
        return init_attr_defs(self.ctor(cls))

    def attr_types(self, cls):
        """attr -> Ty as established by the constructor (scalars via NumPy constructors, arrays via allocation)."""
        out = {}
        for d in self.attr_defs(cls):
            sc = scalar_ctor(d.value)
            if sc:
                out.setdefault(d.attr, sc[0])
                continue
            al = array_alloc(d.value)
            if al and al["dtype"] is not None:
                nd = len(al["dims"]) if al["dims"] else 1
                t = al["dtype"]
                out.setdefault(d.attr, Ty(t.kind, t.bits, nd))
        return out

    # -- call graph -----------------------------------------------------
    def kcalls(self):
        if self._kcalls is None:
            out = []
            for f in self.model.all_funcs():
                for n in walk_no_nested(f.node):
                    if isinstance(n, ast.Call) and isinstance(n.func, ast.Name):
                        callee = self.model.lookup_func(f.module, n.func.id)
                        if callee is not None and not (callee.is_kernel and callee.is_noop):
                            out.append(KCall(f, n, callee))
            self._kcalls = out
        return self._kcalls

    def calls_to(self, callee):
        return [k for k in self.kcalls() if k.callee is callee]

    def calls_from(self, caller):
        return [k for k in self.kcalls() if k.caller is caller]

    # -- parameter roles ------------------------------------------------
    def param_attr(self):
        """kernel key -> {param: set(attr names it is fed from, 'other.X' for the second operand)}."""
        if self._param_attr is not None:
            return self._param_attr
        pa = {}
        changed = True
        # seed from methods
        for k in self.kcalls():
            if k.caller.cls is None or not k.callee.is_kernel:
                continue
            m = pa.setdefault(k.callee.key, {})
            for p, a in k.argmap.items():
                sa = self_attr(a)
                oa = self_attr(a, "other")
                if sa:
                    m.setdefault(p, set()).add(sa)
                elif oa:
                    m.setdefault(p, set()).add("other." + oa)
        while changed:
            changed = False
            for k in self.kcalls():
                if k.caller.cls is not None or not (k.caller.is_kernel and k.callee.is_kernel):
                    continue
                src = pa.get(k.caller.key, {})
                m = pa.setdefault(k.callee.key, {})
                for p, a in k.argmap.items():
                    if isinstance(a, ast.Name) and a.id in src:
                        before = len(m.get(p, ()))
                        m.setdefault(p, set()).update(src[a.id])
                        if len(m[p]) != before:
                            changed = True
        self._param_attr = pa
        return pa

    def param_for(self, kernel, attr):
        """The parameter of `kernel` fed from attribute `attr` (exactly one) or None."""
        m = self.param_attr().get(kernel.key, {})
        ps = [p for p, s in m.items() if attr in s]
        return ps[0] if len(ps) == 1 else None

    # -- ceilings -------------------------------------------------------
    def class_ceiling(self, cls):
        """(bits, value, node) of `self.uint_maxval = np.uintN(2**N - 1)` or None."""
        for d in self.attr_defs(cls):
            if d.attr == "uint_maxval":
                sc = scalar_ctor(d.value)
                if sc:
                    v = const_int(sc[1])
                    return sc[0], v, d.stmt
                return None
        return None

    def consts_for(self, kernel, _stack=()):
        """{param: int} for ceiling parameters whose value every caller agrees on."""
        if kernel.key in self._consts:
            return self._consts[kernel.key]
        if kernel.key in _stack:
            return {}
        vals = {}
        callers = self.calls_to(kernel)
        for k in callers:
            if k.caller.cls is not None:
                cc = self.class_ceiling(k.caller.cls)
                for p, a in k.argmap.items():
                    if self_attr(a) == "uint_maxval":
                        vals.setdefault(p, set()).add(cc[1] if cc and cc[1] is not None else None)
            elif k.caller.is_kernel:
                sub = self.consts_for(k.caller, _stack + (kernel.key,))
                for p, a in k.argmap.items():
                    if isinstance(a, ast.Name) and a.id == "uint_maxval" or (isinstance(a, ast.Name) and a.id in sub):
                        vals.setdefault(p, set()).add(sub.get(a.id))
        out = {p: next(iter(s)) for p, s in vals.items() if len(s) == 1 and None not in s}
        # only parameters whose declared type can hold the value exactly
        for p in list(out):
            ty = kernel.ptypes.get(p)
            if ty is None or ty.kind != "uint" or out[p] != 2 ** ty.bits - 1:
                del out[p]
        self._consts[kernel.key] = out
        return out

    # -- walks ----------------------------------------------------------
    def units(self):
        """Kernels the rules treat as a unit (a call event with an opaque result).  Every other kernel-to-kernel call inside the
        package is walked inline, so that "extract function" refactorings of a kernel's body change no verdict."""
        if self._units is None:
            u = set()
            for short in self.model.modules:
                for k in self.model.kernels(short):
                    if short == "hashes" or any(not c.caller.is_kernel for c in self.calls_to(k)):
                        u.add(k.name)
            self._units = u
            for r in UNIT_RESOLVERS:
                try:
                    u |= set(r(self))
                except AnalysisError:
                    pass
        return self._units | self.extra_units

    def is_inlined_helper(self, k):
        """A kernel that is only ever called from other kernels and that no rule treats as a unit: it is walked inline at each of
        its call sites, where its obligations are decided with the caller's facts (never stand-alone)."""
        if not k.is_kernel or k.name in self.units():
            return False
        callers = [c.caller for c in self.calls_to(k)]
        return bool(callers) and all(c.is_kernel for c in callers)

    def walk(self, func, **kw):
        if func.is_kernel and "no_inline" not in kw:
            kw["no_inline"] = frozenset(self.units())
        key = (func.key, tuple(sorted(kw)), tuple(sorted(kw.get("no_inline") or ())))
        if key not in self._walks:
            consts = self.consts_for(func) if func.is_kernel else {}
            opts = dict(consts=consts, effects=self.effects)
            if func.cls is not None:
                opts["attr_types"] = self.attr_types(func.cls)
            opts.update(kw)
            w = Walker(self.model, func, **opts)
            w.run()
            self._walks[key] = w
            self.ctx.analysed_funcs.add(func.key)
        return self._walks[key]


def facts_of(ctx):
    return ctx.shared("repo-facts", lambda: RepoFacts(ctx))
